"""python3 -m fxmc.seedcheck [ids...] [--tier quick] [--props C01,C06]

For every seeded change under /verif/seeded/<id>/ (patch.diff + meta.json): copy /repo's working tree to a scratch directory outside
/repo and /verif, apply the patch there, run the owning property's check (and any extra properties given in meta.json "also_run" or
--props) against that root, and record whether a VIOLATION was reported.  The scratch copy is removed afterwards.  /repo is never modified.
"""
import argparse, json, os, shutil, subprocess, sys, tempfile, time

VERIF = os.path.dirname(os.path.dirname(os.path.abspath(__file__)))


def run_one(sid, tier, extra_props, keep=False):
    d = os.path.join(VERIF, "seeded", sid)
    meta = json.load(open(os.path.join(d, "meta.json")))
    props = [meta["property"]] + [p for p in meta.get("also_run", []) if p != meta["property"]] + [p for p in extra_props if p != meta["property"]]
    scratch = tempfile.mkdtemp(prefix=f"fxseed_{sid}_", dir="/tmp")
    root = os.path.join(scratch, "repo")
    try:
        subprocess.run(["rsync", "-a", "--exclude", "_build", "--exclude", ".git", "/repo/", root + "/"], check=True)
        p = subprocess.run(["git", "apply", "--unsafe-paths", "--directory", root, os.path.join(d, "patch.diff")], cwd="/", capture_output=True, text=True)
        if p.returncode != 0:
            p = subprocess.run(["patch", "-p1", "-d", root, "-i", os.path.join(d, "patch.diff")], capture_output=True, text=True)
            if p.returncode != 0:
                return {"id": sid, "error": "patch does not apply: " + (p.stderr or p.stdout)[-400:]}
        res = {"id": sid, "property": meta["property"], "tier": tier, "results": {}}
        for prop in props:
            t0 = time.time()
            env = dict(os.environ); env["FXMC_NO_EVIDENCE"] = "1"
            cmd = [sys.executable, "-m", "fxmc", "check", prop, "--tier", tier, "--root", root, "--quiet"]
            filt = meta.get("cases_filter", {}).get(prop)
            q = subprocess.run(cmd, cwd=VERIF, capture_output=True, text=True, env=env)
            viol = [ln for ln in q.stdout.split("\n") if ln.startswith("VIOLATION")]
            first = ""
            lines = q.stdout.split("\n")
            for i, ln in enumerate(lines):
                if ln.startswith("VIOLATION") and i + 1 < len(lines):
                    first = lines[i + 1].strip()[:300]; break
            res["results"][prop] = {"exit": q.returncode, "violations_printed": len(viol), "first": first, "wall_s": round(time.time() - t0, 1),
                                    "summary": lines[-2][:300] if len(lines) > 1 else ""}
        return res
    finally:
        if not keep:
            shutil.rmtree(scratch, ignore_errors=True)


def main():
    ap = argparse.ArgumentParser()
    ap.add_argument("ids", nargs="*")
    ap.add_argument("--tier", default="quick")
    ap.add_argument("--props", default="")
    a = ap.parse_args()
    ids = a.ids or sorted(os.listdir(os.path.join(VERIF, "seeded")))
    extra = [p for p in a.props.split(",") if p]
    out = []
    for sid in ids:
        if not os.path.exists(os.path.join(VERIF, "seeded", sid, "meta.json")):
            continue
        r = run_one(sid, a.tier, extra)
        out.append(r)
        print(json.dumps(r, indent=1), flush=True)
        mpath = os.path.join(VERIF, "seeded", sid, "meta.json")
        meta = json.load(open(mpath))
        if "results" in r:
            det = meta.setdefault("detection", {})
            for prop, v in r["results"].items():
                det[f"{prop}.{a.tier}"] = {"detected": v["exit"] == 1 and v["violations_printed"] > 0, "first": v["first"], "wall_s": v["wall_s"]}
            json.dump(meta, open(mpath, "w"), indent=1)
    bad = [r for r in out if "error" in r or not any(v["exit"] == 1 for v in r.get("results", {}).values())]
    print(f"{len(out) - len(bad)}/{len(out)} seeded changes detected")
    sys.exit(1 if bad else 0)


if __name__ == "__main__":
    main()
