"""C19 - index-tensor and boolean-mask views select and update exactly the indexed items (exploration)."""
from ..configs import Config, ALL_ISAS, CTYPE
from ..engine import Case

ID = "C19"
LEVEL = "exploration"
HEADER = "c19.h"
TU_BUDGET = 9.0
RUN_TIMEOUT_S = 900
OPN = ["assign", "add", "sub", "mul", "div"]
ITYPE = {"i32": "int", "i64": "int64_t", "u64": "size_t"}
ISZ = {"i32": 4, "i64": 8, "u64": 8}

TECHNIQUE = ("bounded-exhaustive enumeration of index-tensor contents and masks (run-time data) x view forms, index lengths, index element types, "
             "operators, right-hand-side kinds and read contexts (compile-time cases) x ISA builds; gather/scatter reference at every point")
LEVEL_TEXT = ("Every index vector of length <=4 over the parent (repeats, any order) is used for reads and every duplicate-free one for writes, in "
              "each view form; longer vectors (W, W+1, 2W) come from an enumerated structured family; all 2^12 masks on a 1-D and a 2-D parent "
              "plus structured larger ones. Each point runs the real library and compares the whole parent (writes) or result (reads) with a "
              "reference gather/scatter, with canary frames. This is a coverage statement over the stated box only.")
RULE = ("case = (element type, view form, parent shape, index lengths, index element type[, operator]); run-time points = index-vector / mask "
        "contents x read context or right-hand-side kind; one evaluation = one library statement judged element-wise (exact) on the whole "
        "parent or result + canary frames + operands unchanged; non-trivial = expected differs from the destination's contents before the statement")
ASSUMPTIONS = [
    "gather/scatter code depends on the index values only through address computation, so one fixed address-coded parent "
    "(pairwise distinct elements) identifies every position that is read or written",
    "reference: r[k] = A[pos[k]] (reads), A[pos[k]] = op(A[pos[k]], rhs[k]) (writes) with pos from a plain odometer over the index tensors",
    "writes use duplicate-free positions only (the statement promises nothing for repeated destinations); right-hand-side views may repeat",
    "scalar /= on floating types uses a power of two (the library multiplies by the reciprocal); integer division never sees a zero divisor",
    "index values are always inside the parent (out-of-range indices are C07's domain)",
]


def configs(tier):
    if tier == "quick":
        return [Config(isa=i) for i in ("S2", "A2", "A5")]
    # the scatter loops of the index views have a second spelling under FASTOR_USE_VECTORISED_EXPR_ASSIGN: one extra build
    return [Config(isa=i) for i in ALL_ISAS] + [Config(isa=i, san=True, opt="O1") for i in ("A2", "A5")] + \
        [Config(isa="A2", defs=("FASTOR_USE_VECTORISED_EXPR_ASSIGN",))]


def _form(fid, M, NC, K0, K1=0, F=0, S=1, Q=0, i0="i32", i1="i32"):
    return f"c19::form({fid},{M},{NC},{K0},{K1},{F},{S},{Q},{ISZ[i0]},{ISZ[i1]})"


def _reads(out, t, P, form, ident, ctxs, mult, route):
    ct = CTYPE[t]
    body = f"auto j = c19::job_of<{ct},{P}>({form});"
    for c in ctxs:
        body += f" j.rdf[{c}] = &c19::rd<{P},{c}>;"
    body += f" c19::run_reads<{ct}>(fx,j);"
    out.append(Case(f"C19/read_{ident}", body, route="read." + route, cost=(0.25 + 0.22 * len(ctxs)) * mult))


def _writes(out, t, P, form, ident, combos, mult, route, mask=False):
    """combos: {op: [rhs kinds]}"""
    ct = CTYPE[t]
    for op, rhss in sorted(combos.items()):
        body = f"auto j = c19::job_of<{ct},{P}>({form});"
        for r in rhss:
            body += f" j.wrf[{op}][{r}] = &c19::wr<{P},{op},{r}>;"
        body += f" c19::run_{'mask' if mask else 'writes'}<{ct}>(fx,j,{op});"
        nm = "mask" if mask else "write"
        out.append(Case(f"C19/{nm}_{ident[:-1]},op={OPN[op]}]", body, route=f"{nm}." + route, cost=(0.25 + 0.2 * len(rhss)) * mult))


FULL = {op: [0, 1, 2, 3, 4] for op in range(5)}          # 4 = a right-hand side that requires evaluation ((2I) % B)
LEAN = {0: [0, 1, 2, 3], 1: [1], 2: [1], 3: [1], 4: [1]}        # every operator with a tensor, '=' with every kind
MINI = {0: [1, 3], 1: [1, 3]}


def cases(tier, cfg):
    out = []
    mult = 2.7 if cfg.san else 1
    thorough = tier == "thorough"
    for t in ("f64", "i32", "f32", "i64"):
        W, ct = cfg.w(t), CTYPE[t]
        N1 = W + 3
        # ---- form 1: A(it) on a 1-D parent --------------------------------------------------------------------------
        longs = [k for k in (W, W + 1, 2 * W) if k > 4]
        parents = [N1] + ([3] if thorough else [])
        for N in parents:
            for K in [1, 2, 3, 4] + (longs if N == N1 else []):
                P = f"c19::P1<{ct},{N},{K},int>"
                _reads(out, t, P, _form(1, 1, N, K), f"1d[{t}|N={N},K={K},idx=i32]", [0, 1, 2, 3] if N == N1 else [0, 2], mult, "A(it)")
                if K <= N:
                    wc = FULL if (K == 4 or K == W + 1) and N == N1 else LEAN
                    _writes(out, t, P, _form(1, 1, N, K), f"1d[{t}|N={N},K={K},idx=i32]", wc, mult, "A(it)")
            for it in ("i64", "u64"):
                for K in sorted({4, W + 1 if W + 1 > 4 else 3}):
                    if N != N1:
                        continue
                    P = f"c19::P1<{ct},{N},{K},{ITYPE[it]}>"
                    _reads(out, t, P, _form(1, 1, N, K, i0=it), f"1d[{t}|N={N},K={K},idx={it}]", [0, 1], mult, "A(it)." + it)
                    _writes(out, t, P, _form(1, 1, N, K, i0=it), f"1d[{t}|N={N},K={K},idx={it}]", MINI, mult, "A(it)." + it)
        # ---- form 2: A(it0,it1) ---------------------------------------------------------------------------------------
        NC = W + 1
        shapes2 = [(3, 4, 2, 2, "i32", "i32", [0, 1, 2, 3], FULL), (3, 4, 1, 3, "i32", "i32", [0, 1, 2], LEAN),
                   (4, NC, 2, 3 if NC >= 3 else 2, "i32", "i32", [0, 1, 2], LEAN), (4, NC, 3, NC, "i32", "i32", [0, 1], LEAN),
                   (3, 4, 2, 2, "i64", "i32", [0, 1], MINI), (3, 4, 2, 2, "u64", "u64", [0, 1], MINI)]
        seen = set()
        for (M, N, K0, K1, i0, i1, ctxs, wc) in shapes2:
            key = (M, N, K0, K1, i0, i1)
            if key in seen:
                continue
            seen.add(key)
            P = f"c19::P2<{ct},{M},{N},{K0},{K1},{ITYPE[i0]},{ITYPE[i1]}>"
            ident = f"2d[{t}|M={M},N={N},K0={K0},K1={K1},idx={i0}x{i1}]"
            _reads(out, t, P, _form(2, M, N, K0, K1, i0=i0, i1=i1), ident, ctxs, mult, "A(it0,it1)")
            if K0 <= M and K1 <= N:
                _writes(out, t, P, _form(2, M, N, K0, K1, i0=i0, i1=i1), ident, wc, mult, "A(it0,it1)")
        # ---- forms 3, 4: A(it,k), A(k,it) -----------------------------------------------------------------------------
        for fid, nm in ((3, "itk"), (4, "kit")):
            for K in (2, 4):
                rng = 4 if fid == 3 else NC
                P = f"c19::P{fid}<{ct},4,{NC},{K},int>"
                ident = f"{nm}[{t}|M=4,N={NC},K={K},idx=i32]"
                _reads(out, t, P, _form(fid, 4, NC, K), ident, [0, 1] if K == 2 else [0], mult, "A(it,k)" if fid == 3 else "A(k,it)")
                if K <= rng and K == 2:
                    _writes(out, t, P, _form(fid, 4, NC, K), ident, LEAN, mult, "A(it,k)" if fid == 3 else "A(k,it)")
            if thorough:
                P = f"c19::P{fid}<{ct},4,{NC},3,int64_t>"
                ident = f"{nm}[{t}|M=4,N={NC},K=3,idx=i64]"
                _reads(out, t, P, _form(fid, 4, NC, 3, i0="i64"), ident, [0], mult, ("A(it,k)" if fid == 3 else "A(k,it)") + ".i64")
        # ---- forms 5, 6: A(it,fseq), A(fseq,it) -----------------------------------------------------------------------
        def cnt(F, L, S):
            return (L - F + S - 1) // S
        fs5 = [(0, NC, 1)] + ([(1, NC, 2)] if NC >= 3 else [])          # column ranges
        fs6 = [(0, 4, 1), (1, 4, 2)]                                     # row ranges
        for (F, L, S) in fs5:
            Q = cnt(F, L, S)
            P = f"c19::P5<{ct},4,{NC},2,int,c19::FS<{F},{L},{S}>>"
            ident = f"itfseq[{t}|M=4,N={NC},K=2,fseq={F}:{L}:{S},idx=i32]"
            _reads(out, t, P, _form(5, 4, NC, 2, 0, F, S, Q), ident, [0, 1], mult, "A(it,fseq)")
            _writes(out, t, P, _form(5, 4, NC, 2, 0, F, S, Q), ident, LEAN if S == 1 else MINI, mult, "A(it,fseq)")
        for (F, L, S) in fs6:
            Q = cnt(F, L, S)
            K = 3 if NC >= 3 else 2
            P = f"c19::P6<{ct},4,{NC},{K},int,c19::FS<{F},{L},{S}>>"
            ident = f"fseqit[{t}|M=4,N={NC},K={K},fseq={F}:{L}:{S},idx=i32]"
            _reads(out, t, P, _form(6, 4, NC, K, 0, F, S, Q), ident, [0, 1], mult, "A(fseq,it)")
            _writes(out, t, P, _form(6, 4, NC, K, 0, F, S, Q), ident, LEAN if S == 1 else MINI, mult, "A(fseq,it)")
        # ---- form 7: n-D flat-index tensor ----------------------------------------------------------------------------
        for it in (("i32", "i64") if thorough else ("i32",)):
            P = f"c19::P7<{ct},3,4,2,2,{ITYPE[it]}>"
            ident = f"flat[{t}|M=3,N=4,K0=2,K1=2,idx={it}]"
            _reads(out, t, P, _form(7, 3, 4, 2, 2, i0=it), ident, [0, 1, 3] if it == "i32" else [0], mult, "A(flat)")
            _writes(out, t, P, _form(7, 3, 4, 2, 2, i0=it), ident, LEAN if it == "i32" else MINI, mult, "A(flat)")
        # ---- masks ----------------------------------------------------------------------------------------------------
        NB = max(W + 3, 14)
        for dims, wc in (((12,), FULL), ((3, 4), LEAN), ((NB,), LEAN)):
            d = ",".join(str(x) for x in dims)
            P = f"c19::PM<{ct},{d}>"
            ident = f"{len(dims)}d[{t}|{'N=' + str(dims[0]) if len(dims) == 1 else 'M=%d,N=%d' % dims}]"
            fm = _form(8, dims[0] if len(dims) == 2 else 1, dims[-1], 0)
            _writes(out, t, P, fm, ident, wc, mult, "A(mask)", mask=True)
    return out


def expected_routes(tier):
    return ["read.A(it)", "write.A(it)", "read.A(it0,it1)", "write.A(it0,it1)", "read.A(it,k)", "write.A(it,k)", "read.A(k,it)", "write.A(k,it)",
            "read.A(it,fseq)", "write.A(it,fseq)", "read.A(fseq,it)", "write.A(fseq,it)", "read.A(flat)", "write.A(flat)", "mask.A(mask)",
            "read.A(it).i64", "read.A(it).u64", "write.A(it).i64", "write.A(it).u64"]


def bounds(tier):
    s = ("1-D parent N=W+3 (W = native vector width of the element type): A(it) with K in {1,2,3,4} (every vector of [0,N)^K for reads, every "
         "duplicate-free one for writes) and K in {W,W+1,2W} (structured family: identity/reversal windows, stride permutations, rotations, "
         "walks, swap-pairs, all-same, pair-repeat, alternating; duplicate-free subset for writes); index types int (all K), int64_t and size_t "
         "(K=4 and W+1). 2-D parents (3,4) and (4,W+1): A(it0,it1) with (K0,K1) in {(2,2),(1,3)} / {(2,3),(3,W+1)} (+ mixed int64xint and "
         "size_txsize_t on (2,2)), A(it,k) and A(k,it) with K in {2,4} and every k, A(it,fseq) with fseq in {all columns, 1:W+1:2}, A(fseq,it) "
         "with fseq in {all rows, 1:4:2}, flat 2x2 index tensor over (3,4) (12^4 contents). Read contexts: construct, r += view, 2*view+1, "
         "const parent. Writes: five operators x {scalar, tensor, 2*B+1, another random view (reversed / repeated indices on a second parent), (2I) % B}, "
         "all twenty on K=4, K=W+1, (2,2) and the N=12 mask, otherwise every operator with a tensor and '=' with every kind. Masks: all 2^12 on "
         "N=12 and on (3,4), structured on N=max(W+3,14). Types f32,f64,i32,i64. ")
    if tier == "quick":
        return s + "quick: S2, A2, A5."
    return s + ("thorough: all six ISAs + ASan/UBSan (-O1) on A2, A5 + A2 with FASTOR_USE_VECTORISED_EXPR_ASSIGN; additionally 1-D parent N=3 (K<=4, repeats), int64_t indices for A(it,k)/A(k,it) "
                "and the flat form. Not implemented from DESIGN.md: read contexts for mask views (the statement only speaks of assignment through a mask); "
                "right-hand-side view index vectors are derived from the destination's (reversed / repeated), not a free product.")
