"""C04 - reading through an index or a slice returns exactly the selected elements."""
from ..configs import Config, ALL_ISAS, CTYPE
from ..engine import Case

ID = "C04"
LEVEL = "exploration"
HEADER = "c04.h"
TU_BUDGET = 12.0
RUN_TIMEOUT_S = 900
TECHNIQUE = ("bounded-exhaustive enumeration of slice arguments (run-time ranges x encodings inside each case; compile-time ranges, argument "
             "kinds, destination extents and read contexts as generated cases) x element types x ISA builds; the real view code is executed "
             "at every point and compared with a reference odometer on index-coded data")
LEVEL_TEXT = ("Every (first,last,step) of the stated per-axis sets, in every stated encoding, is evaluated through the real library in each read "
              "context and compared exactly with the reference selection A[first+j*step] on data whose values identify their flat index; the "
              "view's dimension()/size() are compared with ceil((last-first)/step); canaries around every destination. This is complete "
              "coverage of the stated box, not a sample; nothing is claimed for extents or argument mixtures outside it.")
RULE = ("case = (family, element type, parent shape, argument kinds [run-time seq | seq with fixed extent | fseq<F,L,S> | iseq | integer], read "
        "context); inside a case the full product of the per-axis option lists is enumerated (run-time seq: the range set named in bounds x "
        "encodings {plain, last-relative, both-relative, seq(-1)}; integer: 0..N-1 and `last`); one evaluation = one library expression "
        "(construct / assign / += / inside + * unary- / sum / view->view assignment / dimension()+size()) judged element-wise and exactly "
        "against the reference odometer over the *whole* destination, plus canary frame and source-unchanged check; non-trivial = expected "
        "destination differs from its initial contents; distinct = distinct (case, point, expected) hashes. Point labels: r<axis> = "
        "enc*1000000 + first*10000 + last*100 + step of the normalised range (enc 0 plain, 1 last-relative, 2 both relative, 3 seq(-1)/`last`)")
ASSUMPTIONS = [
    "documented encoding of slice bounds: as an end bound -1 (`last`) stands for N, so seq(f,last-k) is [f,N-k); a negative first is admissible "
    "only together with a negative last and maps to N+1+first; (-1,0), i.e. seq(-1) or the integer `last`, is the last element",
    "bare negative integers other than `last` used as a *slice* argument (seq(-2), b(all,-2)) are outside the documented encoding: explored, "
    "reported, not judged; scalar indexing A(i,...) with any negative index in [-n,-1] is judged",
    "steps larger than last-first all select the single element `first`; for rank >= 2 they are represented by step = last-first (set FULLQ)",
    "evaluate(view) is exercised for compile-time views only: a dynamic view's result_type is the parent tensor type by design",
    "reads outside the parent tensor that do not change the result are not judged here (property C07)",
    "values are small integers, so every +, * and sum is exact in all four element types; floating-point contraction is off",
]

NOSPEC = "FASTOR_DISABLE_SPECIALISED_CTR"
RS_FULL, RS_FULLQ, RS_THIN, RS_ONE = 0, 1, 2, 3
M_LASTFULLQ, M_ENC, M_NEGINT, M_LASTELEM = 4, 8, 16, 32
TYPES = ["f64", "f32", "i32", "i64"]
MAX_POINTS = 1_400_000     # per case: keeps the distinct-evaluation hash set below its cap

V_CTX = [("vassign", True), ("vcassign", True), ("vadd", False), ("vplus", False), ("vmul", False), ("vneg", False), ("sum", False),
         ("shape", True)]


def configs(tier):
    if tier == "quick":
        return [Config(isa=i) for i in ("S2", "A2", "A5")]
    return [Config(isa=i) for i in ALL_ISAS] + [Config(isa="A5", std="17"), Config(isa="A2", san=True, opt="O1"),
                                                Config(isa="A2", defs=(NOSPEC,))]


# ---- counting helpers (mirror views_common.h) -------------------------------------------------------------------------
def n_full(N):
    return N * (N + 1) // 2 * N


def fullq(N):
    return [(f, l, s) for f in range(N) for l in range(f + 1, N + 1) for s in range(1, max(1, l - f) + 1)]


def thin(N):
    out = []

    def push(f, l, s):
        if s >= 1 and 0 <= f < l <= N and (f, l, s) not in out:
            out.append((f, l, s))
    push(0, N, 1); push(0, 1, 1); push(N - 1, N, 1); push(N // 2, N // 2 + 1, 1)
    push(0, (N + 1) // 2, 1); push(N // 2, N, 1)
    for s in range(2, N):
        push(s % 2, N, s)
    if N >= 2:
        push(0, N, N)
    return out


def n_set(N, rs):
    return {RS_FULL: n_full(N), RS_FULLQ: len(fullq(N)), RS_THIN: len(thin(N)), RS_ONE: 1}[rs]


def points(sh, mode, kinds=None):
    p = 1
    for i, N in enumerate(sh):
        k = kinds[i] if kinds else "S"
        if k[0] == "S":
            rs = mode & 3
            if (mode & M_LASTFULLQ) and i == len(sh) - 1:
                rs = RS_FULLQ
            c = n_set(N, rs)
            if mode & M_ENC:
                c = 3 * c + (1 if len(sh) > 1 else 0)
            p *= c
        elif k[0] == "I":
            p *= N + 1
    return p


def dims(sh):
    return "vw::Dims<%s>" % ",".join(str(x) for x in sh)


def shp(sh):
    return "x".join(str(x) for x in sh)


class K:
    """argument kind: C++ spelling + identity spelling"""
    def __init__(self, cpp, ident):
        self.cpp, self.ident = cpp, ident


S = K("vw::KS", "S")
I = K("vw::KI", "I")
FLAST = K("vw::KFL", "flast")


def SE(e):
    return K(f"vw::KSE<{e}>", f"S:e{e}")


def F(f, l, s=1):
    return K(f"vw::KF<{f},{l},{s}>", f"F({f}:{l}:{s})")


def Q(f, l, s=1):
    return K(f"vw::KQ<{f},{l},{s}>", f"Q({f}:{l}:{s})")


class Gen:
    def __init__(self, tier, cfg):
        self.tier, self.cfg, self.out = tier, cfg, []
        self.variant = cfg.std != "14" or cfg.san or cfg.has_def(NOSPEC)
        self.full = tier == "thorough" and not self.variant
        self.mult = 2.7 if cfg.san else 1.0

    def rd(self, fam, t, sh, kinds, ctx, mode, cost, extra="", judged=True, must_compile=True, alone=False):
        ks = ",".join(k.ident for k in kinds)
        ident = f"C04/{fam}[{t}|{shp(sh)}|{ks}{extra}|ctx={ctx}]"
        body = f"c04::rd<{CTYPE[t]},c04::{ctx.upper()},{dims(sh)},{','.join(k.cpp for k in kinds)}>(fx,{mode}u);"
        c = cost * self.mult
        if alone:
            c = TU_BUDGET + 1     # a translation unit of its own (the failure mode is a link error, which takes the whole TU down)
        self.out.append(Case(ident, body, route=f"fam.{fam}.{ctx}", cost=c, judged=judged, must_compile=must_compile))

    def rdm(self, fam, t, sh, kinds, ctxs, mode, cost):
        """several contexts of one argument list in one case"""
        ks = ",".join(k.ident for k in kinds)
        ident = f"C04/{fam}[{t}|{shp(sh)}|{ks}|ctx={'+'.join(ctxs)}]"
        cl = ",".join(f"c04::{c.upper()}" for c in ctxs)
        body = f"c04::rdm<{CTYPE[t]},c04::CL<{cl}>,{dims(sh)},{','.join(k.cpp for k in kinds)}>(fx,{mode}u);"
        self.out.append(Case(ident, body, route=f"fam.{fam}", cost=cost * self.mult))

    def const_nd_alone(self, sh, kinds, ctx):
        # TensorConstViewExpr<...,DIMS>::products_ has no out-of-class definition: C++14 builds that odr-use it fail to *link*
        dynamic = any(k.ident[0] in "SI" for k in kinds)
        return self.cfg.std == "14" and len(sh) >= 3 and dynamic and ctx in ("vcassign", "cctor")


def _sizes_1d(W, full):
    if full:
        return list(range(1, 2 * W + 4))
    return sorted(x for x in {1, 2, 3, W - 1, W, W + 1, 2 * W, 2 * W + 1, 2 * W + 3} if x >= 1)


def fam_scalar(g, t, W):
    shapes = [(W + 1,), (3, 5), (2, 3, 4), (2, 3, 2, 3), (2, 3, 2, 3, 2)]
    if g.full:
        shapes += [(1,), (2 * W + 3,), (4, W + 1), (3, 2, W + 1), (1, 2, 1, 3, 1)]
    objs = [(0, "nonconst"), (1, "const")] + ([(2, "longlong")] if g.full else [])
    for sh in shapes:
        for o, name in objs:
            g.out.append(Case(f"C04/scalar[{t}|{shp(sh)}|obj={name}]", f"c04::scalar<{CTYPE[t]},{o},{dims(sh)}>(fx);",
                              route="fam.scalar", cost=0.03 * g.mult))


def fam_seq1d(g, t, W):
    for N in _sizes_1d(W, g.full):
        for ctx, enc in V_CTX:
            g.rd("seq1d", t, (N,), [S], ctx, RS_FULL | (M_ENC if enc else 0), 0.02 if ctx == "shape" else 0.12)
    # fixed destinations: the route depends on the destination extent E (mod W) and the step, not on N
    N = 2 * W + 3
    boundary = sorted(x for x in {1, 2, 3, W - 1, W, W + 1, 2 * W - 1, 2 * W, 2 * W + 1, 2 * W + 3} if x >= 1)
    Es = list(range(1, N + 1)) if g.full else boundary
    for E in Es:
        ctxs = ["ctor", "fadd", "ctorx"]
        if g.full:
            ctxs += ["cctor"] + (["fassign", "fexpr"] if E in boundary else [])
        for ctx in ctxs:
            g.rd("seq1d.fixed", t, (N,), [SE(E)], ctx, RS_FULL | (M_ENC if ctx == "ctor" else 0), 0.05)


def _shapes_2d(W, full):
    if not full:
        return [(3, 5), (2, W + 1), (4, W + 3), (3, 2 * W + 1)]
    Ns = list(range(1, W + 4)) + [2 * W, 2 * W + 1]
    out = [(1 + (N % 5), N) for N in Ns]
    out += [(M, W + 1) for M in (1, 5)] + [(5, W + 3), (5, 2 * W + 1), (3, 5)]
    seen, res = set(), []
    for s in out:
        if s not in seen:
            seen.add(s); res.append(s)
    return res


def fam_seq2d(g, t, W):
    for sh in _shapes_2d(W, g.full):
        for ctx, enc in V_CTX:
            mode = RS_FULLQ
            if enc and points(sh, RS_FULLQ | M_ENC) <= MAX_POINTS:
                mode |= M_ENC
            assert points(sh, mode) <= MAX_POINTS, (sh, mode)
            g.rd("seq2d", t, sh, [S, S], ctx, mode, 0.03 if ctx == "shape" else 0.2)
    # fixed destinations (2-D specialised constructor: eval(i,j) row loops)
    sh = (4, W + 3)
    if g.full:
        pairs = [(e0, e1) for e0 in (1, 4) for e1 in range(1, W + 4)] + [(e0, e1) for e0 in (2, 3) for e1 in (1, W, W + 1)]
        ctxs = ["ctor", "cctor", "ctorx", "fadd"]
    else:
        pairs = [(e0, e1) for e0 in (1, 3) for e1 in sorted(x for x in {1, W - 1, W, W + 1, W + 3} if x >= 1)]
        ctxs = ["ctor", "fadd"]
    for e0, e1 in pairs:
        for ctx in ctxs:
            g.rd("seq2d.fixed", t, sh, [SE(e0), SE(e1)], ctx, RS_FULLQ | (M_ENC if ctx == "ctor" else 0), 0.07)


def fam_seqnd(g, t, W):
    # the last extent 2W+1 is what reaches the strided-gather route (extent a multiple of W with step != 1)
    shapes = [(2, 3, W + 1), (2, 2, 2 * W + 1)]
    if g.full:
        shapes += [(3, 2, W), (2, 3, 2, W + 1), (2, 2, 3, 2, W + 1)]
    if g.variant and g.tier == "thorough":
        shapes += [(2, 3, 2, W + 1), (2, 2, 3, 2, W + 1)]
    for sh in shapes:
        if min(sh) < 1:
            continue
        for ctx, enc in V_CTX:
            mode = RS_THIN | M_LASTFULLQ
            if enc and ctx != "shape" and points(sh, mode | M_ENC) <= MAX_POINTS // 2:
                mode |= M_ENC
            assert points(sh, mode) <= MAX_POINTS, (sh, mode)
            alone = g.const_nd_alone(sh, [S] * len(sh), ctx)
            if alone and not (sh == shapes[0] or (g.full and len(sh) == 5)):
                continue   # the C++14 link defect of const n-D views is kept to a few identities
            g.rd(f"seq{len(sh)}d", t, sh, [S] * len(sh), ctx, mode, 0.04 if ctx == "shape" else 0.25 + 0.05 * len(sh), alone=alone)
    # fixed destinations (n-D specialised constructor: teval odometer, vectorised when the last extent is a multiple of W)
    sh = (2, 3, W + 3)
    exts = [(2, 2, W), (1, 3, W + 1), (2, 1, 1)] + ([(2, 3, W + 3), (1, 2, 2), (2, 2, W - 1 if W > 1 else 1)] if g.full else [])
    for e in exts:
        for ctx in (["ctor", "fadd", "ctorx", "cctor"] if g.full else ["ctor", "fadd"]):
            alone = g.const_nd_alone(sh, [S] * 3, ctx)
            if alone and e != exts[0]:
                continue
            g.rd("seq3d.fixed", t, sh, [SE(x) for x in e], ctx, RS_FULLQ, 0.12, alone=alone)


def wlist(N, W):
    """W-boundary family on an axis of extent N (meant for N = 2W+1): contiguous and strided ranges whose extents are W-1, W, W+1, 2W,
    multiples of W with a step (the strided-gather route), single elements, a step past the end"""
    cand = [(0, N, 1), (0, W, 1), (1, W + 1, 1), (N - W, N, 1), (0, 2 * W, 2), (1, 2 * W + 1, 2), (0, N, 2), (0, N, 3), (2, 3, 1), (0, N, N),
            (N - 1, N, 1), (0, 2 * W, 1), (1, W, 1)]
    out = []
    for r in cand:
        if 0 <= r[0] < r[1] <= N and r[2] >= 1 and r not in out:
            out.append(r)
    return out


def _encodings(N, f, l, s):
    """spellings of the normalised compile-time range (f,l,s) on an axis of extent N: (label, F, L, S)"""
    return [("plain", f, l, s), ("lastrel", f, l - N - 1, s), ("bothrel", f - N - 1, l - N - 1, s)]


def fam_fseq1d(g, t, W):
    if g.full:
        Ns = list(range(1, 10)) if t in ("f64", "i32") else list(range(1, 6))
    else:
        Ns = [1, 2, 3, 4, 5] if t == "f64" else [3]
    relative = t == "f64" or not g.full      # the last-relative / both-relative spellings resolve to the same view class: one type suffices
    extra_thin = sorted({W + 1, 2 * W + 1} - set(Ns)) if W > 1 else []
    main_ctx = ["ctor", "fadd", "ctorx", "vassign", "sum", "eval", "cctor", "shape"]
    for N in Ns + extra_thin:
        rs = fullq(N) if N in Ns else thin(N)
        for (f, l, s) in rs:
            for lab, Fv, Lv, Sv in _encodings(N, f, l, s):
                if lab == "plain":
                    ctxs = main_ctx if N in Ns else main_ctx[:4]
                    g.rdm("fseq1d", t, (N,), [F(Fv, Lv, Sv)], ctxs, 0, 0.04 * len(ctxs))
                elif relative:
                    g.rdm("fseq1d", t, (N,), [F(Fv, Lv, Sv)], ["shape", "ctor"], 0, 0.03)


def fam_fseq2d(g, t, W):
    todo = []      # (shape, [(r0, r1)], contexts)
    if g.full:
        prod35 = [(a, b) for a in fullq(3) for b in fullq(5)]
        if t == "f64":
            todo.append(((3, 5), prod35, ["ctor", "fadd", "vassign", "sum", "ctorx", "cctor", "cfexpr", "cfadd", "cfassign"]))
        elif t == "i32":
            todo.append(((3, 5), prod35, ["ctor"]))
        todo.append(((4, 2 * W + 1), [(a, b) for a in thin(4) for b in wlist(2 * W + 1, W)], ["ctor", "fadd", "vassign", "cctor", "cfexpr"]))
    else:
        # (const parent: the const view class has its own six readers - construction, expression and += each use another one)
        if t == "f64":
            todo.append(((3, 5), [(a, b) for a in thin(3) for b in thin(5)], ["ctor", "fadd", "cctor", "cfexpr", "cfadd"]))
        elif t in ("f32", "i32"):
            todo.append(((2, 2 * W + 1), [(a, b) for a in thin(2) for b in wlist(2 * W + 1, W)[:8]], ["ctor", "vassign", "cctor"]))
            # unequal row and column steps with a column count that leaves a scalar remainder
            todo.append(((5, 2 * W + 3), [((0, 5, 2), (0, W + 1, 1)), ((1, 5, 1), (0, 2 * W + 3, 2)), ((0, 5, 2), (1, 2 * W + 3, 3))], ["ctor", "cctor", "cfexpr", "cfadd", "fadd"]))
    for sh, prs, ctxs in todo:
        for k, (a, b) in enumerate(prs):
            # encodings rotate over the family (every range pair in one spelling, every spelling many times)
            ea = _encodings(sh[0], *a)[k % 3]
            eb = _encodings(sh[1], *b)[(k // 3) % 3]
            g.rdm("fseq2d", t, sh, [F(*ea[1:]), F(*eb[1:])], ctxs + ["shape"], 0, 0.05 * len(ctxs))


def fam_fseqnd(g, t, W):
    if t == "i64" and not g.full:
        return
    sh = (2, 3, 2 * W + 1)
    last = wlist(2 * W + 1, W)[:8]
    if g.full:
        fam = [(a, b, c) for a in thin(2) for b in thin(3) for c in last]
        ctxs = ["ctor", "fadd", "vassign", "sum", "cctor", "cfadd"]
        if t not in ("f64",):
            fam = fam[::3]
            ctxs = ["ctor", "vassign", "fadd", "cctor"]
    else:
        fam = [(a, b, c) for a in thin(2)[:2] for b in thin(3)[:3] for c in last]
        if t != "f64":
            fam = fam[::3]
        # (fadd / sum go through the flat vector reader, ctor through the multi-index one)
        ctxs = ["ctor", "fadd"] if t != "f64" else ["ctor", "vassign", "fadd", "sum", "cctor", "cfadd"]
    for k, (a, b, c) in enumerate(fam):
        e = [_encodings(sh[i], *r)[(k // (3 ** i)) % 3] for i, r in enumerate((a, b, c))]
        g.rdm("fseq3d", t, sh, [F(*x[1:]) for x in e], ctxs + ["shape"], 0, 0.08 * len(ctxs))
    if g.tier == "thorough" and t in ("f64", "i32"):
        sh4, sh5 = (2, 3, 2, 2 * W + 1), (2, 2, 3, 2, 2 * W + 1)
        for k, c in enumerate(last):
            e4 = [F(0, -1), F(1, 3), F(k % 2, k % 2 + 1), F(*_encodings(2 * W + 1, *c)[k % 3][1:])]
            e5 = [F(k % 2, 2), F(0, 2), F(0, 3, 2), F(0, -1), F(*_encodings(2 * W + 1, *c)[(k + 1) % 3][1:])]
            g.rdm("fseq4d", t, sh4, e4, ["ctor", "vassign", "shape"], 0, 0.2)
            g.rdm("fseq5d", t, sh5, e5, ["ctor", "vassign", "shape"], 0, 0.25)


def fam_iseq(g, t, W):
    if t not in ("f64", "i32"):
        return
    fams = [((7,), [[Q(0, 7)], [Q(1, 7, 2)], [Q(2, 5)], [Q(0, 7, 7)]]),
            ((3, 5), [[Q(0, 3), Q(0, 5)], [Q(1, 3), Q(1, 5, 2)], [Q(0, 3, 2), Q(4, 5)]]),
            ((2, 3, 4), [[Q(0, 2), Q(0, 3), Q(0, 4)], [Q(1, 2), Q(0, 3, 2), Q(1, 4, 2)]]),
            ((2, 2, 3, 2), [[Q(0, 2), Q(0, 2), Q(0, 3), Q(0, 2)], [Q(1, 2), Q(0, 2, 2), Q(1, 3), Q(0, 2)]])]
    for sh, lists in fams:
        for kinds in lists:
            # ctor: tensor object non-const; cctor: tensor object const.  Both are in the property's domain ("immediate ranges")
            for ctx in ("ctor", "cctor"):
                g.rd("iseq", t, sh, kinds, ctx, 0, 0.05)


def fam_mixed(g, t, W):
    if t not in ("f64", "i32") and not g.full:
        return
    sh = (3, W + 1)
    fs0 = [F(0, -1), F(1, -1, 2), F(0, 2)]
    fs1 = [F(0, -1), F(1, -1, 2), F(0, W)]
    combos = []
    for f in fs1:
        combos += [[S, f], [I, f]]
    for f in fs0:
        combos += [[f, S], [f, I]]
    combos += [[S, I], [I, S]]
    for kinds in combos:
        for ctx in ("vassign", "vcassign", "sum"):
            g.rd("mixed2d", t, sh, kinds, ctx, RS_FULLQ | M_ENC, 0.15)
    # fixed-destination forms need the extent of every run-time seq: a few extents
    for kinds in ([SE(2), F(1, -1, 2)], [F(0, 2), SE(W)], [I, SE(W + 1)], [SE(3), I], [F(0, -1), I], [I, F(0, -1)]):
        for ctx in ("ctor", "cctor", "fadd"):
            g.rd("mixed2d.fixed", t, sh, kinds, ctx, RS_FULLQ | M_ENC, 0.07)
    sh3 = (2, 3, W + 1)
    c3 = [[S, I, F(0, -1)], [I, F(0, -1), S], [F(0, -1), S, I], [I, I, S], [S, S, I], [F(0, 2), F(1, 3), I], [I, F(0, 2), F(1, -1, 2)], [S, I, I], [I, S, I]]
    for kinds in c3:
        for ctx in ("vassign", "sum", "vcassign"):
            alone = g.const_nd_alone(sh3, kinds, ctx)
            if alone and kinds is not c3[0]:
                continue
            g.rd("mixed3d", t, sh3, kinds, ctx, RS_THIN | M_LASTFULLQ | M_ENC, 0.3, alone=alone)
    if g.tier == "thorough":
        sh4, sh5 = (2, 2, 3, W + 1), (2, 3, 2, 2, W + 1)
        for kinds in ([S, I, F(0, -1), S], [I, F(0, -1), S, I]):
            for ctx in ("vassign", "sum"):
                g.rd("mixed4d", t, sh4, kinds, ctx, RS_THIN | M_LASTFULLQ, 0.4)
        for kinds in ([I, S, F(0, 2), I, S],):
            for ctx in ("vassign", "sum"):
                g.rd("mixed5d", t, sh5, kinds, ctx, RS_THIN | M_LASTFULLQ, 0.5)


def fam_special(g, t, W):
    if t != "f64":
        return
    # `flast` (Ranges.h) is meant to be the compile-time spelling of the last element
    for ctx in ("shape", "ctor"):
        g.rd("fseq1d.flast", t, (5,), [FLAST], ctx, 0, 0.03)
    g.rd("fseq2d.flast", t, (3, 5), [F(0, -1), FLAST], "shape", 0, 0.03)
    # seq(-1) = seq(last) on a 1-D tensor (known defect: the 1-D view constructors lack the (-1,0) rule): kept apart
    g.rd("seq1d.lastelem", t, (5,), [S], "shape", M_LASTELEM, 0.03)
    g.rd("seq1d.lastelem", t, (5,), [S], "vassign", M_LASTELEM, 0.1)
    g.rd("seq1d.lastelem", t, (5,), [SE(1)], "ctor", M_LASTELEM, 0.05)
    # bare negative integers as slice arguments: explored, not judged
    g.rd("seq1d.negint", t, (5,), [S], "vassign", M_NEGINT, 0.1, judged=False)
    g.rd("seq2d.negint", t, (3, 5), [S, I], "vassign", RS_THIN | M_NEGINT, 0.2, judged=False)
    g.rd("seq2d.negint", t, (3, 5), [S, S], "vassign", RS_THIN | M_NEGINT, 0.2, judged=False)


def cases(tier, cfg):
    g = Gen(tier, cfg)
    types = TYPES
    if g.variant:
        types = ["f64", "i32"] if cfg.san else ["f64", "f32", "i32"]
    for t in types:
        W = cfg.w(t)
        fam_scalar(g, t, W)
        fam_seq1d(g, t, W)
        fam_seq2d(g, t, W)
        fam_seqnd(g, t, W)
        fam_fseq1d(g, t, W)
        fam_fseq2d(g, t, W)
        fam_fseqnd(g, t, W)
        fam_iseq(g, t, W)
        fam_mixed(g, t, W)
        fam_special(g, t, W)
    seen, out = set(), []
    for c in g.out:
        if cfg.has_def(NOSPEC) and not any(x in c.id.split("ctx=")[-1] for x in ("ctor", "eval")):
            continue     # the macro only changes how a Tensor is constructed from an expression that contains a view
        if c.id not in seen:
            seen.add(c.id); out.append(c)
    return out


def expected_routes(tier):
    r = ["ctx." + c for c in ("vassign", "vcassign", "vadd", "vplus", "vmul", "vneg", "sum", "shape", "ctor", "cctor", "ctorx", "fadd",
                              "eval", "scalar_index")]
    return r + ["load." + x for x in ("unit.fullvec", "unit.vec+tail", "unit.subvec", "strided.fullvec", "strided.vec+tail", "strided.subvec")]


def bounds(tier):
    common = ("per-axis range sets: FULL = every 0<=f<l<=N, 1<=s<=N; FULLQ = FULL with steps >= l-f represented by s = l-f; THIN = {all, "
              "first, middle, last element, prefix, suffix, every stride 2..N-1 with one offset, step N}. Types f64,f32,i32,i64 (int64_t). ")
    if tier == "quick":
        return common + (
            "S2,A2,A5 (g++ -O2 -DNDEBUG -std=c++14). scalar indexing: all index tuples in [-n,n-1]^k on (W+1),(3,5),(2,3,4),(2,3,2,3),(2,3,2,3,2), "
            "const and non-const. seq rank 1: N in {1,2,3,W-1,W,W+1,2W,2W+1,2W+3} x FULL x {plain,last-relative,both-relative} in 8 contexts "
            "(view->view, const view->view, +=, inside +, *, unary -, sum, dimension/size); fixed destinations Tensor<T,E>: parent N=2W+3, "
            "E in {1,2,3,W-1,W,W+1,2W-1,2W,2W+1,2W+3} x {construct, +=, construct from view+tensor}. seq rank 2: (3,5),(2,W+1),(4,W+3),"
            "(3,2W+1): full product FULLQ x FULLQ (x all encoding pairs incl. seq(-1) where <= 1.4e6 points), 8 contexts; fixed destinations on "
            "(4,W+3). seq rank 3: (2,3,W+1),(2,2,2W+1): THIN x THIN x FULLQ (last axis full). fseq rank 1: f64 every (F,L,S) of FULLQ for N<=5 "
            "in 7 contexts + the last-relative and both-relative spellings (dimension/size + construct); other types N=3; THIN on N=W+1,2W+1; "
            "fseq rank 2: THIN x THIN on (3,5) f64, THIN x W-boundary family on (2,2W+1) f32/i32; fseq rank 3: generated family on (2,3,2W+1); iseq ranks 1-4 const/non-const "
            "objects; mixed argument lists: every seq/fseq/integer kind combination of rank 2 on (3,W+1) and nine of rank 3 on (2,3,W+1); "
            "flast; seq(last) on rank 1 (own identities); bare negative integers (not judged). Ranks 4-5 only in scalar indexing (thorough "
            "adds views). Shrunk w.r.t. DESIGN.md: rank-1 sizes thinned to the W-boundary set, rank-2 shapes 4 instead of M<=5 x N<=W+3, "
            "fseq families thinned, bool/complex not run.")
    return common + (
        "six ISAs + C++17 on A5 + ASan/UBSan (-O1) on A2 (the two variants run the quick box plus rank 4-5 dynamic views, f64/f32/i32 resp. f64/i32) "
        "+ A2 with -DFASTOR_DISABLE_SPECIALISED_CTR (construction contexts of the quick box). "
        "scalar indexing adds (1),(2W+3),(4,W+1),(3,2,W+1),(1,2,1,3,1) and long long indices. seq rank 1: every N <= 2W+3 x FULL x three encodings, "
        "8 contexts; fixed destinations: parent 2W+3, every E <= 2W+3 x 4 contexts (6 at the W-boundary extents). seq rank 2: one M in 1..5 for every N in 1..W+3 u {2W,2W+1}, "
        "M in {1,5} at N = W+1, (5,W+3),(5,2W+1): full product FULLQ x FULLQ, 8 contexts; fixed destinations: parent (4,W+3), E0 in {1,4} x "
        "E1 <= W+3 and E0 in {2,3} x E1 in {1,W,W+1}, 4 contexts. seq ranks 3-5: (2,3,W+1),(2,2,2W+1),(3,2,W),(2,3,2,W+1),(2,2,3,2,W+1): THIN on all axes but the last, FULLQ on "
        "the last. fseq rank 1: every (F,L,S) of FULLQ for N <= 9 (f64,i32) / N <= 5 (f32,i64) in 8 contexts + the two relative spellings (f64); fseq "
        "rank 2: full product FULLQ x FULLQ on (3,5) (5 contexts f64, construct only i32), THIN x W-boundary family on (4,2W+1); "
        "fseq ranks 3-5: generated families on (2,3,2W+1),(2,3,2,2W+1),(2,2,3,2,2W+1); iseq, mixed (ranks 2-5), flast, seq(last) on rank 1, bare "
        "negative integers (not judged). Shrunk w.r.t. DESIGN.md: rank-2 shapes thinned on M; (4,2W+1) fseq product thinned to THIN x W-boundary family; fseq rank 1 for "
        "f32/i64 limited to N <= 5; diagonal views, bool/complex element types not run; FASTOR_DISABLE_SPECIALISED_CTR on A2 only.")
