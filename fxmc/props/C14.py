"""C14 - permute, permutation and transpose move every element to its permuted position."""
import itertools
from ..configs import Config, ALL_ISAS, MAIN3, CTYPE
from ..engine import Case

ID = "C14"
LEVEL = "exploration"
HEADER = "c14.h"
TU_BUDGET = 10.0
TECHNIQUE = ("bounded-exhaustive enumeration of (entry point, element type, shape, axis permutation, source expression) and of (M,N) for "
             "transpose/trans/ctrans x ISA x C++ level builds; real library call vs positional reference on address-coded data")
LEVEL_TEXT = ("Every axis permutation of ranks 2..5 (rank 6 thinned, thorough only) is instantiated for permute<> and the legacy permutation<> "
              "on tensors and on unevaluated expressions, and every (M,N) of the stated grid for transpose/trans/ctrans, under each ISA and "
              "under C++14 and C++17 (the two language levels build different index maps). The operand holds pairwise distinct address-coded "
              "values, so the comparison out(i[p0],..,i[pk]) = A(i0,..,ik) with extents taken from the result type determines the complete "
              "element map of the kernel (the kernels are data independent copies). A coverage statement over the box, not a sample.")
RULE = ("enumeration of (entry, type, shape, permutation, source) resp. (entry, type, M, N) x configuration; per case: one forward call judged "
        "(result type = Tensor<T,shape[p[n]]...> via std::is_same recorded at run time; every element at its permuted position; canary frame "
        "around the result object; operand unchanged) and one call of the inverse permutation on the result judged bit for bit against the "
        "input; legacy permutation<>: by p or by p^-1, the same choice for extents and elements; non-trivial = expected differs from the "
        "sentinel-filled destination")
ASSUMPTIONS = [
    "permute/transposition kernels are data-independent copies, so one operand with pairwise distinct values determines the whole element map",
    "extents are pairwise distinct (prefix of 2,3,4,5,6, or W+1,..,W), so a wrong axis order cannot be hidden by equal extents",
    "ranks above 6 and extents beyond the grid are not claimed; rank 6 is thinned (every 8th permutation in lexicographic order)",
    "ctrans on real element types does not compile (unqualified conj); kept as two narrowly named cases (ctrans_real), the rest of ctrans is complex<double>",
    "scalar operands of an expression are bound by reference when they are std::complex, so A+0 / 2*A built in a helper would dangle: complex<double> "
    "uses (A+A)-A and the fseq slice as its unevaluated sources",
    "the slice source is a compile-time (fseq) view; run-time seq views carry the extents of the whole tensor in their result_type and are outside permute's domain",
]

SRC = {"tensor": 0, "add0": 1, "twice": 2, "slice": 3, "aaa": 4}
BASE = (2, 3, 4, 5, 6, 7)


def configs(tier):
    if tier == "quick":
        return [Config(isa="S2"), Config(isa="A2"), Config(isa="A5"), Config(isa="A2", std="17"), Config(isa="A5", std="17")]
    cfgs = [Config(isa=i, std=s) for i in ALL_ISAS for s in ("14", "17")]
    cfgs += [Config(isa="S2", defs=("CONTRACT_OPT=-1",)), Config(isa="A5", std="17", defs=("CONTRACT_OPT=-1",))]
    for m in ("FASTOR_TRANS_OUTER_BLOCK_SIZE", "FASTOR_TRANS_INNER_BLOCK_SIZE"):
        for b in (1, 2):
            cfgs += [Config(isa=i, defs=(f"{m}={b}",)) for i in ("A2", "A5")]
    return cfgs


def _inv(p):
    q = [0] * len(p)
    for i, v in enumerate(p):
        q[v] = i
    return tuple(q)


def _shape_w(r, W):
    """second shape per rank: first extent W+1, last extent W, pairwise distinct extents in between"""
    mid = [e for e in BASE if e not in (W, W + 1)]
    return tuple([W + 1] + mid[:r - 2] + [W])


def _idx(v):
    return "Fastor::Index<" + ",".join(str(x) for x in v) + ">"


def _perm_case(t, shape, p, entry, src, cfg):
    q = _inv(p)
    involution = q == tuple(p)
    name = "permute" if entry == 0 else ("permutation" if involution else "permutation.noninv")
    ident = f"C14/{name}[{t}|{'x'.join(map(str, shape))}|p={','.join(map(str, p))}|src={src}]"
    body = f"c14::perm<{CTYPE[t]},{_idx(shape)},{_idx(p)},{_idx(q)},{entry},{SRC[src]}>(fx);"
    r = len(shape)
    cost = {2: 0.16, 3: 0.2, 4: 0.27, 5: 0.4, 6: 0.7}[r] * (1.25 if cfg.std == "17" else 1.0) + (0.1 if src != "tensor" else 0)
    route = f"{name}.r{r}.{src}"
    return Case(ident, body, route=route, cost=cost)


def _perm_cases(tier, cfg, full):
    out = []
    contract = cfg.has_def("CONTRACT_OPT")

    def add(t, shape, p, entry, src):
        out.append(_perm_case(t, shape, p, entry, src, cfg))

    def every(seq, k):
        return [x for i, x in enumerate(seq) if i % k == 0]

    P = {r: list(itertools.permutations(range(r))) for r in range(2, 7)}
    if contract:
        # CONTRACT_OPT=-1 selects the odometer variant of the tensor overloads only
        for r in (2, 3, 4, 5):
            for p in P[r]:
                add("f64", BASE[:r], p, 0, "tensor")
                if r <= 4:
                    add("f64", BASE[:r], p, 1, "tensor")
                    add("i32", _shape_w(r, cfg.w("i32")), p, 0, "tensor")
                    add("c64", BASE[:r], p, 0, "tensor")
        return out
    if tier == "quick" or not full:
        W = cfg.w("f64")
        for r in (2, 3, 4, 5):
            for p in P[r]:
                add("f64", BASE[:r], p, 0, "tensor")
        for r in (2, 3, 4):
            for p in P[r]:
                add("f64", BASE[:r], p, 0, "add0")
                add("f64", BASE[:r], p, 0, "slice")
                add("f64", _shape_w(r, W), p, 0, "tensor")
                add("f64", BASE[:r], p, 1, "tensor")
                for t in ("f32", "i32", "c64"):
                    add(t, BASE[:r], p, 0, "tensor")
        for p in every(P[5], 6):
            add("f64", BASE[:5], p, 0, "add0")
            add("f64", BASE[:5], p, 0, "slice")
            add("f64", _shape_w(5, W), p, 0, "tensor")
        for p in every(P[5], 12):
            add("f64", BASE[:5], p, 1, "tensor")
        for r in (2, 3):
            for p in P[r]:
                add("f64", BASE[:r], p, 0, "twice")
                add("f64", BASE[:r], p, 0, "aaa")
                add("f64", BASE[:r], p, 1, "add0")
                add("f64", BASE[:r], p, 1, "slice")
                add("f32", BASE[:r], p, 1, "tensor")
                add("c64", BASE[:r], p, 0, "aaa")
                add("c64", BASE[:r], p, 0, "slice")
                add("i32", BASE[:r], p, 0, "slice")
                add("i32", BASE[:r], p, 0, "twice")
                add("f32", BASE[:r], p, 0, "add0")
                for t in ("f32", "i32", "c64"):
                    add(t, _shape_w(r, cfg.w(t)), p, 0, "tensor")
        return out
    # thorough, main ISAs: f64 carries the full product; the other types the full product on ranks 2-4 and tensors on rank 5
    for t in ("f64", "f32", "i32", "c64"):
        W = cfg.w(t)
        srcs0 = ["tensor", "add0", "twice", "slice", "aaa"] if t != "c64" else ["tensor", "slice", "aaa"]   # complex scalars are bound by reference
        srcs1 = ["tensor", "add0", "slice"] if t != "c64" else ["tensor", "slice", "aaa"]
        for r in (2, 3, 4, 5):
            for shape in (BASE[:r], _shape_w(r, W)):
                for p in P[r]:
                    if r == 5 and t != "f64":
                        if shape == BASE[:r]:
                            add(t, shape, p, 0, "tensor")
                        continue
                    for s in srcs0:
                        add(t, shape, p, 0, s)
                    for s in srcs1:
                        if r == 5 and s != "tensor" and P[r].index(p) % 4:
                            continue
                        add(t, shape, p, 1, s)
    for i, p in enumerate(P[6]):
        if i % 8 == 0:
            add("f64", BASE[:6], p, 0, "tensor")
        if i % 48 == 0:
            add("f64", BASE[:6], p, 0, "add0")
            add("f64", BASE[:6], p, 1, "tensor")
            add("i32", BASE[:6], p, 0, "slice")
    return out


TENTRY = {"transpose": 0, "trans.ctor": 1, "trans.assign": 2, "ctrans.ctor": 3, "ctrans.assign": 4, "transpose.expr": 5, "trans.expr": 6,
          "ctranspose": 7, "trans.add": 9, "trans.sub": 10, "trans.mul": 11, "trans.div": 12, "ctranspose.expr": 13, "ctrans.expr": 14}


def _tr_case(t, M, N, entry, cfg, name=None, **kw):
    W = cfg.w(t) if t != "c64" else max(1, cfg.w(t) // 2)      # complex vectors hold half as many elements
    if entry.startswith("ctrans"):
        return Case(f"C14/{name or entry.split('.')[0]}[{t}|M={M},N={N}" + (f"|form={entry.split('.')[1]}" if "." in entry else "") + "]",
                    f"c14::tr<{CTYPE[t]},{M},{N},{TENTRY[entry]}>(fx);", route=f"{entry}.loop", cost=0.1 + 0.0015 * max(M, N) + 0.06, **kw)
    kernel = "reg" if (M == N and M in (2, 3, 4, 8, 16) and t in ("f32", "f64")) else (
        "blocked" if (cfg.isa in ("A1", "A2", "A5") and W > 1 and M >= W and N >= W) else "scalar")
    nm = name or entry.split(".")[0]
    form = entry.split(".")[1] if "." in entry else None
    ident = f"C14/{nm}[{t}|M={M},N={N}" + (f"|form={form}" if form else "") + "]"
    return Case(ident, f"c14::tr<{CTYPE[t]},{M},{N},{TENTRY[entry]}>(fx);", route=f"{entry}.{kernel}.mrem{M % W if W > 1 else 0}.nrem{N % W if W > 1 else 0}"
                if kernel == "blocked" else f"{entry}.{kernel}", cost=0.1 + 0.0015 * max(M, N) + (0.06 if "." in entry else 0), **kw)


def _trans_cases(tier, cfg, full):
    out = []
    blockvar = any(cfg.has_def(m) for m in ("FASTOR_TRANS_OUTER_BLOCK_SIZE", "FASTOR_TRANS_INNER_BLOCK_SIZE"))
    for t in ("f32", "f64", "i32", "c64"):
        W = cfg.w(t)
        if tier == "quick" or not full:
            G = sorted(set(range(1, W + 3)) | {2 * W, 2 * W + 1})
        else:
            G = list(range(1, 2 * W + 2))
        thin = sorted({1, 2, 3, 4, W - 1, W, W + 1, 2 * W, 2 * W + 1} - {0})
        if t in ("i32", "c64") or blockvar:
            grid = [(M, N) for M in thin for N in thin] if not blockvar else [(M, N) for M in G for N in G if (M in thin or N in thin)]
        else:
            grid = [(M, N) for M in G for N in G]
        if t in ("f32", "f64"):
            grid += [(k, k) for k in (2, 3, 4, 8, 16)]
            grid += [(8, 16), (16, 8), (3 * W + 1, 2 * W + 3)]
        for (M, N) in sorted(set(grid)):
            out.append(_tr_case(t, M, N, "transpose", cfg))
            lazy = (M in thin and N in thin) or (M == N and M in (2, 3, 4, 8, 16))
            if lazy and not blockvar:
                out.append(_tr_case(t, M, N, "trans.ctor", cfg))
                if t == "c64":
                    out.append(_tr_case(t, M, N, "ctrans.ctor", cfg))
                small = M <= 4 and N <= 4 or (M, N) in ((W, W + 1), (2 * W + 1, W), (W + 1, 2 * W + 1))
                if small:
                    out.append(_tr_case(t, M, N, "trans.assign", cfg))
                    out.append(_tr_case(t, M, N, "transpose.expr", cfg))
                    out.append(_tr_case(t, M, N, "trans.expr", cfg))
                    for e in ("trans.add", "trans.sub", "trans.mul") + (("trans.div",) if t != "c64" else ()):
                        out.append(_tr_case(t, M, N, e, cfg))      # trans() consumed by +=, -=, *=, /=
                    if t == "c64":
                        out.append(_tr_case(t, M, N, "ctrans.assign", cfg))
                        out.append(_tr_case(t, M, N, "ctranspose", cfg))
                        out.append(_tr_case(t, M, N, "ctranspose.expr", cfg))
                        out.append(_tr_case(t, M, N, "ctrans.expr", cfg))
        if not blockvar:
            for (B, J) in sorted({(3, 2), (2, 3), (3, 4), (2, 8), (2, W + 1)}):
                if t in ("f32", "f64") or J <= 4:
                    out.append(Case(f"C14/transpose.batch[{t}|B={B},J={J}]", f"c14::trb<{CTYPE[t]},{B},{J}>(fx);", route="transpose.batch", cost=0.12))
    if not blockvar:
        # conjugate transpose of a real tensor is the transpose; the library's unqualified conj() rejects real scalars
        for t in ("f64", "i32"):
            out.append(_tr_case(t, 2, 3, "ctrans.ctor", cfg, name="ctrans_real"))
    return out


def cases(tier, cfg):
    full = tier == "thorough" and cfg.isa in MAIN3 and not cfg.defs
    blockvar = any(cfg.has_def(m) for m in ("FASTOR_TRANS_OUTER_BLOCK_SIZE", "FASTOR_TRANS_INNER_BLOCK_SIZE"))
    out = []
    if not blockvar:
        out += _perm_cases(tier, cfg, full)
    if not cfg.has_def("CONTRACT_OPT"):
        out += _trans_cases(tier, cfg, full)
    return out


def expected_routes(tier):
    r = [f"permute.r{k}.tensor" for k in (2, 3, 4, 5)] + [f"permute.r{k}.{s}" for k in (2, 3, 4) for s in ("add0", "slice")]
    r += ["permute.r3.twice", "permute.r3.aaa", "permutation.r2.tensor", "transpose.reg", "transpose.scalar",
          "trans.ctor.scalar", "ctrans.ctor.loop", "transpose.expr.scalar", "trans.expr.scalar", "trans.assign.scalar", "transpose.batch",
          "legacy.choice.indistinguishable"]
    if tier == "thorough":
        r += ["permute.r6.tensor", "permute.r5.slice"]
    return r


def bounds(tier):
    return {
        "quick": "permute<>: all 152 permutations of ranks 2-5 on f64 tensors of shape 2x3x4x5x6-prefix; ranks 2-4 additionally: sources A+0 and "
                 "fseq slice, shape (W+1,..,W), types f32,i32,c64, legacy permutation<>; rank 5 thinned (every 6th / 12th permutation) for "
                 "sources, W-shape and legacy; ranks 2-3: 2*A, (A+A)-A, legacy on expressions. transpose: all M,N in {1..W+2} u {2W,2W+1} "
                 "(f32,f64), thinned grid {1,2,3,4,W-1,W,W+1,2W,2W+1}^2 for i32,c64 and for trans/ctrans forms; register kernels 2,3,4,8,16; "
                 "batch transpose of rank 3. Configurations S2,A2,A5 at C++14, A2,A5 at C++17. (Shrunk from DESIGN.md: the full "
                 "type x source x shape product is thorough-only; budget.)",
        "thorough": "S2,A2,A5 x {C++14,C++17}: f64 full product (152 permutations x 2 shapes x {tensor,A+0,2*A,slice,(A+A)-A} for permute<>, "
                    "{tensor,A+0,slice} for permutation<>, rank-5 legacy expressions every 4th permutation); f32,i32,c64 full product on ranks 2-4 and "
                    "tensors on rank 5 (c64 without scalar-operand expressions); rank 6: every 8th of 720 permutations (f64 tensor), every "
                    "48th for A+0, legacy, i32 slice; transpose all 1<=M,N<=2W+1 (f32,f64), thinned grid for i32,c64 and the lazy forms. "
                    "S0,S4,A1 x {C++14,C++17}: the quick box. CONTRACT_OPT=-1 (S2 C++14, A5 C++17): tensor overloads, all permutations of ranks "
                    "2-5. FASTOR_TRANS_OUTER/INNER_BLOCK_SIZE in {1,2} on A2,A5: transposes with M or N on the thinned grid.",
    }[tier]
