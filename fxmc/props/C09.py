"""C09 - lazy linear-algebra operators give the same result as their eager counterparts."""
import itertools
from ..configs import Config, ALL_ISAS, MAIN3, CTYPE
from ..engine import Case

ID = "C09"
LEVEL = "exploration"
HEADER = "c09.h"
TU_BUDGET = 12.0
TECHNIQUE = ("bounded-exhaustive enumeration of statements (expression trees mixing element-wise and evaluation-requiring nodes x five assignment "
             "operators x destination-aliasing patterns) written twice, lazy and eager, and of all product-chain extent patterns; differential execution")
LEVEL_TEXT = ("Every statement of the generated family - all trees up to depth 3 over {%, inv, trans, cof, adj, solve, det, norm, trace} and the element-wise "
              "operators, each with the destination absent from or used element-wise on the right-hand side, under all five assignment operators - is "
              "compiled in its lazy and in its eager spelling and both are executed on the same well-conditioned operands; the destinations must agree "
              "element-wise within a bound computed from the data. Product chains of length 2..5 are instantiated for every extent pattern of the stated "
              "set (so every branch of the cost model's association choice is taken) and compared exactly with the left-to-right product.")
RULE = ("cases = (statement, element type, size) and (chain extent pattern, form); run-time points = three operand data sets (two for chains); evaluation = one "
        "lazy execution judged against the eager execution (eight further eager executions on perturbed operands measure the conditioning and are not counted) (chains: against the exact reference); non-trivial = the statement changes the destination")
ASSUMPTIONS = [
    "the eager functions are themselves correct (that is C01, C10, C14, C16's business); this check decides only lazy == eager",
    "which overload of the staged-assignment machinery fires depends on the tree shape only, not on operand values: three data sets per statement",
    "the destination as an operand of an evaluation-requiring node is outside the statement's scope and is not generated",
    "bound: 64*n*u*(max|D_eager| + |D_eager(i)|) + 4*sens(i): both spellings run the same kernels, possibly associated differently; sens(i) = measured change "
    "of element i of the eager result when every operand entry is moved by +-16u (four sign patterns)",
    "an element that is finite on the data and stops being finite under such a perturbation, or moves by a quarter of its value or more with a saturated "
    "response (+-64u moves it less than twice as far as +-16u: division by rounding noise), has no rounding bound and is counted "
    "(route info.ill_conditioned_elements_not_judged) but not judged; none on the present operand data",
]


class X:
    __slots__ = ("l", "e", "depth", "ev", "usesD")

    def __init__(self, l, e, depth=0, ev=False, usesD=False):
        self.l, self.e, self.depth, self.ev, self.usesD = l, e, depth, ev, usesD


A, B, Cc, Dd = X("A", "A"), X("B", "B"), X("C", "C"), X("D", "D", usesD=True)


def ev1(name, x):
    eager = {"inv": "inverse", "trans": "transpose", "cof": "cofactor", "adj": "adjoint"}[name]
    return X(f"{name}({x.l})", f"{eager}({x.e})", x.depth + 1, True, x.usesD)


def mm(x, y):
    # (the eager spelling multiplies evaluated operands, so that the expression-operand overloads of matmul() are on the lazy side only)
    return X(f"({x.l} % {y.l})", f"matmul(evaluate({x.e}),evaluate({y.e}))", max(x.depth, y.depth) + 1, True, x.usesD or y.usesD)


def sol(x, y):
    return X(f"solve({x.l},{y.l})", f"solve(evaluate({x.e}),evaluate({y.e}))", max(x.depth, y.depth) + 1, True, x.usesD or y.usesD)


def sc(name, x):   # scalar valued
    eager = {"det": "determinant", "norm": "norm", "trace": "trace"}[name]
    return X(f"{name}({x.l})", f"{eager}(evaluate({x.e}))", x.depth + 1, True, x.usesD)


def ew(op, x, y):
    return X(f"({x.l} {op} {y.l})", f"({x.e} {op} {y.e})", max(x.depth, y.depth) + 1, x.ev or y.ev, x.usesD or y.usesD)


def un(op, x):
    if op == "neg":
        return X(f"(-{x.l})", f"(-{x.e})", x.depth + 1, x.ev, x.usesD)
    if op == "abs":
        return X(f"abs({x.l})", f"abs({x.e})", x.depth + 1, x.ev, x.usesD)
    if op == "sqrtabs":
        return X(f"sqrt(abs({x.l}))", f"sqrt(abs({x.e}))", x.depth + 1, x.ev, x.usesD)
    if op == "twice":
        return X(f"(2*{x.l})", f"(2*{x.e})", x.depth + 1, x.ev, x.usesD)
    if op == "half":
        return X(f"({x.l}/2)", f"({x.e}/2)", x.depth + 1, x.ev, x.usesD)
    if op == "rsub":     # number on the left of a non-commutative operator
        return X(f"(2 - {x.l})", f"(2 - {x.e})", x.depth + 1, x.ev, x.usesD)
    if op == "rdiv":
        return X(f"(3 / {x.l})", f"(3 / {x.e})", x.depth + 1, x.ev, x.usesD)
    if op == "subs":
        return X(f"({x.l} - 2)", f"({x.e} - 2)", x.depth + 1, x.ev, x.usesD)
    if op == "radd":
        return X(f"(2 + {x.l})", f"(2 + {x.e})", x.depth + 1, x.ev, x.usesD)
    raise ValueError(op)


def statements(tier):
    """list of (X, group)"""
    out = []
    L1 = [mm(A, B), ev1("inv", A), ev1("trans", A), ev1("cof", A), ev1("adj", A), sol(A, B)]
    S1 = [sc("det", A), sc("norm", A), sc("trace", A)]
    out += [(x, "ev1") for x in L1]
    # element-wise around one evaluation-requiring term, third operand C or the destination D
    d2 = []
    for L in L1:
        for Z in (Cc, Dd):
            d2 += [ew("+", L, Z), ew("+", Z, L), ew("-", L, Z), ew("-", Z, L), ew("*", L, Z), ew("*", Z, L)]
        d2 += [un("twice", L), un("neg", L), un("abs", L), un("sqrtabs", L), un("half", L)]
        d2 += [un("rsub", L), un("rdiv", L), un("subs", L), un("radd", L), ew("*", un("rsub", L), Dd), ew("+", un("rdiv", L), Cc)]
        # the destination inside an element-wise sub-expression next to the evaluation-requiring term
        for Zw in (un("abs", Dd), ew("*", Dd, Cc), ew("*", Cc, Dd), un("twice", Dd), ew("*", Dd, Dd)):
            d2 += [ew("+", L, Zw), ew("-", Zw, L), ew("-", L, Zw)]
    for s in S1:
        for Z in (Cc, Dd):
            d2 += [ew("*", s, Z), ew("*", Z, s)]
        d2 += [ew("/", Cc, s) if s.l.startswith("det") or s.l.startswith("norm") else ew("*", s, B)]
    out += [(x, "ew_over_ev") for x in d2]
    # evaluation-requiring nodes over element-wise arguments
    e2 = [mm(ew("+", A, B), Cc), mm(A, ew("-", B, Cc)), ev1("inv", ew("+", A, B)), ev1("inv", un("twice", A)), ev1("trans", ew("-", A, B)),
          ev1("cof", ew("+", A, B)), ev1("adj", un("neg", A)), mm(un("neg", A), B), mm(un("twice", A), ew("+", B, Cc)), sol(ew("+", A, B), Cc),
          mm(ew("*", A, B), Cc), ev1("trans", un("abs", A))]
    out += [(x, "ev_over_ew") for x in e2]
    # evaluation-requiring over evaluation-requiring
    e3 = [mm(ev1("inv", A), B), mm(A, ev1("inv", B)), mm(ev1("trans", A), B), mm(A, ev1("trans", B)), ev1("trans", mm(A, B)), ev1("inv", mm(A, B)),
          mm(mm(A, B), Cc), mm(A, mm(B, Cc)), mm(ev1("cof", A), B), ev1("adj", mm(A, B)), sol(mm(A, B), Cc), sol(A, mm(B, Cc)),
          ev1("inv", ev1("trans", A)), ev1("trans", ev1("inv", A)), ew("*", sc("det", mm(A, B)), Cc), ew("*", sc("norm", ev1("inv", A)), Cc),
          ew("*", sc("trace", mm(A, B)), Cc), mm(ev1("trans", A), ev1("trans", B)), mm(ev1("inv", A), ev1("inv", B))]
    out += [(x, "ev_over_ev") for x in e3]
    # depth 3: element-wise over the two previous groups, and evaluation-requiring over (ev1 element-wise)
    d3 = []
    for L in e2 + e3:
        for Z in (Cc, Dd):
            d3 += [ew("+", L, Z), ew("-", Z, L), ew("*", L, Z)]
        d3 += [un("twice", L)]
    for L in L1:
        d3 += [mm(ew("+", L, Cc), B), ev1("trans", ew("-", L, Cc)), mm(A, ew("*", L, Cc)), ew("+", ew("+", L, Cc), Dd), ew("-", Dd, un("twice", L)),
               ew("+", L, mm(B, Cc)), ew("-", mm(B, Cc), L)]
    out += [(x, "depth3") for x in d3]
    if tier == "quick":
        keep = []
        cnt = {}
        for x, g in out:
            cnt[g] = cnt.get(g, 0) + 1
            if g in ("ev1", "ev_over_ew", "ev_over_ev") or (g == "ew_over_ev" and (cnt[g] % 2 == 1 or "D" in x.l or "(2 - " in x.l or "(3 / " in x.l)) or (g == "depth3" and cnt[g] % 4 == 1):
                keep.append((x, g))
        out = keep
    return out


FORMS = [("assign", "="), ("add", "+="), ("sub", "-="), ("mul", "*="), ("div", "/=")]


def configs(tier):
    if tier == "quick":
        return [Config(isa=i) for i in MAIN3]
    return [Config(isa=i) for i in ALL_ISAS] + [Config(isa="A5", std="17"), Config(isa="S2", std="17")]


def cases(tier, cfg):
    out = []
    base = cfg.std == "14"
    main = cfg.isa in MAIN3
    st = statements(tier)
    sizes_types = [("f64", 3), ("f32", 4)] if tier == "quick" else ([("f64", 3), ("f64", 4), ("f32", 3), ("f32", 4), ("f64", 5)] if main else [("f64", 3), ("f32", 4)])
    if not base:
        sizes_types = [("f64", 4)]
    for t, n in sizes_types:
        ct = CTYPE[t]
        for x, g in st:
            if n == 5 and g not in ("ev1", "ev_over_ev"):
                continue
            if n > 4 and ("cof(" in x.l or "adj(" in x.l):
                continue   # cofactor / adjoint exist for n <= 4 only: neither the eager nor the lazy spelling compiles beyond that
            if tier == "quick" and cfg.isa == "A2" and not (x.usesD or g == "ev1"):
                continue   # quick: A2 re-runs the aliasing statements only (S2 and A5 carry the full family)
            forms = FORMS
            if g == "depth3":
                forms = [FORMS[0], FORMS[1], FORMS[3]]
            if tier == "quick":
                if g == "depth3":
                    forms = [FORMS[0], FORMS[1]]
                elif g != "ev1" and t == "f32":
                    forms = [FORMS[0], FORMS[2], FORMS[4]]
            for fname, op in forms:
                if fname == "div" and ("trans((A - B))" in x.l or "- " in x.l and g != "ev1"):
                    continue   # a difference can be exactly zero: no division by it
                body = (f"struct K {{ using T = {ct}; using M = Fastor::Tensor<{ct},{n},{n}>; "
                        f"static void lazy(M& D, const M& A, const M& B, const M& C) {{ using namespace Fastor; D {op} {x.l}; }} "
                        f"static void eager(M& D, const M& A, const M& B, const M& C) {{ using namespace Fastor; D {op} {x.e}; }} }}; "
                        f"c09::run<K>(fx, {'true' if fname == 'div' else 'false'});")
                alias = "D_on_rhs" if x.usesD else "no_alias"
                out.append(Case(f"C09/stmt[{t}|N={n}|D {op} {x.l}]", body, route=f"{g}.{fname}.{alias}", cost=0.35 + 0.1 * x.depth + (0.6 if n == 5 else 0)))
    # rectangular operands (A, B: m x n): the statements whose destination extents differ from the operand's
    if main:
        rect_shapes = ((2, 3), (5, 3), (3, 4), (1, 4), (4, 9)) if tier == "quick" else ((2, 3), (3, 2), (5, 3), (3, 5), (3, 4), (1, 4), (4, 1), (4, 9), (9, 4), (7, 8), (2, 17))
        rect_types = ("f64", "f32") if base else ("f64",)
        # (lazy, eager, destination extents as a function of (m, n))
        rect_stmts = [("trans(A)", "transpose(A)", "nm"), ("trans(A + B)", "transpose(evaluate(A + B))", "nm"), ("trans(A) + trans(B)", "transpose(A) + transpose(B)", "nm"),
                      ("2 * trans(A)", "2 * transpose(A)", "nm"), ("A % trans(B)", "matmul(A, transpose(B))", "mm"), ("trans(A) % B", "matmul(transpose(A), B)", "nn"),
                      ("trans(A % trans(B)) ", "transpose(matmul(A, transpose(B)))", "mm"), ("trans(trans(A))", "transpose(transpose(A))", "mn")]
        for t in rect_types:
            ct = CTYPE[t]
            for (m, n) in rect_shapes:
                for l, e, dext in rect_stmts:
                    d0, d1 = {"nm": (n, m), "mm": (m, m), "nn": (n, n), "mn": (m, n)}[dext]
                    for fname, op in FORMS:
                        body = (f"struct K {{ using T = {ct}; using MA = Fastor::Tensor<{ct},{m},{n}>; using MD = Fastor::Tensor<{ct},{d0},{d1}>; "
                                f"static void lazy(MD& D, const MA& A, const MA& B) {{ using namespace Fastor; D {op} {l}; }} "
                                f"static void eager(MD& D, const MA& A, const MA& B) {{ using namespace Fastor; D {op} {e}; }} }}; "
                                f"c09::run_rect<K>(fx);")
                        out.append(Case(f"C09/rect[{t}|A={m}x{n}|D {op} {l.strip()}]", body, route=f"rect.{fname}", cost=0.35))
    # product chains
    if base:
        exts = (2, 3, 5) if tier == "quick" else (1, 2, 3, 5)
        kmax = 4 if tier == "quick" else 5
        ct = "double"
        for k in range(2, kmax + 1):
            pats = list(itertools.product(exts, repeat=k + 1))
            if tier == "quick" and cfg.isa == "A2":
                pats = pats[::3]
            if tier == "thorough" and (k == 5 or not main):
                pats = [p for i, p in enumerate(pats) if (i % (4 if main else 8)) == 0] if k >= 4 else pats
            for pat in pats:
                forms3 = ((0, "="), (1, "+="), (2, "-="))
                for form, op in forms3 if (k <= 3 or tier == "thorough" and main) else (forms3[(sum(pat) + k) % 3],):
                    ops_t = "; ".join(f"using M{i} = Fastor::Tensor<{ct},{pat[i]},{pat[i + 1]}>" for i in range(k))
                    chain = " % ".join(f"(*static_cast<const K::M{i}*>(ops[{i}]))" for i in range(k))
                    sizes = ",".join(f"sizeof(K::M{i})" for i in range(k)) + ",0" * (6 - k)
                    ext = ",".join(map(str, pat)) + ",0" * (7 - len(pat))
                    body = (f"struct K {{ {ops_t}; using MD = Fastor::Tensor<{ct},{pat[0]},{pat[-1]}>; "
                            f"static FX_NOINLINE void call(void* D, const void* const* ops) {{ using namespace Fastor; fx::escape(D); fx::escape(ops); "
                            f"(*static_cast<MD*>(D)) {op} {chain}; fx::clobber(); }} }}; "
                            f"c09::CJob<{ct}> j{{{k},{{{ext}}},{{{sizes}}},sizeof(K::MD),{form},&K::call}}; c09::run_chain<{ct}>(fx, j);")
                    out.append(Case(f"C09/chain[f64|k={k}|ext={'x'.join(map(str, pat))}|form={('assign', 'add', 'sub')[form]}]", body,
                                    route=f"chain.k{k}", cost=0.25 + 0.08 * k))
    return out


def bounds(tier):
    return {"quick": "all depth<=2 statements over {%,inv,trans,cof,adj,solve,det,norm,trace} (every second element-wise wrapper), a quarter of depth 3; 3x3 f64 and 4x4 f32; "
                     "five operators; destination absent / element-wise on the right-hand side; 8 rectangular-operand statements (trans, % with trans) x 5 shapes x five operators x f32,f64; chains k=2..4 over extents {2,3,5} (all patterns); S2,A2,A5",
            "thorough": "all generated statements depth<=3, sizes 3,4 (5 for the pure evaluation groups), f32 and f64, five operators; 8 rectangular-operand statements x 11 shapes x five operators; chains k=2..5 over extents {1,2,3,5} "
                        "(k<=3 all patterns, k>=4 every fourth); six ISAs + C++17"}[tier]
