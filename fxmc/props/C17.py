"""C17 - triangular matrix product equals the general product of triangular operands."""
from ..configs import Config, ALL_ISAS, MAIN3, CTYPE
from ..engine import Case

ID = "C17"
LEVEL = "exploration"
HEADER = "c01.h"
TU_BUDGET = 9.0
TECHNIQUE = "bounded-exhaustive enumeration of (M,K,N) x nine tag pairs x types x ISA builds, real kernel vs general reference product (in-triangle basis probing)"
LEVEL_TEXT = ("Every (M,K,N) of the stated cube, each of the nine lower/upper/general tag pairs and each element type is instantiated and run "
              "under each ISA build on operands that are zero outside the tagged triangle; the kernel's bilinear form restricted to in-triangle "
              "operands is determined completely by basis probing and compared element-wise with the general product; a sentinel-filled "
              "destination shows unwritten structurally-zero elements; canary frame.")
RULE = ("enumeration of (type, M, K, N, lhs tag, rhs tag) x ISA; per case: address-coded point, two seeded generic points, every in-triangle basis "
        "pair e_p x e_q, one non-integer point; evaluation = one tmatmul call judged element-wise against the general reference product, "
        "destination pre-filled with a sentinel (unwritten elements are visible), canary frame; non-trivial = expected differs from the sentinel fill")
ASSUMPTIONS = [
    "k-range clipping depends on (i,j), tags and unroll factors only, never on operand values, so in-triangle basis probing decides all values",
    "reference: plain triple loop over the full K range on operands zeroed outside their triangle",
    "shapes beyond the cube are not claimed",
]
TAGS = {0: "G", 1: "L", 2: "U"}


def configs(tier):
    if tier == "quick":
        return [Config(isa=i) for i in ("S2", "A2", "A5")] + [Config(isa="A1")]
    cfgs = [Config(isa=i) for i in ALL_ISAS]
    cfgs += [Config(isa="A5", std="17"), Config(isa="A2", san=True, opt="O1"), Config(isa="A5", san=True, opt="O1")]
    return cfgs


def _shapes(tier, cfg, t, base):
    W = cfg.w(t)
    S = []
    if tier == "quick":
        if t == "i64":      # 64-bit integers: their multiply has kernels of its own per ISA; a reduced box
            S = [(M, K, N) for M in (1, 2, 3) for K in (1, 2, 3) for N in (1, 2, 3)]
            S += [(2, 3, N) for N in range(1, 2 * W + 2)] + [(5, 3, W + 2), (2 * W + 5, 3, 2 * W + 3)]
            return sorted(set(S))
        if t == "f64":
            S += [(M, K, N) for M in (1, 2, 3, 4, 5) for K in (1, 2, 3, 4, 5) for N in (1, 2, 3, 4, 5)]
        else:
            S += [(M, K, N) for M in (1, 2, 3) for K in (1, 2, 3) for N in (1, 2, 3)]
        S += [(M, K, N) for M in (1, 2, 5, W + 1) for K in (1, 3, W + 1) for N in (W - 1, W, W + 1, W + 2, 2 * W + 1) if N >= 1]
        # row blocks with two and three sub-blocks (M >= 2W, M % 12 == 0) against column blocks right of them
        S += [(M, K, N) for M in (4 * W + 1, 12) for K in (3, 2 * W + 3) for N in (W + 1, 2 * W + 1, 2 * W + 3)]
        # rows left over between the two-sub-block row loop and the scalar rows (M >= 2W, M % 8 in 4..7): the four-row middle zone
        S += [(M, K, N) for M in (2 * W + 5,) for K in (3, 2 * W + 3) for N in (W + 2, 2 * W + 1, 2 * W + 3)]
        # every remainder class of N modulo the vector width (the masked loads / stores build one mask per class)
        S += [(2, 3, N) for N in range(W + 1, 2 * W)]
    else:
        main = cfg.isa in MAIN3
        if t == "f64" and main and base:
            rng = range(1, 14)
            S += [(M, K, N) for M in rng for K in (1, 2, 3, 4, 5, 8, 9, 13) for N in rng]
        elif t == "f64" and base:
            rng = range(1, 9)
            S += [(M, K, N) for M in rng for K in rng for N in rng]
        elif base and main:
            rng = range(1, 7)
            S += [(M, K, N) for M in rng for K in rng for N in rng]
        elif base:
            rng = (1, 2, 3, 5)
            S += [(M, K, N) for M in rng for K in rng for N in rng]
        else:
            rng = (1, 2, 3, 5, 8, 13)
            S += [(M, K, N) for M in rng for K in (1, 3, 8) for N in range(1, 14)]
        extra = sorted({W - 1, W, W + 1, 2 * W, 2 * W + 1, 2 * W + 2, 3 * W + 1} - {0})
        S += [(M, K, N) for M in (1, 2, 5, 8, 13) for K in (1, 3, W + 1) for N in extra]
        if base and W > 1:
            S += [(M, K, N) for M in (2 * W + 4, 2 * W + 5, 2 * W + 7, 3 * W + 5) for K in (3, W + 2, 2 * W + 3) for N in (W + 2, 2 * W + 1, 2 * W + 3)]
    return sorted(set(S))


def cases(tier, cfg):
    out = []
    base = cfg.tag in [Config(isa=i).tag for i in ALL_ISAS]
    if tier == "quick":
        types = ["f64", "f32", "i32", "i64"] if cfg.isa != "A1" else ["f64"]
    else:
        types = ["f64", "f32", "i32", "i64"] if base else ["f64", "i32"]
    for t in types:
        W = cfg.w(t)
        for (M, K, N) in _shapes(tier, cfg, t, base):
            for l in (0, 1, 2):
                for r in (0, 1, 2):
                    if l == 0 and r == 0 and not (t == "f64" and M <= 4 and N <= 4):
                        continue   # General x General is C01's kernel family; kept on the small cube only
                    masked = cfg.isa in ("A2", "A5") and W > 1 and N % W > 1
                    route = f"{TAGS[l]}{TAGS[r]}.{'masked' if masked else 'base'}.mrem{M % 4}.nrem{min(N % W, 2) if W > 1 else 0}"
                    out.append(Case(f"C17/tmatmul[{t}|M={M},K={K},N={N},lhs={TAGS[l]},rhs={TAGS[r]}]",
                                    f"c17::tmm<{CTYPE[t]},{M},{K},{N},{l},{r}>(fx);", route=route,
                                    cost=0.13 + 0.004 * N + (0.3 if cfg.san else 0)))
        # unevaluated operands (tensor x expression, expression x tensor, expression x expression): these overloads evaluate and forward the tags
        eshapes = [(3, 3, 3), (5, 4, W + 2)] if tier == "quick" else [(3, 3, 3), (5, 4, W + 2), (4, 5, 3), (W + 1, W + 1, W + 1)]
        if t != "i32" or tier == "thorough":
            for (M, K, N) in eshapes:
                for l in (0, 1, 2):
                    for r in (0, 1, 2):
                        for arg, an in ((1, "te"), (2, "et"), (3, "ee")):
                            out.append(Case(f"C17/tmatmul[{t}|M={M},K={K},N={N},lhs={TAGS[l]},rhs={TAGS[r]},arg={an}]",
                                            f"c17::tmm_e<{CTYPE[t]},{M},{K},{N},{l},{r},{arg}>(fx);", route=f"expr.{an}.{TAGS[l]}{TAGS[r]}",
                                            cost=0.15 + (0.3 if cfg.san else 0)))
    seen, uniq = set(), []
    for c in out:          # the size / shape lists overlap for the narrow vector widths: one case per identity
        if c.id not in seen:
            seen.add(c.id); uniq.append(c)
    return uniq


def bounds(tier):
    return {"quick": "f64 cube M,K,N<=5, f32/i32 cube <=3; M in {1,2,5,W+1} x K in {1,3,W+1} x N in {W-1,W,W+1,W+2,2W+1} for f64,f32,i32 (i64: cube <=3, M=2,K=3 x every N<=2W+1, two larger shapes); + the four-row middle zone M=2W+5 (K in {3,2W+3}, N in {W+2,2W+1,2W+3}); N in W+1..2W-1 for M=2,K=3; tensor/expression operand combinations on (3,3,3),(5,4,W+2) for f64,f32; nine tag pairs; S2,A1,A2,A5",
            "thorough": "f64: M,N<=13 x K in {1,2,3,4,5,8,9,13} on S2/A2/A5, cube<=8 on S0/S4/A1; f32,i32,i64: cube<=6 (main ISAs) + "
                        "N in {W-1..W+1,2W..2W+2,3W+1}; M in {2W+4,2W+5,2W+7,3W+5} x K in {3,W+2,2W+3} x N in {W+2,2W+1,2W+3} (four-row middle zone); tensor/expression operand combinations on four shapes; nine tag pairs; six ISAs + C++17 + ASan"}[tier]
