"""C01 - matrix product equals the mathematical product for every shape and scalar type."""
from ..configs import Config, ALL_ISAS, CTYPE
from ..engine import Case

ID = "C01"
LEVEL = "exploration"
HEADER = "c01.h"
TU_BUDGET = 9.0
RULE = ("bounded-exhaustive enumeration of (entry point, scalar type, M, K, N) x ISA; per case the real kernel is run on "
        "the address-coded point, two seeded generic integer points, every basis pair e_p x e_q (or half-basis when "
        "|A||B|MKN > 2e7) and one non-integer point; one evaluation = one library call judged element-wise (exact for "
        "integer-valued data, forward bound otherwise) plus canary frame; non-trivial = expected result differs from the "
        "destination's initial contents; distinct = distinct (case, run-time point, expected result) hashes")
ASSUMPTIONS = [
    "kernel control flow is data independent (straight-line bilinear code), so agreement on a basis decides all values",
    "reference product: triple loop in the element type, compiled in the same TU with -ffp-contract=off",
    "shapes beyond the enumerated grid are represented by their residues modulo the vector width and unroll factors only",
]
FORMS = {"matmul": 0, "assign": 1, "add": 2, "sub": 3, "mul": 4, "div": 5, "ctor": 6, "matmul_te": 7, "matmul_et": 8, "matmul_ee": 9, "ctor_ee": 10}


def configs(tier):
    cfgs = [Config(isa=i) for i in ALL_ISAS]
    if tier == "thorough":
        cfgs += [Config(isa=i, std="17") for i in ("S2", "A2", "A5")]
        cfgs += [Config(isa=i, opt="O3") for i in ("A2", "A5")]
        cfgs += [Config(isa=i, opt="O0") for i in ("A2", "A5")]
        cfgs += [Config(isa=i, san=True, opt="O1") for i in ("S2", "A2", "A5")]
        cfgs += [Config(isa="A5", cxx="clang++"), Config(isa="S2", cxx="clang++")]
        for i in ("S2", "A5"):
            cfgs += [Config(isa=i, defs=(f"FASTOR_MATMUL_OUTER_BLOCK_SIZE={b}",)) for b in (1, 3)]
            cfgs += [Config(isa=i, defs=(f"FASTOR_MATMUL_INNER_BLOCK_SIZE={b}",)) for b in (1, 3, 5)]
    return cfgs


def _route(t, M, K, N, W, isa):
    if t in ("c32", "c64"):
        return "non_primitive"
    if K == 1:
        return "dyadic" if not (M == 1 and N == 1) else "dyadic"
    if M == 1 and N == 1:
        return "inner"
    if M == K == N and M in (2, 3, 4, 8) and t in ("f32", "f64"):
        return f"special{M}"
    if N == 1:
        return "matvec.m%d" % min(M % 4, 3)
    masks = isa in ("A2", "A5")
    # V = choose_best_simd_t<native, N>: the widest vector type not wider than needed
    if W > 1 and N % W == 0 and N // W <= 5:
        return f"smalln.eq{N // W}W.mrem{M % 5}"
    if masks and N < 5 * W:
        return f"smalln.band{N // W}.mrem{M % 5}"
    if M * N * K > 27:
        if masks and N % W > 1:
            return f"base_masked.mrem{M % 4}.nrem{min(N % W, 3)}"
        return f"base.mrem{M % 4}.nrem{min(N % W, 2)}"
    return "tiny"


def _shapes(tier, t, W, reduced):
    S = set()
    if tier == "quick":
        b = 4 if not reduced else 3
        for M in range(1, b + 1):
            for K in range(1, b + 1):
                for N in range(1, b + 1):
                    S.add((M, K, N))
        if reduced:
            for M in (1, 5, 9):
                for K in (1, 3):
                    for N in (1, W - 1, W, W + 1, 2 * W + 1):
                        if N >= 1:
                            S.add((M, K, N))
            return sorted(S)
        # every N of the five small-N bands' boundaries; per N the M-remainder classes 1..5 and two rotating larger M
        Ns = sorted(set(range(1, 2 * W + 2)) | {k * W + d for k in (3, 4, 5) for d in (-1, 0, 1)} | {5 * W + 2})
        big = (9, 10, 11, 12, 13, 21)
        for i, N in enumerate(Ns):
            if N < 1:
                continue
            for M in (1, 2, 3, 4, 5):
                S.add((M, 3, N))
            S.add((1, 1, N)); S.add((2, 1, N)); S.add((2, 2, N))
            S.add((big[i % 6], 3, N)); S.add((big[(i + 3) % 6], 2 + (i % 2) * 3, N))
        S.add((8, 8, 8))
        # block-unroll corners: M and N multiples of 3W with N > 24 (numSIMDCols == 3), and M a multiple of 12
        n3 = 3 * W * ((24 // (3 * W)) + 1)
        for K in (2, 3):
            S.add((3 * W, K, n3)); S.add((3 * W, K, n3 + 1))
        S.add((12, 2, n3))
        # rows left between the two-sub-block row loop and the scalar rows (M >= 2W with M % 8 in 4..7): the four-row middle zone
        for (K, N) in ((3, 2 * W + 3), (2, W + 2), (3, 3 * W + 1)):
            S.add((2 * W + 5, K, N))
    else:
        b = 6 if not reduced else 4
        for M in range(1, b + 1):
            for K in range(1, b + 1):
                for N in range(1, b + 1):
                    S.add((M, K, N))
        if reduced:
            for M in (1, 2, 5, 9, 13):
                for K in (1, 3, 8):
                    for N in set(range(1, 2 * W + 2)) | {3 * W, 5 * W + 2}:
                        S.add((M, K, N))
            return sorted(S)
        Ms = list(range(1, 14)) + [16, 17, 20, 21, 24, 25]
        Ks = (1, 2, 3, 5, 8)
        Ns = range(1, 5 * W + 3)
        far = [N for N in Ns if N > 3 * W + 2 and N % W not in (W - 1, 0, 1, 2)]     # interior of the fourth and fifth vector: small M only
        for M in Ms:
            for K in Ks:
                for N in Ns:
                    if M > 5 and M not in (12, 13) and N in far:
                        continue
                    S.add((M, K, N))
        for M in (3 * W, 12, 24, 36):
            for N in (3 * W, 6 * W, 25, 27, 30, 33, 48):
                for K in (2, 7):
                    if M >= 1 and N >= 1:
                        S.add((M, K, N))
        for M in (2 * W + 4, 2 * W + 5, 2 * W + 7):
            for K in (2, 3):
                for N in (W + 2, 2 * W + 1, 2 * W + 3, 3 * W + 1, 4 * W + 3):
                    S.add((M, K, N))
        S.add((8, 8, 8)); S.add((16, 16, 16))
    return sorted(S)


def cases(tier, cfg):
    out = []
    types = ["f32", "f64", "i32", "i64", "c64"] if tier == "quick" else ["f32", "f64", "i32", "i64", "c32", "c64"]
    variant = cfg.tag not in [Config(isa=i).tag for i in ALL_ISAS]
    for t in types:
        W = cfg.w(t)
        reduced = t in ("c32", "c64") or (t == "i64" and tier == "quick")
        if tier == "quick" and cfg.isa == "S4" and t not in ("i32", "i64"):
            continue    # SSE4.2 differs from SSE2 in the integer helpers only; floats are covered by S2 (thorough runs all)
        if tier == "quick" and cfg.isa == "S0" and t in ("f64", "i64", "c64"):
            continue
        shapes = _shapes(tier, t, W, reduced)
        if variant and tier == "thorough":
            # variants (std/opt/sanitizer/macros) re-run the shapes that reach the blocked kernels, thinned on M
            # (sized so that the whole tier fits its 40-minute deadline on 16 cores: rows thinned to one per remainder class of the row
            # blocks, K to {1,3}, N to the first vector and the boundaries of every later one)
            shapes = [s for s in shapes if (s[0] in (1, 2, 4, 5, 9, 13, 24) and s[1] in (1, 3) and (s[2] <= W + 1 or s[2] % W in (W - 1, 0, 1, 2)))
                      or s[0] == s[1] == s[2] or s[0] >= 2 * W + 4]
            if cfg.san:
                shapes = [s for s in shapes if s[1] == 3 or s[0] == s[1] == s[2]]
        for (M, K, N) in shapes:
            ct = CTYPE[t]
            rt = _route(t, M, K, N, W, cfg.isa)
            cost = 0.12 + 0.004 * N + (0.25 if cfg.san else 0)
            ident = f"C01/matmul[{t}|M={M},K={K},N={N}]"
            out.append(Case(ident, f"c01::mm<{ct},{M},{K},{N},0,0>(fx);", route="mm." + rt, cost=cost))
            # the lazy forms share the kernel; instantiate them on a thinned grid (every route, not every shape)
            if tier == "quick":
                lazy = (M <= 2 and K <= 2 and N <= 3) or (M in (2, 5) and K == 3 and N in (1, W - 1, W, W + 1, 2 * W + 1, 3 * W, 5 * W + 2))
            else:
                lazy = (M in (1, 2, 5, 12) and K in (1, 3)) or (M <= 3 and K <= 3 and N <= 3)
            if lazy and not variant:
                for fn in ("ctor", "assign", "add", "sub", "mul", "div"):
                    if fn == "div" and t in ("c32", "c64"):
                        continue
                    if tier == "quick" and fn in ("sub", "mul", "ctor") and not (M <= 2 and N <= 2):
                        continue
                    out.append(Case(f"C01/{fn}[{t}|M={M},K={K},N={N}]", f"c01::mm<{ct},{M},{K},{N},0,{FORMS[fn]}>(fx);",
                                    route=f"lazy.{fn}", cost=cost))
            # unevaluated operands (tensor/expression combinations): these overloads evaluate their operands and forward
            if not variant and t in ("f32", "f64", "i32") and (M, K, N) in ((2, 3, 2), (3, 3, 3), (5, 3, W + 1), (2, 3, 2 * W + 1), (1, 3, W + 1), (5, 3, 1)):
                for fn in ("matmul_te", "matmul_et", "matmul_ee", "ctor_ee"):
                    out.append(Case(f"C01/{fn}[{t}|M={M},K={K},N={N}]", f"c01::mm<{ct},{M},{K},{N},0,{FORMS[fn]}>(fx);", route=f"exprarg.{fn}", cost=cost + 0.05))
            if N == 1 and not variant:
                out.append(Case(f"C01/matvec[{t}|M={M},K={K}]", f"c01::mm<{ct},{M},{K},1,1,0>(fx);", route="matvec", cost=cost))
                out.append(Case(f"C01/matvec_lazy[{t}|M={M},K={K}]", f"c01::mm<{ct},{M},{K},1,1,2>(fx);", route="matvec.lazy", cost=cost))
            if M == 1 and not variant:
                out.append(Case(f"C01/vecmat[{t}|K={K},N={N}]", f"c01::mm<{ct},1,{K},{N},2,0>(fx);", route="vecmat", cost=cost))
                if N <= 2 * W + 1:
                    out.append(Case(f"C01/vecmat_lazy[{t}|K={K},N={N}]", f"c01::mm<{ct},1,{K},{N},2,1>(fx);", route="vecmat.lazy", cost=cost))
    return out


def bounds(tier):
    return {"quick": "cube M,K,N<=4; M in {1..5,9..13,21} x K in {1,3} x N in {1..2W+1} u {kW-1,kW,kW+1:k=3,4,5} u {5W+2}; 8^3; M=2W+5 (four-row middle zone) x three (K,N); "
                     "tensor/expression operand combinations of matmul() and % on six shapes; types f32,f64,i32 full, i64,c64 reduced; six ISAs",
            "thorough": "cube <=6; M in {1..13,16,17,20,21,24,25} x K in {1,2,3,5,8} x N in 1..5W+2 (for M>5, M not in {12,13}: N <= 3W+2 and the boundaries of the later vectors); block corners; middle-zone shapes; "
                        "all six types; six ISAs; + C++17, O0, O3, ASan+UBSan, clang, matmul block-size macros on a thinned grid (M in {1,2,4,5,9,13,24}, K in {1,3}, "
                        "N <= W+1 and the boundaries kW-1..kW+2 of every later vector, the cube, the middle-zone shapes)"}[tier]

TECHNIQUE = "bounded-exhaustive enumeration of shapes x types x entry points x ISA builds, real kernel vs reference at every point (basis probing)"
LEVEL_TEXT = ("Every (entry point, type, M, K, N) of the stated box is instantiated and executed under each ISA build; the bilinear "
              "form computed by each kernel is determined completely by basis probing (all e_p x e_q), plus address-coded, seeded and "
              "non-integer points, each judged element-wise with a canary frame. This is a coverage statement over the box, not a sample; "
              "it says nothing about shapes outside the box beyond their residues.")
