"""C16 - reductions, predicates and scalar-valued functions agree with their definitions."""
from ..configs import Config, ALL_ISAS, MAIN3, CTYPE
from ..engine import Case

ID = "C16"
LEVEL = "exploration"
HEADER = "c16.h"
TU_BUDGET = 10.0
TECHNIQUE = ("bounded-exhaustive enumeration of (function, argument kind, element type, size) x ISA builds with run-time enumeration of sign patterns "
             "(single extreme element at every position) and of all 2^n truth patterns, against the defining fold")
LEVEL_TEXT = ("Every reduction/predicate/scalar-valued function is instantiated for every size 1..3W+1 (every residue of vector body, scalar tail and "
              "horizontal step) and every argument kind (tensor, a+b, -a, 2*a, a fixed view), under each ISA build, and executed on the complete "
              "family of sign patterns - all positive, all negative, alternating, and a single extreme element at every position with all others on "
              "the other side of zero - plus every one of the 2^n truth patterns for the predicates; results are compared with the defining fold "
              "(exactly for integer-valued data, n*u*sum|x| otherwise); determinants against exact fraction-free elimination.")
RULE = ("cases = (function, argument kind, type, size); run-time points = sign pattern x position of the extreme element / truth mask / matrix family; "
        "evaluation = one call judged against the defining fold; non-trivial = every evaluation (scalar results); distinct = distinct (case, point, expected)")
ASSUMPTIONS = [
    "reductions talk to their argument through eval(i)/eval_s(i) only, so one expression per node kind represents lazy arguments",
    "integer-valued data make every summation order exact; non-integer data are judged with the (n+3)*u*sum|x| bound",
    "tolerance predicates are driven with differences that are exactly 0 or >= 1, so their verdict never depends on rounding",
    "determinant<LU> (and the default for n>4, which dispatches to it) is judged on matrices that need no pivoting; QR and the closed forms also on row-swapped ones",
]
F = {"sum": 0, "product": 1, "min": 2, "max": 3, "norm": 4, "inner2": 5, "msum": 6, "mproduct": 7, "trace": 8, "inner1": 9}
ARG = {"tensor": 0, "add": 1, "neg": 2, "scale": 3, "tailview": 4, "te": 5, "ee": 6, "tv": 7}


def configs(tier):
    cfgs = [Config(isa=i) for i in ALL_ISAS]
    if tier == "thorough":
        cfgs += [Config(isa="A5", std="17"), Config(isa="A5", opt="O3"), Config(isa="S2", opt="O0"), Config(isa="A5", cxx="clang++"),
                 Config(isa="A2", defs=("FASTOR_USE_HADD",)), Config(isa="S2", defs=("FASTOR_USE_HADD",))]
    return cfgs


def cases(tier, cfg):
    out = []
    base = cfg.tag in [Config(isa=i).tag for i in ALL_ISAS]
    main = cfg.isa in MAIN3
    types = ["f32", "f64", "i32", "i64"]
    if tier == "quick" and not main:
        types = ["f32", "i32"] if cfg.isa == "S0" else ["f64", "i32", "i64"]
    for t in types:
        W = cfg.w(t)
        ct = CTYPE[t]
        fp = t in ("f32", "f64")
        if tier == "quick":
            sizes = sorted({1, 2, 3, W - 1, W, W + 1, 2 * W - 1, 2 * W, 2 * W + 1, 3 * W + 1} - {0})
            if not main:
                sizes = sorted({1, W + 1, 2 * W + 1, 3 * W + 1})
        else:
            sizes = list(range(1, 3 * W + 2))
            if not base:
                sizes = sorted({1, W - 1, W, W + 1, 2 * W + 1, 3 * W + 1} - {0})
        funcs = ["sum", "product", "min", "max", "inner2", "msum", "mproduct"] + (["norm"] if fp else [])
        # long inputs: the reductions unroll their vector loop four or eight times, so a block of the unrolled loop needs >= 8W elements
        long_sizes = []
        if main or (tier == "thorough" and base):
            long_sizes = [8 * W, 8 * W + 3] if tier == "quick" else [4 * W + 1, 5 * W, 8 * W, 8 * W + 1, 8 * W + 3, 9 * W + 1]
        for n in long_sizes:
            for f in funcs:
                for a in (("tensor", "add") if f in ("sum", "min", "max", "product", "norm") else ("tensor",)):
                    out.append(Case(f"C16/{f}[{t}|N={n}|arg={a}]", f"c16::red<{F[f]},{ARG[a]},Fastor::Tensor<{ct},{n}>>(fx);", route=f"{f}.{a}.long",
                                    cost=0.15))
        for n in sizes:
            for f in funcs:
                args = ["tensor"]
                if f in ("sum", "min", "max", "product", "norm"):
                    args += ["add", "neg"] if (tier == "thorough" or n in (1, W + 1, 3 * W + 1)) else []
                    if n >= 2 and (tier == "thorough" and base or n == 2 * W + 1):
                        args.append("tailview")
                    if tier == "thorough" and base:
                        args.append("scale")
                if f == "inner2" and n in (W + 1, 3 * W + 1):
                    args += ["add", "te", "ee", "tv"]      # (expression, tensor), (tensor, expression), both, (tensor, scaled expression)
                for a in args:
                    if f in ("msum", "mproduct") and a != "tensor":
                        continue
                    out.append(Case(f"C16/{f}[{t}|N={n}|arg={a}]", f"c16::red<{F[f]},{ARG[a]},Fastor::Tensor<{ct},{n}>>(fx);", route=f"{f}.{a}",
                                    cost=0.12))
        # 2-D shapes with the same code path but different rank, trace and single-argument inner on square matrices
        for (r, c) in sorted({(2, W + 1), (3, 3), (W + 1, 2)}):
            for f in ("sum", "min", "max", "product"):
                out.append(Case(f"C16/{f}[{t}|shape={r}x{c}|arg=tensor]", f"c16::red<{F[f]},0,Fastor::Tensor<{ct},{r},{c}>>(fx);", route=f"{f}.2d", cost=0.12))
        for n in sorted(set([1, 2, 3, 4, 5, W + 1] if tier == "quick" else list(range(1, 10)) + [W + 1, 2 * W + 1])):
            for a in ("tensor", "add"):
                out.append(Case(f"C16/trace[{t}|N={n}|arg={a}]", f"c16::red<{F['trace']},{ARG[a]},Fastor::Tensor<{ct},{n},{n}>>(fx,{n},{n});", route="trace", cost=0.12))
            out.append(Case(f"C16/inner1[{t}|N={n}]", f"c16::red<{F['inner1']},0,Fastor::Tensor<{ct},{n},{n}>>(fx,{n},{n});", route="inner1", cost=0.12))
        # determinant: integer-valued matrices against exact elimination
        if fp and (main or tier == "thorough") :
            dsz = [1, 2, 3, 4, 5, 6, 8] if tier == "quick" else list(range(1, 11))
            for n in dsz:
                kinds = {0: "default", 1: "LU", 2: "QR", 3: "expr", 4: "Simple"}
                for k, nm in kinds.items():
                    if tier == "quick" and k in (3, 4) and n not in (3, 5):
                        continue
                    pivot_free = "true" if (k == 1 or (k in (0, 3, 4) and n > 4)) else "false"
                    if nm == "QR":
                        # determinant<QR> is product(diag(R)); its sign is judged separately so that the two outcomes have their own identities
                        for sg, sm in (("positive", 1), ("negative", -1)):
                            out.append(Case(f"C16/determinant[{t}|N={n}|kind=QR|det={sg}]", f"c16::detcase<{ct},{n},{k}>(fx,{pivot_free},{sm});",
                                            route=f"det.QR.{sg}", cost=0.5 + 0.15 * n))
                        continue
                    out.append(Case(f"C16/determinant[{t}|N={n}|kind={nm}]", f"c16::detcase<{ct},{n},{k}>(fx,{pivot_free});", route=f"det.{nm}.{'closed' if n <= 4 else 'lu'}",
                                    cost=0.5 + 0.15 * n))
        # tolerance predicates
        if fp and base:
            for n in ([1, 2, 3, 4] if tier == "quick" else [1, 2, 3, 4, 5, 8]):
                out.append(Case(f"C16/tolpred[{t}|N={n}]", f"c16::tolpred<{ct},{n}>(fx);", route="tolpred", cost=0.8))
    # boolean predicates: all 2^n masks
    if base:
        for n in (range(1, 13) if (main or tier == "thorough") else (1, 5, 12)):
            for t in (("f32", "f64") if (tier == "thorough" or n in (1, 4, 9, 12)) else ("f32",)):
                out.append(Case(f"C16/predicates[{t}|N={n}|fn=all_of,any_of]", f"c16::pred<{n},{CTYPE[t]}>(fx,0);", route="predicates.all_any", cost=0.4))
                out.append(Case(f"C16/predicates[{t}|N={n}|fn=none_of]", f"c16::pred<{n},{CTYPE[t]}>(fx,1);", route="predicates.none_of", cost=0.4))
    seen, uniq = set(), []
    for c in out:          # the size / shape lists overlap for the narrow vector widths: one case per identity
        if c.id not in seen:
            seen.add(c.id); uniq.append(c)
    return uniq


def bounds(tier):
    return {"quick": "sizes {1,2,3,W-1..W+1,2W-1..2W+1,3W+1} + long {8W,8W+3} (tensor and a+b arguments; S2/A2/A5); functions sum,product,min,max,norm,inner,trace,.sum(),.product(); argument kinds tensor (+ a+b,-a,view on three sizes); "
                     "determinant n in {1..6,8} x {default,LU,QR}; predicates all 2^n masks n<=12; tolerance predicates n<=4; types f32,f64,i32,i64; six ISAs",
            "thorough": "every size 1..3W+1 x all argument kinds + long {4W+1,5W,8W,8W+1,8W+3,9W+1} (tensor, a+b); determinant n<=10 x five spellings; predicates n<=12 both float types; + C++17, O0, O3, clang, FASTOR_USE_HADD"}[tier]
