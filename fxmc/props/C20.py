"""C20 - wrapped/reshaped tensors are true aliases; layout conversions are exact inverses; constructors store row-major."""
import itertools
from ..configs import Config, ALL_ISAS, CTYPE
from ..engine import Case

ID = "C20"
LEVEL = "model_checking"
HEADER = "c20.h"
TU_BUDGET = 14.0
RUN_TIMEOUT_S = 900
TECHNIQUE = ("explicit-state breadth-first search (depth 3, states = buffer contents de-duplicated by hash) over histories of library statements "
             "applied through a TensorMap / reshape / flatten / squeeze alias and through the source tensor, every transition validated against a "
             "plain-array owning-tensor model; plus bounded-exhaustive enumeration of reshape targets, layout conversions and constructors")
LEVEL_TEXT = ("History part: the state is the contents of one buffer (raw buffer at every alignof(T)-multiple misalignment 0..63 inside a canary-painted "
              "guard arena, or the storage of a source tensor); the alphabet is the fixed list of library statements in harness/c20.h (scalar, tensor and "
              "expression compound assignment, assignment and compound assignment from a second map over the same storage, element writes, dynamic/fixed/mask "
              "view writes, fill/iota/zeros/ones/eye, sum) applied through the alias "
              "and through the source; ALL sequences of length <= 3 are executed with the real library (BFS with de-duplication of equal contents) and "
              "after every transition the buffer must equal the reference array bit for bit, every alias must read the same values and the canaries "
              "must be intact. Enumeration part: every case of the stated families is instantiated and compared exactly. Nothing is sampled.")
RULE = ("history: one case = (type, source shape, alias kind/shape); run-time BFS over letters x states, one evaluation = one library statement judged "
        "element-wise against the reference array (plus alias read-back, sum value, canary frame); non-trivial = expected contents differ from the "
        "contents before the statement; enumeration: one case = (type, source shape, target shape) for reshape/flatten/squeeze (map type and extents, "
        "address of every element, write-through), (type, shape) for tocolumnmajor/torowmajor + pointer/array/vector constructors, (type, shape) for "
        "nested initializer lists")
ASSUMPTIONS = [
    "letters are data-independent straight-line kernels, so integer-valued data (dyadic rationals after x/=2 on floats) with exact arithmetic decides them; "
    "x/=B is in the alphabet for integer types only",
    "depth 3 bounds the histories; longer histories are not claimed",
    "misalignment applies to raw buffers under a TensorMap only (an owning Tensor must sit at its declared alignment)",
    "tocolumnmajor/torowmajor: the family judges that the two are the row->column and column->row conversions and exact inverses, and that "
    "Tensor(ptr,ColumnMajor)(i) is the value at the column-major offset; which NAME carries which direction is judged in the separate layout_named cases",
    "mask views, index-tensor views, diag() and lazy % do not compile on a TensorMap: recorded as not judged (C06/C19 own them); the mask letter is applied through the source only",
]
EXHAUSTIVE_WITHIN_BOUNDS = True
K = {"raw": 0, "map": 1, "reshape": 2, "flatten": 3, "squeeze": 4}
TYPES = ("f64", "f32", "i32", "i64")


def configs(tier):
    if tier == "quick":
        # (the assertion-carrying build runs the constructor and layout cases: their size checks are compiled out under NDEBUG)
        return [Config(isa=i) for i in ("S2", "A2", "A5")] + [Config(isa="S2", ndebug=False)]
    return [Config(isa=i) for i in ALL_ISAS] + [Config(isa="A5", san=True, opt="O1"), Config(isa="S2", ndebug=False), Config(isa="A5", ndebug=False)]


def _idx(v):
    return "Fastor::Index<" + ",".join(str(x) for x in v) + ">"


def _x(v):
    return "x".join(str(x) for x in v)


def _prod(v):
    n = 1
    for x in v:
        n *= x
    return n


def _squeezed(s):
    return tuple(e for e in s if e != 1)


def _history(t, kind, src, alias, cfg, depth=(3, 3, 1)):
    ident = f"C20/history[{t}|src={_x(src)}|alias={kind}:{_x(alias)}]"
    body = f"c20::history<{CTYPE[t]},{_idx(src)},{_idx(alias)},{K[kind]}>(fx,{depth[0]},{depth[1]},{depth[2]});"
    cost = (5.5 if kind == "raw" else 9.0) * (2.6 if cfg.san else 1.0)
    return Case(ident, body, route=f"history.{kind}.r{len(src)}to{len(alias)}", cost=cost)


def _history_cases(tier, cfg):
    out = []
    for t in TYPES:
        W = cfg.w(t)
        if tier == "quick":
            L = [("raw", (3, 3, 3), (3, 3, 3), (3, 3, 1)), ("map", (3, 3), (3, 3), None), ("reshape", (2, 3, 4), (4, 6), None),
                 ("flatten", (3, W + 1), (3 * W + 3,), None), ("squeeze", (1, 3, 1, 4), (3, 4), None)]
        else:
            L = [("raw", (3, 3, 3), (3, 3, 3), (3, 3, 1)), ("raw", (2, 3, 4), (2, 3, 4), (3, 3, 1)), ("raw", (2 * W + 1,), (2 * W + 1,), (3, 2, 1)), ("raw", (4, 5), (4, 5), (3, 2, 2)),
                 ("raw", (2, 2, 2, 3), (2, 2, 2, 3), (3, 2, 2)),
                 ("map", (3, 3), (3, 3), None), ("map", (2, 3, 4), (2, 3, 4), None),
                 ("reshape", (2, 3, 4), (4, 6), None), ("reshape", (4, 6), (2, 3, 4), None), ("reshape", (2 * W + 2,), (2, W + 1), None),
                 ("reshape", (2, 2, 2, 2), (4, 4), None),
                 ("flatten", (3, W + 1), (3 * W + 3,), None), ("flatten", (2, 3, 4), (24,), None),
                 ("squeeze", (1, 3, 1, 4), (3, 4), None), ("squeeze", (2, 1, 5), (2, 5), None)]
            if cfg.san:
                L = [L[0], L[5], L[7], L[11], L[13]]
        for kind, src, alias, depth in L:
            out.append(_history(t, kind, src, alias, cfg, depth or (3, 3, 1)))
    for t in ("f64", "i32"):
        # declared on TensorMap but not instantiable: recorded, not judged
        out.append(Case(f"C20/map_matmul_assign[{t}]", f"c20::reject_matmul<{CTYPE[t]}>(fx);", route="reject.matmul", must_compile=False, judged=False, cost=0.6))
        out.append(Case(f"C20/map_mask_view[{t}]", f"c20::reject_mask<{CTYPE[t]}>(fx);", route="reject.mask", must_compile=False, judged=False, cost=0.4))
        for r in (1, 2):
            out.append(Case(f"C20/map_seq_view_assign_tensor[{t}|rank={r}]", f"c20::reject_view_tensor<{CTYPE[t]},{r}>(fx);", route="reject.seq_view_tensor",
                            must_compile=False, judged=False, cost=0.4))
    for t in TYPES:
        out.append(Case(f"C20/map_assign_map[{t}|same type]", f"c20::map_assign<{CTYPE[t]},2,3,1>(fx);", route="map_assign.same", cost=0.2))
        out.append(Case(f"C20/map_assign_map[{t}|other shape]", f"c20::map_assign<{CTYPE[t]},2,3,0>(fx);", route="map_assign.other", cost=0.3))
    return out


def _shapes_of_size(n, maxrank=4):
    """all ordered shapes (extents >= 1) of ranks 1..maxrank with product n"""
    res = []

    def rec(prefix, rest, r):
        if r == 1:
            res.append(tuple(prefix + [rest]))
            return
        for d in range(1, rest + 1):
            if rest % d == 0:
                rec(prefix + [d], rest // d, r - 1)
    for r in range(1, maxrank + 1):
        rec([], n, r)
    return res


def _factor_shape(n):
    f, m, p = [], n, 2
    while m > 1:
        while m % p == 0:
            f.append(p); m //= p
        p += 1
    while len(f) > 4:
        f[-2:] = [f[-2] * f[-1]]
    return tuple(f) if f else (1,)


def _alias_cases(tier, cfg):
    out = []

    def add(t, kind, src, to):
        name = kind if kind != "reshape" else "reshape"
        ident = f"C20/{name}[{t}|src={_x(src)}" + (f"|to={_x(to)}" if kind == "reshape" else "") + "]"
        out.append(Case(ident, f"c20::alias<{CTYPE[t]},{_idx(src)},{_idx(to)},{K[kind]}>(fx);", route=f"{kind}.r{len(src)}to{len(to)}", cost=0.085))
    for t in TYPES:
        for n in range(1, 25):
            targets = _shapes_of_size(n)
            srcs = [(n,), _factor_shape(n)]
            if srcs[1] == srcs[0]:
                srcs[1] = (1, n, 1)
            if tier == "quick":
                if t == "f64":
                    srcs = srcs[1:]
                elif n in (12, 24) or (t == "i32" and n in (16, 18, 20)):
                    srcs = srcs[1:]
                else:
                    srcs = []
            for s in srcs:
                for to in targets:
                    add(t, "reshape", s, to)
        # flatten / squeeze
        fl = [(3,), (2, 3), (3, 1, 4), (2, 3, 2, 2), (cfg.w(t) + 1, 2)]
        sq = [(1, 3), (3, 1), (1, 3, 1, 4), (2, 1, 5), (1, 1, 6), (2, 1, 1, 3), (1, 2, 3, 1), (2, 3), (1, cfg.w(t) + 1)]
        if tier == "thorough":
            fl += [s for n in (6, 12, 24) for s in _shapes_of_size(n) if len(s) >= 2][::3]
            sq += [s for n in (6, 12) for s in _shapes_of_size(n) if 1 in s and len(s) >= 2]
        for s in sorted(set(fl)):
            add(t, "flatten", s, (_prod(s),))
        for s in sorted(set(sq)):
            add(t, "squeeze", s, _squeezed(s))
    return out


def _layout_cases(tier, cfg):
    out = []
    for t in TYPES:
        W = cfg.w(t)
        bound = 4 if tier == "thorough" else 3
        maxrank = 4
        if tier == "quick" and t in ("f32", "i64"):
            maxrank = 2
        shapes = [s for r in range(1, maxrank + 1) for s in itertools.product(range(1, bound + 1), repeat=r)]
        shapes += [(W,), (W + 1,), (2, W), (3, W + 1), (W + 1, 3), (2, 3, W), (2, 3, W + 1), (2, 2, 3, W + 1)]
        if tier == "thorough":
            shapes += [(3, 2, W), (W, 2, 3), (2, 2, 3, W), (W + 1, 5)]
        for s in sorted(set(shapes)):
            out.append(Case(f"C20/layout[{t}|{_x(s)}]", f"c20::layout<{CTYPE[t]},0,{','.join(map(str, s))}>(fx);", route=f"layout.r{len(s)}",
                            cost=0.3 + (0.25 if cfg.san else 0)))
    for t in ("f64", "i32"):
        for s in ((2, 3), (3, 2), (3, 3), (2, 3, 4), (4, 3, 2), (2, 2, 3), (2, 3, 2, 2), (3, 1, 2)):
            out.append(Case(f"C20/layout_named[{t}|{_x(s)}]", f"c20::layout<{CTYPE[t]},1,{','.join(map(str, s))}>(fx);", route="layout_named", cost=0.15))
    return out


def _nested(shape, counter):
    if len(shape) == 1:
        vals = []
        for _ in range(shape[0]):
            counter[0] += 1
            vals.append(str(counter[0]))
        return "{" + ",".join(vals) + "}"
    return "{" + ",".join(_nested(shape[1:], counter) for _ in range(shape[0])) + "}"


def _ilist_cases(tier, cfg):
    out = []
    for t in TYPES:
        W = cfg.w(t)
        shapes = [(1,), (3,), (W + 1,), (2, 3), (3, 1), (1, 4), (2, W + 1), (2, 3, 2), (1, 2, 3), (3, 2, 1), (2, 1, 2, 3), (2, 2, 2, 2), (1, 1, 1, 2)]
        if tier == "thorough":
            shapes += [(2 * W + 1,), (4, 4), (3, W), (2, 2, W + 1), (4, 3, 2), (3, 2, 2, 2), (2, 3, 1, 2), (1, 2, 2, W + 1)]
        for s in sorted(set(shapes)):
            tt = f"Fastor::Tensor<{CTYPE[t]},{','.join(map(str, s))}>"
            lit = _nested(s, [0])
            body = f"c20::ilist<{CTYPE[t]},{','.join(map(str, s))}>(fx, [](void* p) {{ new (p) {tt}{lit}; }});"
            out.append(Case(f"C20/ctor_ilist[{t}|{_x(s)}]", body, route=f"ilist.r{len(s)}", cost=0.06))
    return out


def cases(tier, cfg):
    if not cfg.ndebug and not cfg.san:
        return _layout_cases("quick", cfg) + _ilist_cases("quick", cfg)
    if cfg.san:
        # ASan+UBSan build: the history part (reduced), layout/constructors on the quick box
        return _history_cases(tier, cfg) + _layout_cases("quick", cfg) + _ilist_cases("quick", cfg)
    return _history_cases(tier, cfg) + _alias_cases(tier, cfg) + _layout_cases(tier, cfg) + _ilist_cases(tier, cfg)


def bounds(tier):
    return {
        "quick": "history: BFS depth 3 over ~31 letters through the alias + ~21 through the source, types f64,f32,i32,i64; raw buffer 3x3x3 under TensorMap at every "
                 "misalignment 0..63 step alignof(T) (depth 3 everywhere), TensorMap(Tensor) 3x3, reshape 2x3x4->4x6, flatten 3x(W+1), squeeze "
                 "1x3x1x4. reshape: every target shape of ranks 1-4 (extents>=1) for sizes 1..24 from the prime-factor source shape (f64), sizes 12,24 (f32,i64), "
                 "12,16,18,20,24 (i32). layout + constructors: all shapes of ranks 1-4 with extents<=3 (f64,i32; f32,i64 ranks<=2) + W/W+1 shapes. nested "
                 "initializer lists ranks 1-4, 13 shapes x 4 types. S2,A2,A5 + the layout / constructor / initializer-list cases in an assertion-carrying build (S2 without NDEBUG). (Shrunk from DESIGN.md: reshape sources restricted to one or two canonical shapes "
                 "per size - the source shape enters reshape only through data() and the size check; layout bound 3 instead of 4.)",
        "thorough": "history: as quick plus raw 2x3x4 (depth 3 at every misalignment), further raw shapes (2W+1), 4x5, 2x2x2x3 (depth 2 off zero), TensorMap(Tensor) 2x3x4, "
                    "reshape 4x6->2x3x4, (2W+2)->2x(W+1), 2x2x2x2->4x4, flatten 2x3x4, squeeze 2x1x5. reshape: every target of ranks 1-4 for sizes 1..24 from two source "
                    "shapes per size ((n) and the prime-factor shape), four types. layout + constructors: all shapes of ranks 1-4 with extents<=4 + W/W+1 shapes, four "
                    "types. six ISAs + ASan/UBSan build on A5 (history reduced, layout/ctor quick box).",
    }[tier]


def finalize(run, cov):
    hist = []
    for (tag, cid), res in run.results.items():
        for nt in res.notes:
            if nt.startswith("sample history") and len(hist) < 6:
                hist.append({"config": tag, "case": cid, "history": nt})
    cov["samples"] = hist + list(cov.get("samples", []))
    r = cov.get("routes", {})
    a, b = r.get("layout.tocolumnmajor=row2col", 0), r.get("layout.tocolumnmajor=col2row", 0)
    cov["layout_orientation"] = {"tocolumnmajor_is_row_to_column": a, "tocolumnmajor_is_column_to_row": b,
                                 "indistinguishable_shapes": r.get("layout.orientation.indistinguishable", 0),
                                 "consistent_over_all_cases": not (a and b)}
