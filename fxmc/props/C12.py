"""C12 - solve(A,b) satisfies A*x = b for every size, strategy and right-hand-side shape."""
from ..configs import Config, ALL_ISAS, MAIN3, CTYPE
from ..engine import Case
from .C10 import est_cost as inv_cost, domain_summary, FAMILIES

ID = "C12"
LEVEL = "exploration"
HEADER = "c12.h"
TU_BUDGET = 30.0
RUN_TIMEOUT_S = 900
TECHNIQUE = ("bounded-exhaustive enumeration of (size, solve strategy, right-hand-side shape, argument form, element type) x ISA builds; the real solve() is run "
             "on every member of deterministic matrix families and judged per column against the textbook residual bound with measured kappa and growth")
LEVEL_TEXT = ("Every (size, SolveCompType, right-hand side as vector / as matrix with K columns, tensor / expression arguments, element type) of the stated box is "
              "instantiated and executed under each ISA build on every member of the matrix families of DESIGN.md 4.3 with an integer-valued and a fractional "
              "right-hand side. Judged per column: ||A x - b||_2 <= c*n*u*kappa_2(A)*max(1,growth)*||b||_2 (c = 8, kappa_2 and growth measured in long double); "
              "for the integer families also against the exact rational solution. Membership in the strategy's domain is decided a posteriori from the "
              "leading-block condition numbers of A or of P*A (P from the library's public pivot). forward_subs / backward_subs are judged on triangular "
              "families, with every permutation of the generating set for the permuted variant. A coverage statement over the box, not a sample.")
RULE = ("enumeration of (element type, n, strategy, rhs shape, argument form, family group) x ISA; per case every member of the group x two right-hand sides "
        "(integer-valued, fractional) is generated at run time; evaluation = one solve / substitution call judged per column by the residual bound (and the "
        "exact solution by fraction-free integer elimination for integer families, n <= 12), destination pre-filled with a sentinel, canary frame; members "
        "outside the strategy's domain are run, counted per family and not judged; non-trivial = every judged member")
ASSUMPTIONS = [
    "c = 8; u = 2^-24 / 2^-53; kappa_2, leading-block kappa_2 and LU growth measured in long double on the entries as stored in T",
    "domain decided a posteriori: leading blocks of A (unpivoted) or P*A (pivoted, P = pivot<PivType::V>(A)) with kappa_2 <= 1.1e3 (f32) / 1.1e6 (f64)",
    "SimpleInv / SimpleInvPiv solve through the explicit block-recursive inverse (n > 4), which is only conditionally stable: their domain threshold on the "
    "leading-block kappa_2 is 5e2 (see C10); members between 5e2 and the general threshold are counted with their would-pass / would-fail tally, not judged",
    "SolveCompType::QR and SolveCompType::Chol have no implementation in the pinned tree (self-recursive generic overload): recorded, not judged",
    "forward_subs / backward_subs live in Fastor::internal; they are called directly because the property names them",
]
STRATS = ["SimpleInv", "SimpleInvPiv", "BlockLU", "BlockLUPiv", "SimpleLU", "SimpleLUPiv"]
GROUPS = {"dom": 0, "cond": 1, "perm": 2, "ul": 3, "up": 4}
FORMS = {"plain": 0, "lhs_expr": 1, "rhs_expr": 2, "both_expr": 3, "compound_add": 4}


def configs(tier):
    if tier == "quick":
        return [Config(isa=i) for i in MAIN3]
    return [Config(isa=i) for i in ALL_ISAS]


def shapes(tier, n, W, t="f64"):
    """right-hand-side column counts; 0 = vector"""
    full = [0] + list(range(1, min(n, 6) + 1)) + [W, W + 1]
    if tier == "quick":
        if n <= 5:
            ks = full
        elif n <= 9:
            ks = [0, 2, W + 1]
        elif n <= 17:
            ks = [0, 3]
        else:
            ks = [0]
    else:
        if n <= 5:
            ks = full
        elif n <= 9:
            ks = [0, 1, 2, 6, W + 1]
        elif n <= 12:
            ks = [0, 2]
        elif n <= 17:
            ks = [0, 2, W + 1]
        elif n <= 33:
            ks = [0, 2] if t == "f64" else [0]
        else:
            ks = [0]
    out = []
    for k in ks:
        if k not in out:
            out.append(k)
    return out


def rhs_name(k):
    return "v" if k == 0 else f"m{k}"


def sizes(tier, cfg, strat, t):
    if tier == "quick":
        s = list(range(1, 10)) + [16, 17]
        if (strat, t) in (("SimpleInv", "f64"), ("BlockLUPiv", "f64"), ("SimpleLU", "f32")):
            s.append(33)
        return s
    s = list(range(1, 13)) + [16, 17, 32, 33]
    if strat in ("SimpleInv", "SimpleInvPiv") and cfg.isa in MAIN3 and t == "f64":
        s += [64, 65]
    return s


def groups_for(strat, t, n):
    piv = strat.endswith("Piv")
    g = ["dom"] + (["cond"] if n >= 2 else [])
    return g + (["perm"] if piv and n >= 2 else [])


def gkey(g):
    return "grp=" + g


def cases(tier, cfg):
    big, small = [], []
    for t in ("f64", "f32"):
        ct = CTYPE[t]
        W = cfg.w(t)
        for si, strat in enumerate(STRATS):
            for n in sizes(tier, cfg, strat, t):
                for k in shapes(tier, n, W, t):
                    cost = min(inv_cost(n, strat, cfg.isa) * (1.1 if k else 1.0) + 0.05, TU_BUDGET - 1.5)
                    dst = big if cost >= 5 else small
                    for gi, g in enumerate(groups_for(strat, t, n)):
                        dst.append(Case(f"C12/solve[{t}|n={n},strat={strat},rhs={rhs_name(k)},form=plain,{gkey(g)}]",
                                        f"c12::solve_case<{ct},{n},{k},{si},0,{GROUPS[g]}>(fx);",
                                        route=f"solve.{strat}.{'vec' if k == 0 else 'mat'}", cost=cost if gi == 0 else 0.25))
        # expression arguments and solve inside a compound expression
        for si, strat in ((0, "SimpleInv"), (3, "BlockLUPiv")) + (((4, "SimpleLU"), (1, "SimpleInvPiv")) if tier == "thorough" else ()):
            for n in ((2, 3, 5, 9) if tier == "quick" else ((1, 2, 3, 4, 5, 8, 9, 17) if si == 0 else (2, 3, 5, 9))):
                for k in (0, 2):
                    for fname, fi in FORMS.items():
                        if fi == 0 or (tier == "quick" and t == "f32" and fi in (1, 2)):
                            continue
                        g = "perm" if strat.endswith("Piv") and n >= 2 and not (strat == "SimpleInvPiv" and k) else "dom"
                        small.append(Case(f"C12/solve[{t}|n={n},strat={strat},rhs={rhs_name(k)},form={fname},{gkey(g)}]",
                                          f"c12::solve_case<{ct},{n},{k},{si},{fi},{GROUPS[g]}>(fx);",
                                          route=f"solve_expr.{fname}", cost=inv_cost(n, strat, cfg.isa) + 0.1))
        # triangular substitution helpers
        ssz = (list(range(1, 10)) + [16, 17]) if tier == "quick" else (list(range(1, 13)) + [16, 17, 32, 33])
        for n in ssz:
            c0 = 0.25 if n <= 4 else 0.4 if n <= 9 else 0.7 if n <= 17 else 2.5
            ks = [0, 2, W + 1] if n <= 17 else [0, 2]
            for k in dict.fromkeys(ks):
                small.append(Case(f"C12/forward_subs[{t}|n={n},rhs={rhs_name(k)}]", f"c12::solve_case<{ct},{n},{k},0,10,{GROUPS['ul']}>(fx);", route="subs.forward", cost=c0))
                small.append(Case(f"C12/forward_subs_perm[{t}|n={n},rhs={rhs_name(k)}]", f"c12::solve_case<{ct},{n},{k},0,11,{GROUPS['ul']}>(fx);", route="subs.forward_perm", cost=c0))
                small.append(Case(f"C12/backward_subs[{t}|n={n},rhs={rhs_name(k)}]", f"c12::solve_case<{ct},{n},{k},0,12,{GROUPS['up']}>(fx);", route="subs.backward", cost=c0))
        # strategy tags without an implementation: the call resolves to the generic overload, which calls itself (always_inline recursion, rejected only
        # when code is generated, hence one TU each: cost = TU_BUDGET) - recorded, not judged
        for si, strat in ((6, "QR"), (7, "Chol")):
            small.append(Case(f"C12/solve[{t}|n=3,strat={strat},rhs=v,form=plain,grp=dom]", f"c12::solve_case<{ct},3,0,{si},0,0>(fx);",
                              route="solve.unimplemented", cost=TU_BUDGET, must_compile=False))
    big.sort(key=lambda c: -c.cost)
    return big + small


def expected_routes(tier):
    r = [f"solve.{s}.{k}" for s in STRATS for k in ("vec", "mat")]
    r += [f"solve_expr.{f}" for f in FORMS if f != "plain"] + ["subs.forward", "subs.forward_perm", "subs.backward", "piv.nonidentity.judged", "ref.exact_solution_compared"]
    r += ["dom.in." + f for f in FAMILIES + ("ul.frac", "ul.int", "up.frac", "up.graded")]
    return r


def finalize(run, cov):
    domain_summary(ID, run, cov)


def bounds(tier):
    return {
        "quick": "n in 1..9,16,17 (+33: SimpleInv f64, BlockLUPiv f64, SimpleLU f32; vector rhs) x six SolveCompType x {f64,f32}; rhs: vector and 1..min(n,6), W, W+1 "
                 "columns for n<=5, {v,2,W+1} for 6..9, {v,3} for 16,17 (shrunk: compile cost); groups dom{dd,cd}, cond{spd, orth, gen families}, perm "
                 "(pivoted); two right-hand sides per member; expression forms (A+0, b+0, both, x += solve(A*1,b+0)) n in {2,3,5,9} for SimpleInv and BlockLUPiv; "
                 "forward_subs, forward_subs with every generating permutation, backward_subs n in 1..9,16,17, rhs {v,2,W+1}; S2, A2, A5",
        "thorough": "n in 1..12,16,17,32,33 (64,65: SimpleInv, SimpleInvPiv f64 vector rhs on S2/A2/A5) x six SolveCompType x {f64,f32}; rhs: all of v,1..min(n,6),W,W+1 for "
                    "n<=5, {v,1,2,6,W+1} for 6..9, {v,2} for 10..12, {v,2,W+1} for 16,17, {v,2} f64 / {v} f32 for 32,33 (shrunk from 'every shape at every size': "
                    "compile cost); expression forms n in {1..5,8,9,17} for SimpleInv, {2,3,5,9} for BlockLUPiv, SimpleLU, SimpleInvPiv; substitution helpers n in 1..12,16,17,32,33; six ISAs",
    }[tier]
