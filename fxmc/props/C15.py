"""C15 - three- and four-operand einsum networks: result (type, element order, values) independent of the pairwise
contraction order the compile-time cost model selects, with operation minimisation on and off."""
import itertools
from ..configs import Config, MAIN3, CTYPE
from ..engine import Case
from .C03 import spec_text, free_labels, _idx, _tens

ID = "C15"
LEVEL = "exploration"
HEADER = "c15.h"
TU_BUDGET = 12.0
RUN_TIMEOUT_S = 120
TECHNIQUE = ("bounded-exhaustive enumeration of index-sharing topologies of 3- and 4-operand networks x extent assignments solved so that every "
             "evaluation order of the cost model is selected x op-min on/off builds; real library call vs full reference Einstein sum")
LEVEL_TEXT = ("Every index-sharing topology of the stated box (label multigraphs on the operands, each label at most twice, with every split of the "
              "remaining rank into free labels) is instantiated with extent assignments chosen by an independent recomputation of the library's "
              "flop model so that each which_variant is the cheapest at least once (the recomputation is confirmed inside every case against the "
              "library's public constants), plus the all-equal assignment and assignments with equal extents on distinct free labels. The declared "
              "result type and every element are compared with the full Einstein sum (result type as a recorded outcome; values by per-operand "
              "basis probing, address-coded, seeded and non-integer points), in builds with operation minimisation on, off and with the fixed "
              "pairing. Coverage of the box, not a sample; label placements inside an operand are represented by two arrangements only.")
RULE = ("enumeration of (entry, element type, topology, arrangement, extent assignment) x build; per case: judged outcome for the declared result "
        "type (free labels in order of first appearance), judged agreement of the enumerator's flop model with the library's which_variant/min_cost, "
        "then address-coded point, two seeded integer points, basis probing (every basis tuple when affordable, otherwise e_i per operand against "
        "address-coded data) and one non-integer point with the forward bound gamma_(K+nops+2) sum|a||b||c|..; op-min on / off / fixed-pairing builds "
        "are compared through the common exact oracle (integer-valued points are bit-exact in all of them); evaluation = one library call judged "
        "element-wise + canary frame; non-trivial = expected result not constant")
ASSUMPTIONS = [
    "kernel control flow is data independent (multilinear), so per-operand basis probing plus the address-coded point decide the values of a case",
    "reference: odometer loop nest over all distinct labels (no intermediate tensors), exact for the integer-valued schemes whose magnitudes are "
    "bounded from the contraction length",
    "which pairing is selected depends on the extents only; the enumerator's flop model is an independent re-implementation that every case "
    "checks against triplet_flop_cost/quartet_flop_cost::which_variant and ::min_cost",
    "positions of the labels inside an operand matter only to the pairwise back ends (property C03); two arrangements per topology are enumerated",
    "no depth-first variant entry point exists in this tree (the quantifier's 'depth-first variants'): nothing to enumerate",
]
EXT_SET = (2, 3, 4, 6)
VOL_CAP, OUT_CAP = 24000, 9000


# ---------------------------------------------------------------------------------------------------------------------
# independent recomputation of the library's flop model (Fastor/meta/opmin_meta.h)
# ---------------------------------------------------------------------------------------------------------------------
def _prod(xs):
    r = 1
    for x in xs:
        r *= x
    return r


def pair_cost(i0, d0, i1, d1):
    rem = 1
    for k, lab in enumerate(i1):
        if lab not in i0:
            rem *= d1[i1.index(lab)]
    return _prod(d0) * rem


def resulting(i0, d0, i1, d1):
    cat = list(i0) + list(i1)
    dd = list(d0) + list(d1)
    keep = [k for k, x in enumerate(cat) if cat.count(x) == 1]
    return [cat[k] for k in keep], [dd[k] for k in keep]


def uniq_concat(i0, d0, i1, d1):
    seen, dims = [], []
    for x, d in zip(list(i0) + list(i1), list(d0) + list(d1)):
        if x not in seen:
            seen.append(x); dims.append(d)
    return seen, dims


def meta_argmin(vals):
    vals = list(vals)
    if len(vals) == 2:
        return 0 if vals[0] < vals[1] else 1
    m, n, rest = vals[0], vals[1], vals[2:]
    pval = min(m, n)
    if pval <= min([pval] + rest):
        return meta_argmin([m, n])
    return meta_argmin([pval] + rest) + 1


def triplet(ops):
    (i0, d0), (i1, d1), (i2, d2) = ops
    r0 = resulting(i0, d0, i1, d1); c01 = pair_cost(i0, d0, i1, d1) + pair_cost(r0[0], r0[1], i2, d2)
    r1 = resulting(i0, d0, i2, d2); c02 = pair_cost(i0, d0, i2, d2) + pair_cost(r1[0], r1[1], i1, d1)
    r2 = resulting(i1, d1, i2, d2); c12 = pair_cost(i1, d1, i2, d2) + pair_cost(r2[0], r2[1], i0, d0)
    u = uniq_concat(i0, d0, i1, d1); c012 = pair_cost(u[0], u[1], i2, d2)
    costs = [c01, c02, c12, c012]
    v = meta_argmin(costs)
    if v == 0:
        res = resulting(r0[0], r0[1], i2, d2)
    elif v == 1:
        res = resulting(i1, d1, r1[0], r1[1])
    else:
        res = resulting(i0, d0, r2[0], r2[1])
    return v, min(costs), res, costs


def quartet(ops):
    subs = [(0, 1, 2, 3), (0, 1, 3, 2), (0, 2, 3, 1), (1, 2, 3, 0)]
    costs, info = [], []
    for (a, b, c, r) in subs:
        v, mc, res, _ = triplet([ops[a], ops[b], ops[c]])
        costs.append(mc + pair_cost(res[0], res[1], ops[r][0], ops[r][1]))
        info.append((v, res))
    q = meta_argmin(costs)
    a, b, c, r = subs[q]
    v, res = info[q]
    if q == 0:
        out = resulting(res[0], res[1], ops[r][0], ops[r][1])
    else:
        out = resulting(ops[r][0], ops[r][1], res[0], res[1])
    # does the selected inner triplet itself come out in pairing order != its declared order?
    inner_declared = free_labels([ops[a][0], ops[b][0], ops[c][0]])
    # under C++14 all four branches are instantiated: does ANY sub-triplet come out in an order other than its declared one?
    any_sub = any(list(info[k][1][0]) != free_labels([ops[x][0] for x in subs[k][:3]]) for k in range(4))
    return q, min(costs), out, v, (1 if list(res[0]) != inner_declared else 0) + (2 if any_sub else 0)


def model(lists, ext):
    ops = [(list(l), [ext[x] for x in l]) for l in lists]
    if len(ops) == 3:
        v, mc, res, _ = triplet(ops)
        return v, mc, res[0], -1
    q, mc, res, v, flags = quartet(ops)
    return q, mc, res[0], v + 10 * flags


# ---------------------------------------------------------------------------------------------------------------------
# topologies: how many labels each pair of operands shares (m_pq) and how many free labels each operand carries (f_p)
# ---------------------------------------------------------------------------------------------------------------------
def topologies(nops, maxrank):
    pairs = list(itertools.combinations(range(nops), 2))
    out = []
    for ms in itertools.product(range(maxrank + 1), repeat=len(pairs)):
        deg = [0] * nops
        for (p, q), m in zip(pairs, ms):
            deg[p] += m; deg[q] += m
        if max(deg) > maxrank:
            continue
        for fs in itertools.product(*[range(maxrank - deg[p] + 1) for p in range(nops)]):
            if all(deg[p] + fs[p] >= 1 for p in range(nops)):
                out.append((dict(zip(pairs, ms)), fs))
    out.sort(key=lambda t: (sum(t[0].values()) * 2 + sum(t[1]), sorted(t[0].items()), t[1]))
    return out


def topo_class(nops, ms):
    edges = [pq for pq, m in ms.items() if m > 0]
    deg = [sum(1 for e in edges if p in e) for p in range(nops)]
    # connected components
    comp = list(range(nops))
    for (p, q) in edges:
        a, b = comp[p], comp[q]
        comp = [a if c == b else c for c in comp]
    ncomp = len(set(comp))
    multi = "m" if any(m > 1 for m in ms.values()) else ""
    if ncomp > 1:
        return f"split{ncomp}.e{len(edges)}{multi}"
    ds = sorted(deg)
    if nops == 3:
        if len(edges) == 3:
            return "cycle" + multi
        centre = deg.index(2)
        return f"chain.c{centre}{multi}"
    if len(edges) == 3:
        return ("star.c%d" % deg.index(3) if ds == [1, 1, 1, 3] else "chain") + multi
    if len(edges) == 4:
        return ("cycle" if ds == [2, 2, 2, 2] else "tadpole") + multi
    return f"dense{len(edges)}{multi}"


def arrange(nops, ms, fs, how):
    """label lists per operand, canonically numbered by first appearance.  a: shared-with-earlier, free, shared-with-later; b: reversed"""
    names = {}
    lists = []
    for p in range(nops):
        early = [("s", q, p, k) for q in range(p) for k in range(ms[(q, p)])]
        late = [("s", p, q, k) for q in range(p + 1, nops) for k in range(ms[(p, q)])]
        free = [("f", p, k) for k in range(fs[p])]
        l = early + free + late
        if how == "b":
            l = l[::-1]
        lists.append(l)
    out = []
    for l in lists:
        o = []
        for x in l:
            if x not in names:
                names[x] = len(names)
            o.append(names[x])
        out.append(tuple(o))
    return out


# ---------------------------------------------------------------------------------------------------------------------
# extent assignments: solved so that every which_variant is selected at least once where the model allows it
# ---------------------------------------------------------------------------------------------------------------------
# The search works on "roles" (the labels two given operands share / the free labels of one operand): which pairing is the
# cheapest depends on the product of the extents of each role only.  For networks without labels repeated inside one operand the
# flop model above reduces to the closed forms below; they are only a fast filter for the search - every assignment that is
# chosen is re-evaluated with the general model() (and, inside the case, against the library's own constants).
def _argmin4(a, b, c, d):
    """meta_argmin<a,b,c,d> of Fastor/meta/meta.h unrolled (ties: a==b -> 1, otherwise the earlier group wins)"""
    p = a if a < b else b
    if p <= c and p <= d:
        return 0 if a < b else 1
    pv = p if p < c else c
    if pv <= d:
        return (0 if p < c else 1) + 1
    return (0 if pv < d else 1) + 2


def _trip_closed(F0, F1, F2, M01, M02, M12):
    c01 = F0 * M01 * M02 * F1 * M12 + F0 * M02 * F1 * M12 * F2
    c02 = F0 * M01 * M02 * F2 * M12 + F0 * M01 * F2 * M12 * F1
    c12 = F1 * M01 * M12 * F2 * M02 + F1 * M01 * F2 * M02 * F0
    c012 = F0 * M01 * M02 * F1 * M12 * F2
    return _argmin4(c01, c02, c12, c012), min(c01, c02, c12, c012)


def _closed(nops, F, M):
    if nops == 3:
        return _trip_closed(F[0], F[1], F[2], M[(0, 1)], M[(0, 2)], M[(1, 2)])[0]
    m01, m02, m03, m12, m13, m23 = M[(0, 1)], M[(0, 2)], M[(0, 3)], M[(1, 2)], M[(1, 3)], M[(2, 3)]
    costs = []
    # sub-triplet (a,b,c) + remaining operand r: labels shared with r count as free labels of the sub-triplet
    for (Fa, Fb, Fc, Mab, Mac, Mbc, Fr) in ((F[0] * m03, F[1] * m13, F[2] * m23, m01, m02, m12, F[3]),
                                            (F[0] * m02, F[1] * m12, F[3] * m23, m01, m03, m13, F[2]),
                                            (F[0] * m01, F[2] * m12, F[3] * m13, m02, m03, m23, F[1]),
                                            (F[1] * m01, F[2] * m02, F[3] * m03, m12, m13, m23, F[0])):
        _, mc = _trip_closed(Fa, Fb, Fc, Mab, Mac, Mbc)
        costs.append(mc + (Fa * Fb * Fc) * Fr)
    return _argmin4(*costs)


_ROLE_OPTS = {}


def _role_options(count):
    """product -> extent tuple for a role of `count` labels (first = most distinct extents)"""
    if count not in _ROLE_OPTS:
        opts = {}
        for tup in sorted(itertools.combinations_with_replacement(EXT_SET, count), key=lambda t: (-len(set(t)), t)):
            opts.setdefault(_prod(tup), tup)
        _ROLE_OPTS[count] = sorted(opts.items())
    return _ROLE_OPTS[count]


_SOLVE = {}


def solve_roles(nops, ms, fs):
    """name -> {role: extent tuple}; roles are ('f', p) and ('s', p, q)"""
    key = (nops, tuple(sorted(ms.items())), tuple(fs))
    if key in _SOLVE:
        return _SOLVE[key]
    roles = [("f", p) for p in range(nops) if fs[p]] + [("s", p, q) for (p, q), m in sorted(ms.items()) if m]
    counts = [fs[r[1]] if r[0] == "f" else ms[(r[1], r[2])] for r in roles]
    nfree = sum(fs)

    def evaluate(tuples):
        F = [1] * nops
        M = {pq: 1 for pq in ms}
        vol = out = 1
        for r, tup in zip(roles, tuples):
            pr = _prod(tup); vol *= pr
            if r[0] == "f":
                F[r[1]] = pr; out *= pr
            else:
                M[(r[1], r[2])] = pr
        if vol > VOL_CAP or out > OUT_CAP:
            return None
        return _closed(nops, F, M), vol

    found, found_fe = {}, {}
    # general search: one realisation per role product (strided down to ~1500 candidates for the widest topologies)
    ncomb = _prod(len(_role_options(c)) for c in counts)
    stride = max(1, ncomb // 1500)
    if stride > 1 and stride % 2 == 0:
        stride += 1
    for ci, combo in enumerate(itertools.product(*[_role_options(c) for c in counts])):
        if ci % stride:
            continue
        tuples = [t for _, t in combo]
        ev = evaluate(tuples)
        if ev is None:
            continue
        v, vol = ev
        fe = [e for r, t in zip(roles, tuples) if r[0] == "f" for e in t]
        score = (-len(set(fe)), vol)
        if v not in found or score < found[v][0]:
            found[v] = (score, tuples)
    # all free extents equal (the type of a reordered result is then the declared type; only the values can show the order)
    if nfree >= 2:
        sroles = [i for i, r in enumerate(roles) if r[0] == "s"]
        for e in EXT_SET:
            for combo in itertools.product(*[_role_options(counts[i]) for i in sroles]):
                tuples = [(e,) * c for c in counts]
                for i, (_, t) in zip(sroles, combo):
                    tuples[i] = t
                ev = evaluate(tuples)
                if ev is None:
                    continue
                v, vol = ev
                ce = [x for i in sroles for x in tuples[i]]
                score = (-len(set(ce)), 0 if e == 3 else 1, vol)
                if v not in found_fe or score < found_fe[v][0]:
                    found_fe[v] = (score, tuples)
    res = {}
    for e in (3, 2):
        tuples = [(e,) * c for c in counts]
        if evaluate(tuples) is not None:
            res["eq"] = dict(zip(roles, tuples)); break
    for v, (_, tuples) in sorted(found.items()):
        res[f"v{v}"] = dict(zip(roles, tuples))
    for v, (_, tuples) in sorted(found_fe.items()):
        res[f"fe{v}"] = dict(zip(roles, tuples))
    _SOLVE[key] = res
    return res


def arrange_with_ext(nops, ms, fs, how, role_ext):
    """label lists (canonical numbering) + extent per label for one arrangement"""
    names, ext, lists = {}, {}, []
    for p in range(nops):
        early = [("s", q, p, k) for q in range(p) for k in range(ms[(q, p)])]
        late = [("s", p, q, k) for q in range(p + 1, nops) for k in range(ms[(p, q)])]
        free = [("f", p, k) for k in range(fs[p])]
        l = early + free + late
        if how == "b":
            l = l[::-1]
        o = []
        for x in l:
            if x not in names:
                names[x] = len(names)
                ext[names[x]] = role_ext[x[:-1]][x[-1]]
            o.append(names[x])
        lists.append(tuple(o))
    return lists, ext


# ---------------------------------------------------------------------------------------------------------------------
# cases
# ---------------------------------------------------------------------------------------------------------------------
NOOPMIN = "FASTOR_DONT_PERFORM_OP_MIN"
# <Fastor/Fastor.h> does not compile at all with FASTOR_DONT_PERFORM_OP_MIN (abstract_contraction.h names einsum_helper, which
# opmin_meta.h defines only with op-min on).  That defect is recorded once, by the single case of the C15_NO_SHIM build; every other
# op-min-off build pre-declares the missing template (harness/c15.h) so that the op-min-off kernels can be explored at all.
NOSHIM = "C15_NO_SHIM"


def configs(tier):
    if tier == "quick":
        return [Config(isa="S2"), Config(isa="A5"), Config(isa="S2", defs=(NOOPMIN,)), Config(isa="S2", defs=(NOOPMIN, NOSHIM))]
    cfgs = [Config(isa=i) for i in MAIN3]
    cfgs += [Config(isa=i, defs=(NOOPMIN,)) for i in MAIN3]
    cfgs += [Config(isa="A2", defs=("FASTOR_KEEP_DP_FIXED",)), Config(isa="A5", std="17")]
    cfgs += [Config(isa="S2", defs=(NOOPMIN, NOSHIM)), Config(isa="A5", std="17", defs=(NOOPMIN, NOSHIM))]
    return cfgs


def prelude(tier, cfg):
    return "using namespace Fastor;"


def mode_of(cfg):
    if cfg.has_def("FASTOR_DONT_PERFORM_OP_MIN"):
        return "noopmin"
    if cfg.has_def("FASTOR_KEEP_DP_FIXED"):
        return "dpfixed"
    return "opmin"


def net_case(tier, cfg, t, entry, lists, ext, info, cls, tag):
    ct = CTYPE[t]
    n = len(lists)
    exts = [[ext[x] for x in l] for l in lists]
    free = free_labels(lists)
    v, mc, order, iv = info
    inner_reordered = iv >= 0 and (iv // 10) % 2 == 1
    any_sub_reordered = iv >= 0 and (iv // 10) >= 2
    iv = iv % 10 if iv >= 0 else iv
    mode = mode_of(cfg)
    reordered = list(order) != list(free)
    stmp = ".scalar_tmp" if scalar_intermediate(lists) else ""
    if mode == "opmin":
        route = f"net{n}.{cls}.v{v}" + (f".t{iv}" + (".inner_reordered" if inner_reordered else "") if n == 4 else "") + \
            (".reordered" if reordered else ".inorder") + stmp
        pred = [v, mc] + ([iv] if n == 4 else [])
    else:
        route = f"net{n}.{cls}.{mode}" + (stmp if mode == "dpfixed" else "")
        # FASTOR_KEEP_DP_FIXED: the cost model is still evaluated (and checked), only the dispatch ignores it
        pred = ([v, mc] + ([iv] if n == 4 else [])) if mode == "dpfixed" else []
    names = "IJKL"[:n]; tn = "ABCD"[:n]
    ident = f"C15/{entry}{n}[{t}|" + ";".join(f"{names[k]}={','.join(map(str, lists[k]))}" for k in range(n)) + "|" + \
        ";".join(f"{tn[k]}={','.join(map(str, exts[k]))}" for k in range(n)) + \
        "|net=" + (("reordered" if reordered else ("subreordered" if any_sub_reordered else "inorder")) if mode == "opmin" else mode) + "]"
    E = 0 if entry == "einsum" else 1
    cap = 3.0e5 if tier == "quick" else 1.5e6
    body = spec_text(lists, exts, free, len(free), cap, pred, route) + \
        f" c15::net{n}<{ct},{E}," + ",".join(_idx("Index", l) for l in lists) + "," + ",".join(_tens(ct, e) for e in exts) + \
        f",{_tens(ct, [ext[x] for x in free])}>(fx,s);"
    rank = sum(len(l) for l in lists)
    cost = (0.35 if n == 3 else 0.7) + 0.04 * rank
    if mode == "noopmin":
        cost *= 0.6
    elif stmp and cfg.std == "14":
        cost = 3.0
    return Case(ident, body, cost=cost, meta={"route": route, "variant": v, "reordered": reordered, "cls": cls, "tag": tag, "order": order,
                                            "any_sub_reordered": any_sub_reordered})


def scalar_intermediate(lists):
    """some proper sub-network (2 .. nops-1 operands) contracts to a rank-0 tensor"""
    n = len(lists)
    for k in range(2, n):
        for sub in itertools.combinations(range(n), k):
            if not free_labels([lists[p] for p in sub]):
                return True
    return False


def _select(tier, cfg, nops, connected, how, sol, lists):
    """which of the solved assignments (eq, v<k>, fe<k>) are instantiated for this build"""
    mode = mode_of(cfg)
    free = free_labels(lists)
    names = list(sol.keys())
    reo = {n: list(sol[n][3]) != free for n in names}
    vs = [n for n in names if n.startswith("v")]
    fes = [n for n in names if n.startswith("fe")]
    eq = [n for n in names if n == "eq"]
    core = eq + vs + [n for n in fes if reo[n]]
    light = eq + [n for n in vs if reo[n]] + [n for n in vs if not reo[n]][:1] + [n for n in fes if reo[n]][:1]
    mini = eq + ([n for n in vs if reo[n]] or vs)[:1]
    if tier == "quick":
        if mode == "noopmin":
            return (eq + vs[:1]) if (connected or nops == 3) else eq
        if cfg.isa == "S2":
            if connected:
                return core
            return light if nops == 3 else mini
        if connected:
            return vs
        return mini[1:] if nops == 3 else []
    # thorough
    if how == "b":
        return vs if (connected and mode == "opmin") else eq
    if mode == "noopmin":
        return eq + vs[:1] + fes[:1]
    if mode == "dpfixed":
        return (eq + vs + fes[:1]) if connected else (eq + vs[:1])
    if cfg.std == "17":
        return vs if connected else mini
    return names if connected else core


def cases(tier, cfg):
    out, seen, late = [], set(), []
    mode = mode_of(cfg)
    if cfg.has_def(NOSHIM):
        lists = [(0, 1), (1, 2), (2, 3)]
        ext = {0: 2, 1: 3, 2: 4, 3: 3}
        c = net_case(tier, cfg, "f64", "einsum", lists, ext, (0, 0, [0, 3], -1), "chain.c1", "hdr")
        c.id = "C15/header_compiles[f64|FASTOR_DONT_PERFORM_OP_MIN]"
        return [c]

    def add(c, lists):
        if c.id in seen:
            return
        seen.add(c.id)
        # networks with a rank-0 intermediate are known not to compile with op-min on: keep them together at the end so the
        # compile-failure attribution re-builds few translation units
        if mode != "noopmin" and scalar_intermediate(lists):
            late.append(c)
        else:
            out.append(c)

    for nops, maxrank in ((3, 3), (4, 2)):
        for ti, (ms, fs) in enumerate(topologies(nops, maxrank)):
            cls = topo_class(nops, ms)
            connected = not cls.startswith("split")
            arrs = ["a"]
            if tier == "thorough" and cfg.isa == "A2" and cfg.std == "14" and mode != "dpfixed":
                arrs.append("b")
            roles_sol = solve_roles(nops, ms, fs)
            for how in arrs:
                sol = {}
                lists = None
                for nm, role_ext in roles_sol.items():
                    lists, ext = arrange_with_ext(nops, ms, fs, how, role_ext)
                    v, mc, order, iv = model(lists, ext)
                    sol[nm] = (ext, v, mc, order, iv)
                names = _select(tier, cfg, nops, connected, how, sol, lists)
                stmp = mode != "noopmin" and scalar_intermediate(lists)
                if stmp and cfg.std == "14":
                    # C++14: every pairing branch is instantiated (plain `if`), and a rank-0 intermediate does not compile, whatever
                    # the extents: one assignment per topology records it (each rejected case costs ~3 s of compile-failure
                    # attribution, so the 4-operand ones are kept on one build per tier)
                    names = names[:1]
                    rank = sum(len(l) for l in lists)
                    if how == "b" or (nops == 4 and (rank > 5 if tier == "quick" else cfg.isa != "S2")) or (tier == "quick" and cfg.isa != "S2"):
                        names = []
                for k, name in enumerate(names):
                    ext, v, mc, order, iv = sol[name]
                    info = (v, mc, order, iv)
                    add(net_case(tier, cfg, "f64", "einsum", lists, ext, info, cls, name), lists)
                    rot = how == "a" and cfg.std == "14" and mode == "opmin" and not stmp and (tier == "thorough" or (cfg.isa == "S2" and connected))
                    if rot and k == (ti % len(names)):
                        add(net_case(tier, cfg, "f32", "einsum", lists, ext, info, cls, name), lists)
                    if rot and k == ((ti + 1) % len(names)):
                        add(net_case(tier, cfg, "i32", "einsum", lists, ext, info, cls, name), lists)
                    if rot and tier == "thorough" and cfg.isa == "A2" and k == ((ti + 2) % len(names)):
                        add(net_case(tier, cfg, "i64", "einsum", lists, ext, info, cls, name), lists)
                    if name == "eq" and how == "a" and mode != "noopmin" and connected and (tier == "thorough" or (nops == 3 and cfg.isa == "S2")):
                        add(net_case(tier, cfg, "f64", "contraction", lists, ext, info, cls, name), lists)
    return out + late


def bounds(tier):
    common = ("topologies = every (m_pq, f_p): number of labels shared by each operand pair and number of free labels per operand - 257 for 3 operands "
              "of rank 1..3 (104 connected: chains with each centre, cycles, with/without multi-edges and free labels; 153 disconnected) and 366 for 4 "
              "operands of rank 1..2 (75 connected: chains, cycles; 291 disconnected); labels repeated inside one operand (traces) are not enumerated "
              "here (C03 covers them pairwise); arrangement a = [shared with earlier operands, free, shared with later operands] (b = reversed, "
              "thorough on A2); extents from {2,3,4,6} with loop volume <= 24000 and result <= 9000 elements: eq = all 3 (2 if too large), v<k> = "
              "which_variant k cheapest with as many distinct free extents as possible, fe<k> = variant k cheapest with all free extents equal; the "
              "search is over the extent products of the label roles (complete up to ~1500 role-product combinations per topology, strided beyond) "
              "with closed forms of the flop model, every chosen assignment re-evaluated with the general re-implementation and checked in the case "
              "against triplet/quartet_flop_cost::which_variant and ::min_cost (quartets: also the inner triplet's variant); a (class, variant) the "
              "search never selects is listed under route_gaps (e.g. pairing two operands that share nothing is never strictly cheapest: ties go to "
              "the earlier pairing); networks with a rank-0 intermediate (known compile rejects under C++14, ~3 s of attribution each) are "
              "instantiated once per topology: all 3-operand ones, 4-operand ones of total rank <=5 (quick) / all on S2 (thorough); 4 operands of "
              "rank 3 (DESIGN: thorough chains/stars) are not enumerated: 0.8-1 s per instantiation does not fit the budget; the C15_NO_SHIM builds "
              "hold one case each that records that <Fastor/Fastor.h> itself does not compile with FASTOR_DONT_PERFORM_OP_MIN (all other op-min-off "
              "builds pre-declare the missing einsum_helper template in harness/c15.h)")
    if tier == "quick":
        return ("S2 op-min on: connected topologies eq + every v<k> + fe<k> where a reordered result is predicted; disconnected 3-operand: eq + the "
                "reordered v<k> + one in-order v<k> + one fe<k>; disconnected 4-operand: eq + one (reordered if any) v<k>; f32/i32 on one rotating "
                "assignment per connected topology; contraction<> on connected 3-operand eq. A5 op-min on: every v<k> of the connected topologies + one "
                "v<k> of the disconnected 3-operand ones. S2 + FASTOR_DONT_PERFORM_OP_MIN: eq + one v<k> (4-operand disconnected: eq). " + common)
    return ("S2, A2, A5 op-min on: every assignment (eq, v<k>, fe<k>) of the connected topologies, eq + v<k> + reordered fe<k> of the disconnected ones, "
            "f32/i32 (i64 on A2) on rotating assignments, contraction<> on connected eq; A2 additionally arrangement b (v<k>); S2, A2, A5 with "
            "FASTOR_DONT_PERFORM_OP_MIN: eq + one v<k> + one fe<k>; A2 with FASTOR_KEEP_DP_FIXED: eq + v<k> (+ one fe<k>) connected, eq + one v<k> "
            "disconnected; A5 C++17 (only the selected pairing is instantiated): v<k> connected, eq + one v<k> disconnected. " + common)


def expected_routes(tier):
    r = set()
    for nops, maxrank in ((3, 3), (4, 2)):
        for (ms, fs) in topologies(nops, maxrank):
            cls = topo_class(nops, ms)
            for v in range(4):
                r.add(f"variant.net{nops}.{cls}.v{v}")
    return sorted(r)


def _outcome(r):
    if r.status == "pass":
        return "pass"
    if r.status == "compile_reject":
        d = r.detail
        if "match_indices_from" in d or "size_t [0]" in d or "before deduction of" in d:
            return "reject.rank0_intermediate"
        if "throw-expression" in d or "dimension mismatch" in d or "no matching function for call to ‘inner(" in d:
            # an intermediate that came out in pairing order is used with the index list / tensor type of the declared order
            return "reject.dimension_mismatch"
        if "einsum_helper" in d:
            return "reject.header"
        return "reject.other"
    if r.status == "fail":
        first = r.records[0] if r.records else ""
        if "scheme=type" in first:
            return "wrong_type"
        if "scheme=model" in first:
            return "model_mismatch"
        if first.startswith("S ") or first.startswith("H "):
            return "signal"
        return "wrong_values"
    return r.status


def finalize(run, cov):
    """cells = (operands, topology class, which_variant[, inner triplet variant], predicted order, rank-0 intermediate) x build mode with the
    outcome histogram of their cases; failing_cells = the cells with any outcome other than pass"""
    cells = {}
    for (tag, cid), r in run.results.items():
        m = r.case.meta
        if "cls" not in m:
            continue
        mode = mode_of(r.cfg)
        key = m["route"] + (".some_subtriplet_reordered" if m.get("any_sub_reordered") and mode == "opmin" else "") + \
            ("|c++17" if r.cfg.std == "17" else "")
        c = cells.setdefault(key, {})
        o = _outcome(r)
        c[o] = c.get(o, 0) + 1
        if r.status != "not_run" and mode == "opmin":
            n = m["route"].split(".")[0]
            k2 = f"variant.{n}.{m['cls']}.v{m['variant']}"
            cov["routes"][k2] = cov["routes"].get(k2, 0) + 1
    cov["cells"] = dict(sorted(cells.items()))
    cov["failing_cells"] = {k: c for k, c in sorted(cells.items()) if any(o != "pass" for o in c)}
    exp = expected_routes(run.tier)
    cov["route_gaps"] = [x for x in exp if x not in cov["routes"]]
    cov["depth_first_variants"] = "no such entry point exists in this tree - nothing to enumerate"
