"""C08 - every SIMD vector type behaves as independent scalar lanes."""
from ..configs import Config, ALL_ISAS, CTYPE
from ..engine import Case

ID = "C08"
LEVEL = "exploration"
HEADER = "c08.h"
TU_BUDGET = 12.0
RUN_TIMEOUT_S = 2400
TECHNIQUE = ("exhaustive enumeration of lane values per SIMDVector<T,ABI> specialisation and operation: full 2^32 bit-pattern sweeps for unary "
             "32-bit operations (thorough), boundary-alphabet cross products for binary/ternary operations, all 2^Size masks, all pointer "
             "misalignments, against lane-wise scalar C++")
LEVEL_TEXT = ("Every SIMDVector<T,ABI> type that exists under each ISA build (scalar, sse, avx, avx512 and the generic array fallback) is driven "
              "through every member/free operation: unary operations on 32-bit lanes over all 2^32 bit patterns (thorough; a declared 2^24 "
              "sub-lattice in quick), binary operations over the full cross product of the boundary alphabet, ternary over the cube of a reduced "
              "alphabet, all 2^Size masks with guard pages behind the last enabled lane, every pointer misalignment 0..63; each lane of each "
              "result is compared with the scalar operation on that lane, horizontals with the fold.")
RULE = ("cases = (vector type, operation group); run-time points = alphabet indices / masks / misalignments / swept bit patterns; evaluation = one "
        "vector operation judged lane-wise against scalar C++ (a 2^32 sweep counts one evaluation per pattern); non-trivial = expected lanes not all "
        "equal; distinct = distinct (case, point, expected) hashes")
ASSUMPTIONS = [
    "lane values outside the alphabets are covered only for unary 32-bit operations (full sweep) - binary operations are straight-line intrinsic wrappers",
    "fmadd/fmsub/fnmadd may round once (fused) or twice: both scalar realisations are accepted",
    "rcp/rsqrt judged against the documented relative error (1.5*2^-12 SSE/AVX, 2^-14 AVX-512; exact division allowed) on finite non-zero inputs in [1e-30,1e30]",
    "disabled lanes of a masked LOAD are not judged (the statement constrains memory accesses, not the register contents of disabled lanes)",
    "signed integer overflow, integer division by zero and min/-1 have no scalar C++ result: such lanes are not judged",
    "SIMDVector has no comparison operators, cast specialisations or documented shift semantics in this tree: nothing to enumerate for them",
    "complex vector types: integer-valued lanes (exact +,-,*,fmadd, real/imag/norm/sum/dot/reverse), division within 16u of the exact quotient, all 2^Size masks",
]

ABIS = ["scalar", "sse", "avx", "avx512"]
# native specialisations available per ISA tag (by element type); the next ABI up is the generic array fallback
HAVE = {
    "S0": {"f32": [], "f64": [], "i32": [], "i64": []},
    "S2": {t: ["sse"] for t in ("f32", "f64", "i32", "i64")},
    "S4": {t: ["sse"] for t in ("f32", "f64", "i32", "i64")},
    "A1": {t: ["sse", "avx"] for t in ("f32", "f64", "i32", "i64")},
    "A2": {t: ["sse", "avx"] for t in ("f32", "f64", "i32", "i64")},
    "A5": {t: ["sse", "avx", "avx512"] for t in ("f32", "f64", "i32", "i64")},
}
NEXT = {"S0": "sse", "S2": "avx", "S4": "avx", "A1": "avx512", "A2": "avx512", "A5": None}


def configs(tier):
    cfgs = [Config(isa=i) for i in ALL_ISAS]
    if tier == "thorough":
        cfgs += [Config(isa="A5", opt="O0"), Config(isa="S2", opt="O0"), Config(isa="A5", cxx="clang++"), Config(isa="S2", opt="O3"), Config(isa="A2", opt="O3")]
    return cfgs


def _vec(t, abi):
    return f"Fastor::SIMDVector<{CTYPE[t]},Fastor::simd_abi::{abi}>"


def cases(tier, cfg):
    out = []
    base = cfg.tag in [Config(isa=i).tag for i in ALL_ISAS]
    for t in ("f32", "f64", "i32", "i64"):
        abis = ["scalar"] + HAVE[cfg.isa][t]
        if NEXT[cfg.isa]:
            abis.append(NEXT[cfg.isa])      # generic T[Size] implementation of the next wider ABI
        for abi in abis:
            native = abi == "scalar" or abi in HAVE[cfg.isa][t]
            kind = "native" if native else "generic"
            V = _vec(t, abi)
            lanes = {"scalar": 1, "sse": 16, "avx": 32, "avx512": 64}[abi] // ({"f32": 4, "f64": 8, "i32": 4, "i64": 8}[t]) if abi != "scalar" else 1
            ident = f"{t}|abi={abi}"
            fp = t in ("f32", "f64")
            groups = ["loadstore", "arith", "unary", "fma", "minmax_rev", "horizontal"]
            if lanes > 1:
                groups.append("mask_member")
                if abi in ("sse", "avx"):
                    groups.append("mask_free")
            if not base:
                groups = [g for g in groups if g in ("arith", "unary", "horizontal", "mask_member", "fma")]
            for g in groups:
                out.append(Case(f"C08/{g}[{ident}]", f"c08::g_{g}<{V}>(fx);", route=f"{kind}.{g}", cost=2.0 if g in ("arith", "loadstore") else 1.0))
            if fp:
                bound = "1.0/16384.0*1.0001" if abi == "avx512" else "1.5/4096.0"
                out.append(Case(f"C08/unary_fp[{ident}]", f"c08::g_unary_fp<{V}>(fx, {bound});", route=f"{kind}.unary_fp", cost=1.0))
            # sweeps over 32-bit lanes: neg, abs, (sqrt, rcp, rsqrt), x+x, x*x
            if t in ("f32", "i32") and base:
                opsw = [0, 1, 5, 6] + ([2, 3, 4] if fp else [])
                names = {0: "neg", 1: "abs", 2: "sqrt", 3: "rcp", 4: "rsqrt", 5: "add_self", 6: "mul_self"}
                # the full 2^32 sweep runs where a (type, ABI) specialisation first becomes native, where the ISA changes its helpers
                # (SSE4.2 / AVX2 integer instructions, FMA) and under the widest ISA; elsewhere the 2^24 lattice (fits the tier's deadline)
                FULL_AT = {("f32", "sse"): ("S2", "A5"), ("f32", "avx"): ("A1", "A2", "A5"), ("f32", "avx512"): ("A5",),
                           ("i32", "sse"): ("S2", "S4", "A5"), ("i32", "avx"): ("A2", "A5"), ("i32", "avx512"): ("A5",)}
                full = tier == "thorough" and native and abi != "scalar" and cfg.isa in FULL_AT.get((t, abi), ())
                for op in opsw:
                    bound = "1.0/16384.0*1.0001" if abi == "avx512" else "1.5/4096.0"
                    out.append(Case(f"C08/sweep32_{names[op]}[{ident}]", f"c08::g_sweep32<{V}>(fx, {op}, {0 if full else 1}, {bound});",
                                    route=f"{kind}.sweep32.{'full' if full else 'lattice24'}", cost=13.0 if full else 2.0))
    # complex vector types (native specialisations only; the generic fallback has no split-register layout to check)
    if base:
        for t, rt in (("c32", "f32"), ("c64", "f64")):
            for abi in ["scalar"] + HAVE[cfg.isa][rt]:
                out.append(Case(f"C08/complex[{t}|abi={abi}]", f"c08::g_complex<{_vec(t, abi)}>(fx);", route="native.complex", cost=3.0))
    return out


def bounds(tier):
    return {"quick": "all vector types per ISA (scalar, native ABIs, one generic array type) x all operation groups; alphabets |S|~40 (binary: S^2, ternary: (S/3)^3), "
                     "all 2^Size masks, misalignments 0..63; 32-bit unary sweeps on the declared 2^24 sub-lattice {high half-word free} x {256 boundary low half-words}",
            "thorough": "as quick plus the full 2^32 sweep of neg, abs, sqrt, rcp, rsqrt, x+x, x*x for every native 32-bit vector type under the ISA where it first becomes native, the ISAs that change its helpers (SSE4.2, AVX2, FMA) and AVX-512; O0/O3/clang variants"}[tier]


EXHAUSTIVE_WITHIN_BOUNDS = True
