"""C10 - inverse(A) times A is the identity for every size and every computation type."""
import re
from ..configs import Config, ALL_ISAS, MAIN3, CTYPE
from ..engine import Case

ID = "C10"
LEVEL = "exploration"
HEADER = "c10.h"
TU_BUDGET = 30.0
RUN_TIMEOUT_S = 900
TECHNIQUE = ("bounded-exhaustive enumeration of (size, strategy, element type, entry point) x ISA builds; per case the real library call is run on "
             "every member of deterministic matrix families and judged against the textbook bound evaluated with measured kappa and growth")
LEVEL_TEXT = ("Every (size, InvCompType strategy, element type, entry point) of the stated box is instantiated and executed under each ISA build on "
              "every member of the matrix families of DESIGN.md 4.3 (diagonally dominant integer matrices, Householder-built Q D Q^T matrices "
              "with prescribed condition number, all / generating row permutations for the pivoted strategies, triangular variants). Judged: "
              "||AX-I||_F and ||XA-I||_F <= c*n*u*kappa_2(A)*max(1,growth) with c = 8, kappa_2 measured by a long double Jacobi SVD of the matrix as stored "
              "and growth = || |L||U| ||_F/||A||_F of the reference's unpivoted LU of the (pre-pivoted) matrix. Membership in the strategy's domain is "
              "decided a posteriori from the leading-block condition numbers of A (or of P*A with P from the library's public pivot). A coverage "
              "statement over the box, not a sample.")
RULE = ("enumeration of (entry point, element type, n, strategy, family group) x ISA; per case every member of the group is generated at run time for "
        "the case's n; evaluation = one library call judged by both residuals against c*n*u*kappa_2(A)*max(1, measured LU growth), plus the exact "
        "inverse by fraction-free integer elimination for the integer families (n <= 12), plus exact triangularity for tinverse; destination pre-filled "
        "with a sentinel, canary frame; members outside the strategy's domain (max leading-block kappa_2 of A / P*A above 1.1e3 f32, 1.1e6 f64; above 5e2 "
        "for the explicit-inverse block recursion SimpleInv / SimpleInvPiv / inv() with n > 4) are run, counted per family and not judged; non-trivial = "
        "every judged member")
ASSUMPTIONS = [
    "c = 8 in every bound; u = 2^-24 / 2^-53; kappa_2, leading-block kappa_2 and LU growth measured in long double on the entries as stored in T",
    "the families are deterministic functions of n only; sizes outside the enumerated set are not claimed",
    "'the strategy is defined on A' is decided a posteriori: all leading blocks of A (unpivoted) or of P*A with P = pivot<PivType::V>(A) (pivoted) have kappa_2 <= 1.1e3 (f32) / 1.1e6 (f64)",
    "block elimination through an explicitly inverted pivot block (SimpleInv / SimpleInvPiv / inv() for n > 4) is only conditionally stable: its error carries "
    "kappa of the pivot block per recursion level (Demmel/Higham/Schreiber 1995, Higham ASNA Thm 13.6); 'well conditioned leading blocks' means kappa_2 <= 5e2 "
    "for these strategies (measured: residual/bound <= 0.08 below 1e3, up to 7e3 above); members between 5e2 and the general threshold are counted with their "
    "would-pass / would-fail tally (explicit_block_domain), not judged",
    "tinverse<UniUpper> and tinverse<Lower> have no implementation in the pinned tree (self-recursive generic overload): recorded, not judged",
]
STRATS = ["SimpleInv", "SimpleInvPiv", "BlockLU", "BlockLUPiv", "SimpleLU", "SimpleLUPiv"]
GROUPS = {"dom": 0, "cond": 1, "perm": 2, "ul": 3, "up": 4}
FAMILIES = ("dd", "cd", "spd10", "spd1e3", "spd1e5", "orth", "gen10", "gen1e3", "gen1e5", "cd.perm", "dd.perm", "spd10.perm")


def configs(tier):
    if tier == "quick":
        return [Config(isa=i) for i in MAIN3]
    return [Config(isa=i) for i in ALL_ISAS]


def size_class(n):
    if n <= 4:
        return f"closed_form.n{n}"
    for b in (8, 16, 32, 64, 128):
        if n <= b:
            return f"block.le{b}"
    return "block.gt128"


def est_cost(n, strat, isa="S2"):
    """seconds of compile time of one inverse<strat> instantiation for an n x n matrix (measured on g++ 12 -O2, rounded up)"""
    lu = strat not in ("SimpleInv", "SimpleInvPiv")
    block = strat.startswith("BlockLU")
    if n <= 4:
        c = 0.35
    elif n <= 8:
        c = 0.7
    elif n <= 12:
        c = 1.1
    elif n <= 17:
        c = 2.2 if not block else 2.8
    elif n <= 33:
        c = 5.0 if not block else 10.0
    else:
        c = 12.0 if not lu else (20.0 if not block else 36.0)
    if isa == "A5":
        c *= 1.2
    return c


def sizes(tier, cfg, strat, t):
    if tier == "quick":
        s = list(range(1, 10)) + [16, 17]
        # 33: every strategy in f64, one pivoted LU strategy in f32 (compile cost 5 - 12 s each)
        if t == "f64" or strat == "SimpleLUPiv":
            s.append(33)
        return s
    s = list(range(1, 13)) + [16, 17, 32, 33]
    if strat in ("SimpleInv", "SimpleInvPiv") and cfg.isa in MAIN3:
        s += [64, 65]      # only the cheapest strategies (12 s per instantiation; the LU-based ones cost 20 - 36 s)
    return s


def _case(entry, t, params, body, route, cost, must_compile=True):
    return Case(f"C10/{entry}[{t}|{params}]", body, route=route, cost=cost, must_compile=must_compile)


def cases(tier, cfg):
    big, small = [], []
    for t in ("f64", "f32"):
        ct = CTYPE[t]
        for si, strat in enumerate(STRATS):
            piv = strat.endswith("Piv")
            for n in sizes(tier, cfg, strat, t):
                cost = min(est_cost(n, strat, cfg.isa), TU_BUDGET - 1.5)
                groups = ["dom"] + (["cond"] if n >= 2 else []) + (["perm"] if piv and n >= 2 else [])
                dst = big if n >= 32 else small
                for gi, g in enumerate(groups):
                    dst.append(_case("inverse", t, f"n={n},strat={strat},grp={g}", f"c10::inv<{ct},{n},0,{si},{GROUPS[g]}>(fx);",
                                     f"inv.{strat}.{size_class(n)}", cost if gi == 0 else 0.3))
            # expression argument: inverse<S>(A + 0)
            esz = (2, 3, 5, 9) if tier == "quick" else (1, 2, 3, 4, 5, 6, 9, 17)
            if tier == "thorough" or t == "f64":
                for n in esz:
                    small.append(_case("inverse_expr", t, f"n={n},strat={strat},grp=dom", f"c10::inv<{ct},{n},1,{si},0>(fx);",
                                       f"inv_expr.{strat}", est_cost(n, strat, cfg.isa) + 0.1))
        # inv() lazily inside expressions
        lsz = (1, 2, 3, 4, 5, 8, 9, 17) if tier == "quick" else tuple(range(1, 13)) + (16, 17, 33)
        for n in lsz:
            c0 = est_cost(n, "SimpleInv", cfg.isa)
            dst = big if n >= 32 else small
            dst.append(_case("inv_lazy_assign", t, f"n={n},grp=dom", f"c10::inv<{ct},{n},2,0,0>(fx);", f"lazy.assign.{size_class(n)}", c0))
            if n >= 2:
                dst.append(_case("inv_lazy_assign", t, f"n={n},grp=cond", f"c10::inv<{ct},{n},2,0,1>(fx);", f"lazy.assign.{size_class(n)}", 0.3))
            if n <= 17:
                dst.append(_case("inv_lazy_add", t, f"n={n},grp=dom", f"c10::inv<{ct},{n},3,0,0>(fx);", "lazy.add", c0))
                dst.append(_case("inv_lazy_mul", t, f"n={n},grp=dom", f"c10::inv<{ct},{n},4,0,0>(fx);", "lazy.mul", c0 + 0.1))
                dst.append(_case("inv_lazy_expr", t, f"n={n},grp=dom", f"c10::inv<{ct},{n},5,0,0>(fx);", "lazy.expr", c0))
        # triangular inversion
        tsz = (list(range(1, 10)) + [16, 17, 33]) if tier == "quick" else (list(range(1, 13)) + [16, 17, 32, 33] + ([64, 65] if cfg.isa in MAIN3 else []))
        for n in tsz:
            c0 = 0.3 if n <= 4 else 0.5 if n <= 8 else 0.8 if n <= 17 else 2.5 if n <= 33 else 6.0
            dst = big if n >= 32 else small
            dst.append(_case("tinverse", t, f"n={n},uplo=UniLower", f"c10::inv<{ct},{n},6,0,{GROUPS['ul']}>(fx);", f"tinv.UniLower.{size_class(n)}", c0))
            dst.append(_case("tinverse", t, f"n={n},uplo=Upper", f"c10::inv<{ct},{n},7,0,{GROUPS['up']}>(fx);", f"tinv.Upper.{size_class(n)}", c0))
        # tags without an implementation: tinverse<SimpleInv,UniUpper/Lower> resolve to the generic overload, which calls itself (rejected by the
        # compiler: always_inline recursion, only visible when code is generated, so each gets its own TU: cost = TU_BUDGET) - recorded, not judged
        small.append(_case("tinverse", t, "n=3,uplo=UniUpper", f"c10::inv<{ct},3,8,0,{GROUPS['up']}>(fx);", "tinv.unimplemented", TU_BUDGET, must_compile=False))
        small.append(_case("tinverse", t, "n=3,uplo=Lower", f"c10::inv<{ct},3,9,0,{GROUPS['ul']}>(fx);", "tinv.unimplemented", TU_BUDGET, must_compile=False))
        # batched inverse over the trailing two axes
        for n in (2, 3, 4):
            for rank in (3, 4):
                small.append(_case("inverse_batched", t, f"n={n},rank={rank}", f"c10::batch<{ct},{n},{rank}>(fx);", f"batched.rank{rank}.n{n}", 0.4))
    big.sort(key=lambda c: -c.cost)
    return big + small


def expected_routes(tier):
    r = []
    classes = ["closed_form.n1", "closed_form.n2", "closed_form.n3", "closed_form.n4", "block.le8", "block.le16", "block.le32", "block.le64"]
    for s in STRATS:
        for c in classes:
            r.append(f"inv.{s}.{c}")
    if tier == "thorough":
        r += ["inv.SimpleInv.block.le128", "inv.SimpleInvPiv.block.le128", "tinv.UniLower.block.le128", "tinv.Upper.block.le128"]
    r += ["dom.in." + f for f in FAMILIES + ("ul.frac", "ul.int", "up.frac", "up.graded")]
    r += ["piv.nonidentity.judged", "ref.exact_inverse_compared", "batched.rank3.n2", "batched.rank4.n4", "lazy.add", "lazy.mul", "lazy.expr"]
    return r


def domain_summary(ID, run, cov):
    """shared by C10 and C12: per-family in-domain / out-of-domain counts, gaps, and the out-of-domain telemetry"""
    dom = {}
    rt = cov["routes"]
    for k, v in rt.items():
        if k.startswith("dom.in.") or k.startswith("dom.out."):
            fam = k.split(".", 2)[2]
            dom.setdefault(fam, {"in_domain": 0, "out_of_domain": 0})["in_domain" if k.startswith("dom.in.") else "out_of_domain"] += v
    worst = 0.0
    for r in run.results.values():
        for nt in r.notes:
            m = re.match(r"ood_max_ratio=([0-9.eE+-]+)", nt)
            if m:
                worst = max(worst, float(m.group(1)))
    cov["domain_counts_per_family"] = dom
    cov["domain_gaps"] = sorted(f for f, d in dom.items() if d["in_domain"] == 0)
    cov["out_of_domain"] = {"would_pass": rt.get("ood.would_pass", 0), "would_fail": rt.get("ood.would_fail", 0), "max_residual_over_bound": worst}
    cov["explicit_block_domain"] = {"threshold": 5e2, "members_between_5e2_and_general_threshold_would_pass": rt.get("ood.explicit_block_only.would_pass", 0),
                                    "would_fail": rt.get("ood.explicit_block_only.would_fail", 0)}
    print(f"{ID} domain: in-domain evaluations={sum(d['in_domain'] for d in dom.values())} out-of-domain (run, counted, not judged)="
          f"{sum(d['out_of_domain'] for d in dom.values())} [would pass {rt.get('ood.would_pass', 0)}, would fail {rt.get('ood.would_fail', 0)}, "
          f"max residual/bound {worst:.3g}]; of these only outside the explicit-inverse threshold 5e2: would pass "
          f"{rt.get('ood.explicit_block_only.would_pass', 0)}, would fail {rt.get('ood.explicit_block_only.would_fail', 0)}")
    print(f"{ID} per family in/out: " + ", ".join(f"{f}={d['in_domain']}/{d['out_of_domain']}" for f, d in sorted(dom.items())))
    for f in cov["domain_gaps"]:
        print(f"{ID} GAP: family {f} has no in-domain member in this run ({dom[f]['out_of_domain']} out of domain)")


def finalize(run, cov):
    domain_summary(ID, run, cov)


def bounds(tier):
    return {
        "quick": "n in 1..9,16,17 (+33: all six strategies f64, SimpleLUPiv f32) x six InvCompType x {f64,f32} x groups dom{dd,cd} / cond{spd 10,1e3,(1e5 f64); orth; "
                 "gen 10,1e3,(1e5 f64)} / perm (pivoted only: every non-identity permutation for n<=4, else reversal, both rotations, adjacent transpositions "
                 "[all for n<=12, recursion split positions above] of cd; reversal+rotations+first transposition of dd, spd10); inverse<S>(A+0) n in {2,3,5,9} f64; "
                 "inv() lazily (assign, +=, inv(A)%A, inv(A+0)) n in {1..5,8,9,17}; tinverse<UniLower|Upper> n in 1..9,16,17,33; batched rank 3/4 inner n 2..4; "
                 "S2, A2, A5 (g++ -O2 -DNDEBUG C++14)",
        "thorough": "n in 1..12,16,17,32,33 x six InvCompType x {f64,f32} x the same groups; 64|65 only for SimpleInv, SimpleInvPiv and tinverse on S2/A2/A5 "
                    "(shrunk from DESIGN.md: BlockLU/BlockLUPiv at 64|65 dropped - 36 s per instantiation; adjacent transpositions for n>12 only at the "
                    "recursion split positions); inverse<S>(A+0) n in {1..6,9,17}; lazy forms n in 1..12,16,17 (assign also 33); tinverse 1..12,16,17,32,33,(64,65); "
                    "batched rank 3/4 inner n 2..4; six ISAs",
    }[tier]
