"""C07 - no operation touches memory outside its operands, for any shape or alignment; no dynamic allocation."""
from ..configs import Config, ALL_ISAS, MAIN3, CTYPE
from ..engine import Case

ID = "C07"
LEVEL = "exploration"
HEADER = "c07.h"
TU_BUDGET = 10.0
TECHNIQUE = ("bounded-exhaustive enumeration of operations at dispatch-route granularity x operand placements (flush against PROT_NONE pages on either "
             "side, every misalignment 0..63 for wrapped buffers) x ISA builds, with an allocation counter and canaries; sanitised builds in thorough")
LEVEL_TEXT = ("Every operation of the list (one per dispatch route of the other properties: each matmul band, tmatmul, element-wise evaluation body/tail, "
              "reductions, transpose kernels and edges, closed-form inverse/determinant with their 3-as-4 loads, einsum nest, permute, view reads and "
              "writes) is executed with each operand and the result placed exactly flush against an inaccessible page behind it, directly behind one, "
              "and - for TensorMap-wrapped raw buffers of exactly size*sizeof(T) bytes - at every misalignment; a fault, a changed canary, a result that "
              "differs from the baseline placement or a heap allocation during the call is a violation. With run-time checks on, every index tuple of the "
              "halo [-n-2,n+1]^rank must raise iff out of range.")
RULE = ("cases = (operation, types, shapes, owning|wrapped); run-time points = placement (baseline, end-flush, start-flush, per-operand flush, misalignment); "
        "evaluation = one execution judged for faults, canaries, allocation count and equality with the baseline placement; halo cases: one index tuple each")
ASSUMPTIONS = [
    "guard pages see accesses at page granularity beyond the object; accesses inside an owning tensor's own alignment padding are inside the operand",
    "results are compared with the baseline placement of the same binary (the values themselves are judged by the owning properties)",
    "stack staging arrays inside kernels are covered by the ASan+UBSan builds of the thorough tier only",
    "malloc/calloc/realloc/memalign/operator new are interposed in the test binary; allocations inside the C library that bypass them are not seen",
]


def configs(tier):
    cfgs = [Config(isa=i) for i in ALL_ISAS]
    cfgs += [Config(isa="S2", ndebug=True, defs=("FASTOR_ENABLE_RUNTIME_CHECKS=1",)), Config(isa="A5", ndebug=False)]
    if tier == "thorough":
        cfgs += [Config(isa=i, san=True, opt="O1", defs=("FX_NO_MALLOC_HOOK",)) for i in MAIN3]
        cfgs += [Config(isa="A5", std="17"), Config(isa="A2", opt="O3"), Config(isa="A5", cxx="clang++")]
    return cfgs


def T(t, *dims):
    return f"Fastor::Tensor<{CTYPE[t]}{''.join(',' + str(d) for d in dims)}>"


def prod(dims):
    p = 1
    for d in dims:
        p *= d
    return p


def ops(tier, cfg):
    """(name, elem type of a, dims a, elem type b, dims b, elem type r, dims r, statement, square_dominant, allow_map)"""
    L = []
    for t in ("f32", "f64", "i32"):
        W = cfg.w(t)
        fp = t != "i32"
        mm = [(2, 2, 2), (3, 3, 3), (4, 4, 4), (8, 8, 8), (3, 3, 1), (5, 3, 1), (1, 3, 5), (2, 1, 3), (1, 5, 1), (5, 3, W - 1), (5, 3, W), (5, 3, W + 1),
              (4, 3, 2 * W + 1), (5, 2, 3 * W), (2, 3, 3 * W + 2), (12, 3, 5 * W + 2), (3, 5, 5 * W), (9, 3, 2 * W - 1),
              (2, 3, W + 1), (7, 3, W + 1), (2, 3, 2 * W + 1), (6, 3, 2 * W + 1), (3, 3, 3 * W + 1), (2, 2, 4 * W + 1)]
        if tier == "quick" and t != "f32":
            mm = mm[:4] + mm[9:13] + mm[18:]
        for (M, K, N) in sorted(set(mm)):
            if N < 1:
                continue
            L.append((f"matmul[{t}|{M}x{K}x{N}]", t, (M, K), t, (K, N), t, (M, N), "r = matmul(a,b);", False, False))
            if (M, K, N) in ((3, 3, 3), (5, 3, W + 1), (4, 3, 2 * W + 1)):
                L.append((f"lazy_matmul_add[{t}|{M}x{K}x{N}]", t, (M, K), t, (K, N), t, (M, N), "r += a % b;", False, False))
        for (M, K, N) in ((3, 3, 3), (4, 5, W + 1), (W + 1, W + 1, W + 1)):
            L.append((f"tmatmul_LU[{t}|{M}x{K}x{N}]", t, (M, K), t, (K, N), t, (M, N), "r = tmatmul<UpLoType::Lower,UpLoType::Upper>(a,b);", False, False))
        for n in sorted({1, W - 1, W, W + 1, 2 * W + 3} - {0}):
            L.append((f"ew_add[{t}|{n}]", t, (n,), t, (n,), t, (n,), "r = a + b;", False, True))
            L.append((f"ew_mulacc[{t}|{n}]", t, (n,), t, (n,), t, (n,), "r += a * b - a;", False, True))
            L.append((f"ew_neg_abs[{t}|{n}]", t, (n,), t, (n,), t, (n,), "r = abs(-a) * b;", False, True))
            L.append((f"ew_cmp[{t}|{n}]", t, (n,), t, (n,), "b8", (n,), "r = a < b;", False, False))
            L.append((f"scalar_ops[{t}|{n}]", t, (n,), t, (n,), t, (n,), "r = a; r += a(0); r -= b(0); r *= a(0); r /= b(0);", False, True))
            L.append((f"scalar_div[{t}|{n}]", t, (n,), t, (n,), t, (n,), "r = a; r /= b(0);", False, True))
            if fp:
                L.append((f"ew_sqrt[{t}|{n}]", t, (n,), t, (n,), t, (n,), "r = sqrt(abs(a)) / b;", False, True))
            for f in ("sum", "min", "max", "product") + (("norm",) if fp else ()):
                if tier == "quick" and n not in (1, W + 1, 2 * W + 3):
                    continue
                if f == "product" and not fp and cfg.san and n > 8:
                    continue      # the fill values make the mathematical product leave int32: UBSan would (rightly) blame the input, not the library
                L.append((f"{f}[{t}|{n}]", t, (n,), t, (n,), t, (1,), f"r(0) = {f}(a);", False, True))
            L.append((f"inner[{t}|{n}]", t, (n,), t, (n,), t, (1,), "r(0) = inner(a,b);", False, False))
        # long vectors: the unrolled blocks of the reduction loops (four / eight vectors per trip) and their remainders
        for n in (8 * W + 3,) if tier == "quick" else (4 * W + 1, 8 * W, 8 * W + 3):
            for f in ("sum", "min", "max", "product") + (("norm",) if fp else ()):
                if f == "product" and not fp and cfg.san:
                    continue
                L.append((f"{f}[{t}|{n}]", t, (n,), t, (n,), t, (1,), f"r(0) = {f}(a);", False, True))
                L.append((f"{f}_expr[{t}|{n}]", t, (n,), t, (n,), t, (1,), f"r(0) = {f}(a + b);", False, True))
            L.append((f"inner[{t}|{n}]", t, (n,), t, (n,), t, (1,), "r(0) = inner(a,b);", False, False))
            L.append((f"ew_mulacc[{t}|{n}]", t, (n,), t, (n,), t, (n,), "r += a * b - a;", False, True))
        tr = [(2, 2), (3, 3), (4, 4), (8, 8), (3, 5), (5, 3), (W + 1, 2 * W + 1), (2 * W, W), (1, W + 1)]
        if tier == "quick":
            tr = tr[:6]
        for (M, N) in tr:
            L.append((f"transpose[{t}|{M}x{N}]", t, (M, N), t, (1,), t, (N, M), "r = transpose(a);", False, True))
        # the lazy spelling writes straight into the destination (a map over an unaligned buffer must not see aligned stores): shapes that reach
        # the blocked kernel with whole vectors in both directions
        for (M, N) in [(3, 5), (2 * W, W), (W, 2 * W), (2 * W, 2 * W + 1)] + ([(3 * W, 2 * W), (W + 1, 2 * W)] if tier == "thorough" else []):
            L.append((f"trans_lazy[{t}|{M}x{N}]", t, (M, N), t, (1,), t, (N, M), "r = trans(a);", False, True))
            if (M, N) == (2 * W, W):
                L.append((f"trans_lazy_add[{t}|{M}x{N}]", t, (M, N), t, (1,), t, (N, M), "r += trans(a);", False, True))
        if fp:
            for n in (2, 3, 4, 5):
                L.append((f"inverse[{t}|{n}]", t, (n, n), t, (1,), t, (n, n), "r = inverse(a);", True, False))
                L.append((f"determinant[{t}|{n}]", t, (n, n), t, (1,), t, (1,), "r(0) = determinant(a);", True, False))
                L.append((f"lazy_inv[{t}|{n}]", t, (n, n), t, (n, n), t, (n, n), "r = inv(a) + b;", True, False))
            for n in (2, 3, 4):
                L.append((f"cofactor[{t}|{n}]", t, (n, n), t, (1,), t, (n, n), "r = cofactor(a);", True, False))
                L.append((f"adjoint[{t}|{n}]", t, (n, n), t, (1,), t, (n, n), "r = adjoint(a);", True, False))
            L.append((f"solve[{t}|3]", t, (3, 3), t, (3,), t, (3,), "r = solve(a,b);", True, False))
            L.append((f"trace[{t}|3]", t, (3, 3), t, (1,), t, (1,), "r(0) = trace(a);", False, False))
            L.append((f"cross[{t}|3]", t, (3,), t, (3,), t, (3,), "r = cross(a,b);", False, False))
        # batched spellings: the trailing matrix of a rank-3 tensor ends where the tensor ends, so a kernel that loads a 3x3 matrix as
        # 3x4 or 4x4 is only safe if it stops short there (B chosen so that the object has no tail padding at any alignment)
        # (the batched adjoint / cofactor overloads do not compile in the pinned tree - no two-pointer _adjoint/_cofactor kernel - so there is nothing to run)
        if fp:
            for nb in (2, 3, 4):
                for B in ((16,) if tier == "quick" else (4, 8, 16)):
                    L.append((f"batch_determinant[{t}|{B}x{nb}x{nb}]", t, (B, nb, nb), t, (1,), t, (B,), "r = determinant(a);", False, False))
                    L.append((f"batch_inverse[{t}|{B}x{nb}x{nb}]", t, (B, nb, nb), t, (1,), t, (B, nb, nb), "r = inverse(a);", False, False))
                    L.append((f"batch_transpose[{t}|{B}x{nb}x{nb}]", t, (B, nb, nb), t, (1,), t, (B, nb, nb), "r = transpose(a);", False, False))
                    L.append((f"batch_trace[{t}|{B}x{nb}x{nb}]", t, (B, nb, nb), t, (1,), t, (B,), "r = trace(a);", False, False))
        # einsum / permute
        L.append((f"einsum_general[{t}|2x3x{W + 1}.{W + 1}x2]", t, (2, 3, W + 1), t, (W + 1, 2), t, (2, 3, 2), "r = einsum<Index<0,1,2>,Index<2,3>>(a,b);", False, False))
        L.append((f"einsum_nest[{t}|3x{W + 1}.3x2]", t, (3, W + 1), t, (3, 2), t, (W + 1, 2), "r = einsum<Index<0,1>,Index<0,2>>(a,b);", False, False))
        L.append((f"outer[{t}|3.{W + 1}]", t, (3,), t, (W + 1,), t, (3, W + 1), "r = outer(a,b);", False, False))
        L.append((f"permute[{t}|2x3x{W + 1}]", t, (2, 3, W + 1), t, (1,), t, (W + 1, 2, 3), "r = permute<Index<2,0,1>>(a);", False, False))
        # views: reads and writes (1-D and 2-D, contiguous / strided / last row and column)
        n = 2 * W + 3
        L.append((f"view_read_tail[{t}|{n}]", t, (n,), t, (1,), t, (n - 1,), f"r = a(fseq<1,{n}>());", False, True))
        L.append((f"view_read_strided[{t}|{n}]", t, (n,), t, (1,), t, ((n + 1) // 2,), f"r = a(seq(0,{n},2));", False, True))
        L.append((f"view_read_last[{t}|{n}]", t, (n,), t, (1,), t, (W,), f"r = a(seq({n - W},{n}));", False, True))
        L.append((f"view_write_tail[{t}|{n}]", t, (n - 1,), t, (1,), t, (n,), f"r(fseq<1,{n}>()) = a;", False, True))
        L.append((f"view_write_strided[{t}|{n}]", t, ((n + 1) // 2,), t, (1,), t, (n,), f"r(seq(0,{n},2)) += a;", False, True))
        L.append((f"view2d_lastcol[{t}|3x{W + 1}]", t, (3, W + 1), t, (1,), t, (3,), f"r = a(all,{W});", False, True))
        L.append((f"view2d_lastrow[{t}|3x{W + 1}]", t, (3, W + 1), t, (1,), t, (W + 1,), "r = a(2,all);", False, True))
        L.append((f"view2d_block_write[{t}|3x{W + 1}]", t, (2, W), t, (1,), t, (3, W + 1), f"r(fseq<1,3>(),fseq<1,{W + 1}>()) = a;", False, True))
        L.append((f"view2d_block_read[{t}|3x{W + 3}]", t, (3, W + 3), t, (1,), t, (2, W + 1), f"r = a(seq(1,3),seq(2,{W + 3}));", False, True))
        L.append((f"view_fill[{t}|{n}]", t, (1,), t, (1,), t, (n,), f"r(seq({n - W - 1},{n})) = a(0);", False, True))
        L.append((f"copy_ctor[{t}|{n}]", t, (n,), t, (1,), t, (n,), "r = a;", False, True))
        # index-tensor and boolean-mask views (gather / scatter / filtered store), reshape/flatten aliases
        L.append((f"randview_read[{t}|{n}]", t, (n,), t, (1,), t, (4,), f"Tensor<int,4> it = {{{n - 1},0,{n // 2},{n - 1}}}; r = a(it);", False, False))
        L.append((f"randview_write[{t}|{n}]", t, (4,), t, (1,), t, (n,), f"Tensor<int,4> it = {{{n - 1},0,{n // 2},1}}; r(it) = a;", False, False))
        L.append((f"maskview_write[{t}|{n}]", t, (n,), t, (n,), t, (n,), f"Tensor<bool,{n}> m = a > b; r = b; r(m) = a;", False, False))
        L.append((f"flatten_sum[{t}|3x{W + 1}]", t, (3, W + 1), t, (1,), t, (1,), "r(0) = sum(flatten(a));", False, False))
        L.append((f"reshape_copy[{t}|2x{W + 1}]", t, (2, W + 1), t, (1,), t, (W + 1, 2), f"r = reshape<{W + 1},2>(a);", False, False))
        if fp:
            for nn in (3, 5):
                L.append((f"lu[{t}|{nn}]", t, (nn, nn), t, (1,), t, (nn, nn), f"Tensor<{CTYPE[t]},{nn},{nn}> l, u; lu(a, l, u); r = l + u;", True, False))
                L.append((f"qr[{t}|{nn}]", t, (nn, nn), t, (1,), t, (nn, nn), f"Tensor<{CTYPE[t]},{nn},{nn}> q, rr; qr(a, q, rr); r = q + rr;", True, False))
            # pivoted strategies on a matrix whose dominant entries sit on the anti-diagonal: every row moves
            for nn in (3, 5):
                ct = CTYPE[t]
                L.append((f"lu_piv_vec[{t}|{nn}]", t, (nn, nn), t, (1,), t, (nn, nn),
                          f"Tensor<{ct},{nn},{nn}> l, u; Tensor<size_t,{nn}> p; lu<LUCompType::BlockLUPiv>(a, l, u, p); r = l + u; r(0,0) += {ct}(p({nn - 1}));", 2, False))
                L.append((f"lu_piv_mat[{t}|{nn}]", t, (nn, nn), t, (1,), t, (nn, nn),
                          f"Tensor<{ct},{nn},{nn}> l, u, p; lu<LUCompType::SimpleLUPiv>(a, l, u, p); r = l + u + p;", 2, False))
                L.append((f"qr_piv[{t}|{nn}]", t, (nn, nn), t, (1,), t, (nn, nn),
                          f"Tensor<{ct},{nn},{nn}> q, rr; Tensor<size_t,{nn}> p; qr<QRCompType::MGSRPiv>(a, q, rr, p); r = q + rr;", 2, False))
                # the same with an unevaluated argument: these overloads permute their own temporary in place
                L.append((f"lu_piv_vec_expr[{t}|{nn}]", t, (nn, nn), t, (1,), t, (nn, nn),
                          f"Tensor<{ct},{nn},{nn}> l, u; Tensor<size_t,{nn}> p; lu<LUCompType::BlockLUPiv>(a * {ct}(1), l, u, p); r = l + u;", 2, False))
                L.append((f"lu_piv_mat_expr[{t}|{nn}]", t, (nn, nn), t, (1,), t, (nn, nn),
                          f"Tensor<{ct},{nn},{nn}> l, u, p; lu<LUCompType::BlockLUPiv>(a * {ct}(1), l, u, p); r = l + u + p;", 2, False))
                L.append((f"slu_piv_vec_expr[{t}|{nn}]", t, (nn, nn), t, (1,), t, (nn, nn),
                          f"Tensor<{ct},{nn},{nn}> l, u; Tensor<size_t,{nn}> p; lu<LUCompType::SimpleLUPiv>(a * {ct}(1), l, u, p); r = l + u;", 2, False))
                L.append((f"slu_piv_mat_expr[{t}|{nn}]", t, (nn, nn), t, (1,), t, (nn, nn),
                          f"Tensor<{ct},{nn},{nn}> l, u, p; lu<LUCompType::SimpleLUPiv>(a * {ct}(1), l, u, p); r = l + u + p;", 2, False))
                L.append((f"qr_piv_expr[{t}|{nn}]", t, (nn, nn), t, (1,), t, (nn, nn),
                          f"Tensor<{ct},{nn},{nn}> q, rr; Tensor<size_t,{nn}> p; qr<QRCompType::MGSRPiv>(a * {ct}(1), q, rr, p); r = q + rr;", 2, False))
                L.append((f"qr_pivmat_expr[{t}|{nn}]", t, (nn, nn), t, (1,), t, (nn, nn),
                          f"Tensor<{ct},{nn},{nn}> q, rr, p; qr<QRCompType::MGSRPiv>(a * {ct}(1), q, rr, p); r = q + rr + p;", 2, False))
                L.append((f"inverse_piv[{t}|{nn}]", t, (nn, nn), t, (1,), t, (nn, nn), "r = inverse<InvCompType::SimpleInvPiv>(a);", 2, False))
                L.append((f"inverse_lupiv[{t}|{nn}]", t, (nn, nn), t, (1,), t, (nn, nn), "r = inverse<InvCompType::BlockLUPiv>(a);", 2, False))
                L.append((f"solve_piv[{t}|{nn}]", t, (nn, nn), t, (nn,), t, (nn,), "r = solve<SolveCompType::BlockLUPiv>(a, b);", 2, False))
                L.append((f"det_lu[{t}|{nn}]", t, (nn, nn), t, (1,), t, (1,), "r(0) = determinant<DetCompType::LU>(a);", 2, False))
            L.append((f"norm2d[{t}|3x{W + 1}]", t, (3, W + 1), t, (1,), t, (1,), "r(0) = norm(a);", False, True))
    return L


def _own(name, ta, da, tb, db, tr, dr, stmt, sq):
    body = (f"struct K {{ using TA = {T(ta, *da)}; using TB = {T(tb, *db)}; using TR = {T(tr, *dr)}; enum {{ square_dominant = {int(sq)} }}; "
            f"static void call(const TA& a, const TB& b, TR& r) {{ using namespace Fastor; {stmt} }} }}; c07::Own<K>::go(fx);")
    return Case(f"C07/own.{name}", body, route="own." + name.split("[")[0], cost=0.3)


def _map(name, ta, da, tb, db, tr, dr, stmt, sq):
    def M(t, d):
        return f"Fastor::TensorMap<{CTYPE[t]}{''.join(',' + str(x) for x in d)}>"
    body = (f"struct K {{ using EA = {CTYPE[ta]}; using EB = {CTYPE[tb]}; using ER = {CTYPE[tr]}; enum : size_t {{ NA = {prod(da)}, NB = {prod(db)}, NR = {prod(dr)} }}; enum {{ square_dominant = {int(sq)} }}; "
            f"static void call(EA* pa, EB* pb, ER* pr) {{ using namespace Fastor; {M(ta, da)} a(pa); {M(tb, db)} b(pb); {M(tr, dr)} r(pr); {stmt} }} }}; c07::Map<K>::go(fx);")
    return Case(f"C07/map.{name}", body, route="map." + name.split("[")[0], cost=0.3)


def cases(tier, cfg):
    out = _cases(tier, cfg)
    seen, uniq = set(), []
    for c in out:
        if c.id not in seen:
            seen.add(c.id); uniq.append(c)
    return uniq


def _cases(tier, cfg):
    out = []
    checks = cfg.has_def("FASTOR_ENABLE_RUNTIME_CHECKS") or not cfg.ndebug
    if checks:
        # halo: every index tuple in [-n-2, n+1]^rank must raise iff out of range (and must not touch memory: guard-flush placement)
        for t in ("f64", "i32"):
            for dims in ((5,), (3, 4), (2, 3, 4), (2, 3, 2, 3)):
                ext = "{" + ",".join(map(str, dims)) + "}"
                out.append(Case(f"C07/halo[{t}|{'x'.join(map(str, dims))}]",
                                f"const size_t ext[{len(dims)}] = {ext}; c07::halo<{T(t, *dims)},{len(dims)}>(fx, ext);", route="halo", cost=0.4))
        # with checks on, the in-domain operations must still run (no spurious assertion): a thinned operation list
        for o in ops(tier, cfg)[::5]:
            out.append(_own(*o[:9]))
        return out
    variant = cfg.tag not in [Config(isa=i).tag for i in ALL_ISAS]
    lst = ops(tier, cfg)
    if variant and not cfg.san:
        lst = lst[::3]
    for o in lst:
        out.append(_own(*o[:9]))
        if o[9]:
            out.append(_map(*o[:9]))
    return out


def bounds(tier):
    return {"quick": "operation list at route granularity (matmul bands, tmatmul, element-wise body/tail sizes {1,W-1,W,W+1,2W+3}, reductions, transpose kernels/edges, "
                     "inverse/determinant/cofactor/adjoint n<=5, solve, einsum nest, outer, permute, 1-D/2-D view reads and writes) x {f32,f64,i32} x {owning, TensorMap}; "
                     "placements: baseline, all/each operand end-flush, start-flush, 64 misalignments for maps; six ISAs; halo index sweep ranks 1-4 with checks on (two configs)",
            "thorough": "as quick with the longer matmul/transpose lists + ASan+UBSan builds on S2/A2/A5 + C++17, O3, clang variants"}[tier]
