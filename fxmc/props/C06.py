"""C06 - results do not depend on the SIMD instruction set, C++ level, optimisation level or tuning macros."""
import importlib
from ..configs import Config, ALL_ISAS, CTYPE
from ..engine import Case

ID = "C06"
LEVEL = "exploration"
HEADER = "fx.h"
TU_BUDGET = 9.0
DUMP = True
TECHNIQUE = ("differential execution of one corpus of generated check programs (one case per dispatch route of every other property) under a covering "
             "array / grid of build configurations: compile outcome, own-oracle verdict and result values compared cell by cell across configurations")
LEVEL_TEXT = ("The same set of case identities - one per dispatch route of each other property's generator, taken for the SSE and the AVX-512 vector "
              "widths - is compiled and run under every configuration of the lattice (ISA x C++ level x optimisation x checks x compiler, pairwise covered in "
              "quick, full ISA x std x opt grid in thorough, plus each documented macro toggled once). Per identity the compile outcome must agree, every "
              "configuration must satisfy the owning property's oracle, and the dumped results must be bit-identical (exact evaluations) or within the sum of "
              "the two configurations' own rounding bounds.")
RULE = ("cases = corpus identities (fixed across configurations) ; evaluations = the owning property's evaluations re-run per configuration; the deciding "
        "comparison is per (identity, pair of configurations); non-trivial as defined by the owning property; cells = identities x configurations")
ASSUMPTIONS = [
    "API the library itself gates on the language level (OIndex einsum) is compared across C++17 configurations only",
    "a case that is rejected, or fails its owner's oracle, identically in every configuration is the owning property's finding, not a configuration dependence",
    "float results are compared with the sum of the two configurations' own oracle bounds (0 for exact evaluations); an element its owning check measured as "
    "ill-conditioned on its data in either configuration (own bound infinite: C09, division by rounding noise) is counted and not compared",
    "macros outside the documented list and compilers other than the installed g++ 12 / clang 14 are not claimed",
]

# corpus sources: module -> max cases per route
SOURCES = ["C01", "C02", "C16", "C17", "C09", "C07", "C03", "C04", "C05", "C10", "C11", "C12", "C13", "C14", "C15", "C18", "C19", "C20"]
MACROS = [
    ("S2", "FASTOR_USE_HADD"), ("A2", "FASTOR_USE_HADD"), ("A5", "FASTOR_MATMUL_OUTER_BLOCK_SIZE=1"), ("S2", "FASTOR_MATMUL_OUTER_BLOCK_SIZE=3"),
    ("A5", "FASTOR_MATMUL_INNER_BLOCK_SIZE=1"), ("A2", "FASTOR_MATMUL_INNER_BLOCK_SIZE=3"), ("S2", "FASTOR_MATMUL_INNER_BLOCK_SIZE=5"),
    ("A2", "FASTOR_TRANS_OUTER_BLOCK_SIZE=1"), ("A2", "FASTOR_TRANS_INNER_BLOCK_SIZE=1"), ("A5", "FASTOR_DONT_PERFORM_OP_MIN"),
    ("A5", "FASTOR_USE_VECTORISED_EXPR_ASSIGN"), ("S2", "FASTOR_ZERO_INITIALISE"), ("A5", "FASTOR_DISABLE_SPECIALISED_CTR"),
]


def _lattice(tier):
    cfgs = []
    if tier == "quick":
        # pairwise cover of ISA x {std} x {opt} x {checks}; compilers alternate.  Deterministic construction: latin-square style.
        stds, opts = ["14", "17"], ["O2", "O0", "O3", "O1"]
        checks = [dict(ndebug=True), dict(ndebug=False), dict(ndebug=True, defs=("FASTOR_ENABLE_RUNTIME_CHECKS=1",))]
        # every ISA under two optimisation levels, every optimisation level under three ISAs; language level, check mode and
        # compiler rotate so that each value meets each ISA class (SSE / AVX / AVX-512) at least once
        for i, isa in enumerate(ALL_ISAS):
            for kk, j in enumerate((i % 4, (i + 2) % 4)):
                opt = opts[j]
                std = stds[(i + kk) % 2]
                chk = checks[(i + 2 * j) % 3]
                cxx = "clang++" if (i * 4 + j) % 5 == 3 else "g++"
                cfgs.append(Config(isa=isa, std=std, opt=opt, cxx=cxx, **chk))
        cfgs += [Config(isa=isa, defs=(m,)) for isa, m in [MACROS[1]] + MACROS[::2]]
    else:
        for isa in ALL_ISAS:
            for std in ("14", "17"):
                for opt in ("O0", "O2", "O3"):
                    cfgs.append(Config(isa=isa, std=std, opt=opt))
        cfgs += [Config(isa=isa, defs=(m,)) for isa, m in MACROS]
        cfgs += [Config(isa=i, cxx="clang++") for i in ("S2", "A2", "A5")]
        cfgs += [Config(isa="S2", ndebug=False), Config(isa="A5", ndebug=False), Config(isa="A2", defs=("FASTOR_ENABLE_RUNTIME_CHECKS=1",))]
    seen, out = set(), []
    for c in cfgs:
        if c.tag not in seen:
            seen.add(c.tag); out.append(c)
    return out


def configs(tier):
    return _lattice(tier)


_corpus_cache = {}


def corpus(tier):
    if tier in _corpus_cache:
        return _corpus_cache[tier]
    from ..manifest import READY
    per_route = 1 if tier == "quick" else 3
    out, ids = [], set()
    for pid in SOURCES:
        if pid not in READY:
            continue
        mod = importlib.import_module(f"fxmc.props.{pid}")
        if getattr(mod, "LINK_FLAGS", None):
            continue
        ids14 = None
        for ref in (Config(isa="S2"), Config(isa="A5"), Config(isa="A5", std="17")):
            try:
                cs = mod.cases("quick", ref)
            except Exception:
                continue
            if ref.std == "14" and ref.isa == "A5":
                ids14 = {x.id for x in cs}
            taken = {}
            for c in sorted(cs, key=lambda c: (c.cost, len(c.id))):
                if not c.judged or not c.must_compile:
                    continue      # spellings the owner does not judge (unimplemented strategy tags etc.) are not part of the corpus
                if c.cost > (1.5 if tier == "quick" else 8.0):
                    continue      # the differential corpus stays cheap: large-n instantiations are the owner's thorough business
                r = c.route or "none"
                if pid == "C02":   # routes of C02 are (group, form): keep the node kind visible as well
                    r = r + "." + c.id.split("tree=")[-1][:6] if "tree=" in c.id and tier == "thorough" else r
                    # the depth-1 trees (one per operator and operand order, tensor/number on either side) are each their own route: the
                    # element-wise operators are where every ISA / fallback vector type has its own code
                    if r.startswith("core1") and "tree=" in c.id and c.id.startswith(("C02/expr[f32|", "C02/expr[i32|")):
                        r = "core1." + c.id.split("|")[0].split("[")[-1] + "." + c.id.split("tree=")[-1]
                if taken.get(r, 0) >= per_route or c.id in ids:
                    continue
                if "sweep32" in c.id:
                    continue
                taken[r] = taken.get(r, 0) + 1
                ids.add(c.id)
                meta = dict(c.meta); meta["header"] = mod.HEADER; meta["owner"] = pid
                meta["needs_cxx17"] = ref.std == "17" and ids14 is not None and c.id not in ids14
                out.append(Case(c.id, c.body, route=f"{pid}.{r if pid == 'C02' and r.startswith('core1.') else c.route}", must_compile=c.must_compile, cost=c.cost,
                                judged=True, meta=meta))
    # cap per owning property, spread evenly over its routes (quick 15, thorough 60 identities per property)
    # scalar indexing of ranks 1-4 with every in-range index tuple in both encodings (the assertion-carrying path of checked builds)
    from .C05 import shp, dims
    for t, sh in (("i32", (2, 3, 2, 3)), ("f64", (2, 3, 4)), ("f64", (3, 5))):
        cid = f"C05/elem[{t}|{shp(sh)}|op=all]"
        if "C05" in READY and cid not in ids:
            ids.add(cid)
            out.append(Case(cid, f"c05::elem<{CTYPE[t]},{dims(sh)}>(fx);", route="C05.fam.elem", cost=0.15, judged=True,
                            meta={"header": "c05.h", "owner": "C05x", "needs_cxx17": False}))
    cap = 8 if tier == "quick" else 25
    capped = [c for c in out if c.meta["owner"] == "C05x"]
    for pid in SOURCES:
        mine = sorted((c for c in out if c.meta["owner"] == pid), key=lambda c: (c.route, c.id))
        if pid == "C02":
            c1 = [c for c in mine if c.route.startswith("C02.core1.") and c.route.count(".") >= 3]
            capped += c1
            mine = [c for c in mine if c not in c1]
        if len(mine) > cap:
            step = len(mine) / float(cap)
            mine = [mine[int(i * step)] for i in range(cap)]
        capped += mine
    _corpus_cache[tier] = capped
    return capped


def cases(tier, cfg):
    out = []
    for c in corpus(tier):
        if c.meta.get("needs_cxx17") and cfg.std != "17":
            continue
        out.append(c)
    return out


def _vals(s):
    return [float(x) for x in s.split(",")] if s and s != "x" else None


def post(run):
    """cross-configuration judgement: compile outcome, verdict and dumped values per case identity"""
    by_case = {}
    for (tag, cid), r in run.results.items():
        by_case.setdefault(cid, []).append(r)
    stats = {"identities": len(by_case), "compared_pairs": 0, "consistent_reject": 0, "consistent_owner_failure": 0, "result_classes_max": 1, "value_cells_compared": 0, "ill_conditioned_cells_not_compared": 0}
    for cid, rs in by_case.items():
        rs = [r for r in rs if r.status != "not_run"]
        if len(rs) < 2:
            continue
        st = {r.status for r in rs}
        if st == {"compile_reject"}:
            stats["consistent_reject"] += 1
            for r in rs:
                r.status = "pass"; r.notes.append("rejected by the compiler in every configuration: owning property's business")
            continue
        if "compile_reject" in st:
            ok = [r for r in rs if r.status != "compile_reject"]
            for r in rs:
                if r.status == "compile_reject":
                    r.detail = f"accepted under {ok[0].cfg.tag} but rejected here: " + r.detail
            rs = ok      # the accepting configurations are still compared with each other
            st = {r.status for r in rs}
        if st == {"fail"}:
            h = {r.dumps.get("hash") for r in rs}
            first = {tuple(x.split(" | ")[-1] for x in r.records[:2]) for r in rs}
            if len(h) == 1 and len(first) == 1:
                stats["consistent_owner_failure"] += 1
                for r in rs:
                    r.status = "pass"; r.records = []; r.fails = 0
                    r.notes.append("fails the owning property's oracle identically in every configuration: reported there")
                continue
        # value comparison against the first passing configuration
        ref = next((r for r in rs if r.status == "pass"), None)
        if ref is None:
            continue
        classes = {}
        for r in rs:
            if r.status != "pass":
                continue
            stats["compared_pairs"] += 1
            seq_a, seq_b = ref.dumps.get("seq", []), r.dumps.get("seq", [])
            classes.setdefault((r.dumps.get("hash"), len(seq_b)), 0)
            if r is ref:
                continue
            if len(seq_a) != len(seq_b):
                r.status = "fail"; r.records.append(f"F 0 cross-config | {len(seq_b)} dumped evaluations here, {len(seq_a)} under {ref.cfg.tag}")
                continue
            bad = None
            for (na, ta, va, ba), (nb, tb, vb, bb) in zip(seq_a, seq_b):
                xa, xb = _vals(va), _vals(vb)
                ea, eb = _vals(ba), _vals(bb)
                if xa is None or xb is None or len(xa) != len(xb):
                    bad = f"shape of dumped result differs ({na})"; break
                for i, (p, q) in enumerate(zip(xa, xb)):
                    tol = (ea[i] if ea else 0.0) + (eb[i] if eb else 0.0)
                    if tol == float("inf"):
                        # the owning check measured this element as ill-conditioned on its data in at least one of the two configurations
                        # (C09: a value that moves by a quarter under +-16u input perturbations): no rounding bound exists for it
                        stats["ill_conditioned_cells_not_compared"] += 1
                        continue
                    stats["value_cells_compared"] += 1
                    if p != p and q != q:
                        continue
                    if not (abs(p - q) <= tol) and not (p == q):
                        bad = f"{na} elem {i}: {q!r} here vs {p!r} under {ref.cfg.tag} (allowed {tol!r})"; break
                if bad:
                    break
            if bad:
                r.status = "fail"; r.records.append("F 0 cross-config | " + bad)
        stats["result_classes_max"] = max(stats["result_classes_max"], len(classes))
    run.c06_stats = stats


def finalize(run, cov):
    cov["cross_config"] = getattr(run, "c06_stats", {})
    cov["corpus_by_owner"] = {}
    for c in corpus(run.tier):
        o = c.meta["owner"]
        cov["corpus_by_owner"][o] = cov["corpus_by_owner"].get(o, 0) + 1


def bounds(tier):
    return {"quick": "corpus = up to 8 identities per registered property spread over its dispatch routes (generated for W of SSE and of AVX-512) + every depth-1 element-wise tree of C02 for f32 and i32 (number on either side of each operator) + scalar indexing of ranks 2-4 with every in-range tuple in both encodings; 12 configurations: every ISA "
                     "under two optimisation levels with C++14/17, NDEBUG/debug/runtime-checks and g++/clang rotated over them, plus 8 documented macro settings",
            "thorough": "corpus = up to 25 identities per property (three per route); full grid ISA x {C++14,17} x {O0,O2,O3} (36) + 13 macro variations + clang on three ISAs + debug/runtime-check builds"}[tier]
