"""C02 - an evaluated expression equals the scalar operation applied element by element."""
from ..configs import Config, ALL_ISAS, MAIN3, CTYPE
from ..engine import Case

ID = "C02"
LEVEL = "exploration"
HEADER = "c02.h"
TU_BUDGET = 10.0
TECHNIQUE = ("bounded-exhaustive enumeration of expression trees x tensor sizes x element types x assignment forms x ISA builds; "
             "real evaluation vs the same tree over scalars at every element, boundary-value alphabet rotated through every lane and the tail")
LEVEL_TEXT = ("All expression trees up to the stated depth over the operator set are generated, instantiated for every size of the stated set and "
              "every element type, built under each ISA, and executed on a boundary-value alphabet rotated so that every value visits every "
              "vector lane and the scalar tail; every element of every result is compared bit-for-bit with the same tree evaluated by scalar C++ "
              "(elements whose scalar result is undefined - signed overflow, integer division by zero - are excluded), canary frame around the result.")
RULE = ("cases = (tree, element type, size/shape, assignment form); run-time points = (scalar operand c, rotation of the alphabet); evaluation = one "
        "assignment judged element-wise against the scalar tree; non-trivial = expected result differs from the destination's initial contents; "
        "distinct = distinct (case, point, expected) hashes")
ASSUMPTIONS = [
    "trivial_assign* owns the loop and talks to the tree through eval(i)/eval_s(i) only, so (every tree x four sizes) plus (every size x one tree per node kind x all forms) covers the product",
    "TUs are built with -ffp-contract=off so a*b+c is two roundings in the scalar reference and in the library's non-intrinsic code alike",
    "NaN payload/sign are not judged; the sign of zero is judged only for + - * neg abs sqrt; min/max are not judged on NaN or (+0,-0) pairs",
    "trees deeper than the bound are not claimed",
    "complex element types: ring operations on integer-valued data (exact); division/abs/sqrt/comparisons and `tensor op= complex scalar` (not offered by the API) are not generated",
]

MATH1 = ["cbrt", "exp", "exp2", "expm1", "log", "log10", "log2", "log1p", "sin", "cos", "tan", "asin", "acos", "atan", "sinh", "cosh", "tanh",
         "asinh", "acosh", "atanh", "erf", "tgamma", "lgamma", "ceil", "round", "floor", "trunc"]
MATH2 = ["pow", "atan2", "hypot"]
FORMS = {"ctor": 0, "assign": 1, "add": 2, "sub": 3, "mul": 4, "div": 5}
EXACT_SZ, EXACT, RCP2 = 0, 1, 3


class E:
    """expression: tensor spelling, scalar spelling, flags"""
    __slots__ = ("t", "s", "fl", "boolean", "szero", "depth", "kinds")

    def __init__(self, t, s, fl=False, boolean=False, szero=True, depth=0, kinds=()):
        self.t, self.s, self.fl, self.boolean, self.szero, self.depth, self.kinds = t, s, fl, boolean, szero, depth, frozenset(kinds)


A = E("a", "x")
B = E("b", "y")
C = E("c", "c")


def un(op, e):
    k = e.kinds | {op}
    if op == "neg":
        return E(f"(-{e.t})", f"O::neg({e.s},s)", e.fl, False, e.szero, e.depth + 1, k)
    if op == "pos":
        return E(f"(+{e.t})", e.s, e.fl, False, e.szero, e.depth + 1, k)
    if op == "abs":
        return E(f"abs({e.t})", f"O::abs({e.s},s)", e.fl, False, e.szero, e.depth + 1, k)
    if op == "sqrt":
        return E(f"sqrt({e.t})", f"O::sqrt({e.s},s)", True, False, e.szero, e.depth + 1, k)
    if op in MATH1:
        return E(f"{op}({e.t})", f"std::{op}({e.s})", True, False, False, e.depth + 1, k)
    if op in ("isinf", "isnan", "isfinite"):
        return E(f"{op}({e.t})", f"(bool)std::{op}({e.s})", True, True, False, e.depth + 1, k)
    if op == "not":
        return E(f"(!{e.t})", f"(!{e.s})", e.fl, True, False, e.depth + 1, k)
    raise ValueError(op)


ARITH = {"+": "add", "-": "sub", "*": "mul", "/": "div"}


def bi(op, l, r):
    d = max(l.depth, r.depth) + 1
    fl = l.fl or r.fl
    kind = op + ("Ts" if r is C else "sT" if l is C else "TT")
    k = l.kinds | r.kinds | {kind}
    if op in ARITH:
        return E(f"({l.t} {op} {r.t})", f"O::{ARITH[op]}({l.s},{r.s},s)", fl, False, l.szero and r.szero, d, k)
    if op in ("min", "max"):
        return E(f"{op}({l.t},{r.t})", f"O::{op}({l.s},{r.s},s)", fl, False, False, d, k)
    if op in MATH2:
        return E(f"{op}({l.t},{r.t})", f"std::{op}({l.s},{r.s})", True, False, False, d, k)
    if op in ("<", ">", "<=", ">=", "==", "!="):
        return E(f"({l.t} {op} {r.t})", f"({l.s} {op} {r.s})", fl, True, False, d, k)
    if op in ("&&", "||"):
        return E(f"({l.t} {op} {r.t})", f"({l.s} {op} {r.s})", fl, True, False, d, k)
    raise ValueError(op)


def trees(tier):
    """returns list of (E, group) ; group 'core1','core2','core3','math','cmp'"""
    out = []
    d1 = [un(u, A) for u in ("neg", "pos", "abs", "sqrt")]
    for op in "+-*/":
        d1 += [bi(op, A, B), bi(op, A, C), bi(op, C, A)]
    out += [(e, "core1") for e in d1]
    # depth 2
    d2 = []
    ured = ("neg", "abs") if tier == "quick" else ("neg", "abs", "sqrt")
    for e in d1:
        if e.t.startswith("(+"):
            continue
        for u in ured:
            d2.append(un(u, e))
        ops2 = "+*" if tier == "quick" else "+-*/"
        for op in ops2:
            d2.append(bi(op, e, B))
            d2.append(bi(op, e, C))
            if tier == "thorough" or op == "*":
                d2.append(bi(op, B, e))
                d2.append(bi(op, C, e))
    if tier == "quick":
        # keep the quick set small: one representative per (outer node kind, inner node kind)
        seen, keep = set(), []
        for e in d2:
            key = (e.t[:2], tuple(sorted(e.kinds)))
            if key not in seen:
                seen.add(key); keep.append(e)
        d2 = keep
    out += [(e, "core2") for e in d2]
    # depth 3 over the reduced node set
    if tier == "thorough":
        red = [e for e in d2 if e.kinds <= {"neg", "abs", "+TT", "*TT", "+Ts", "*Ts", "*sT", "/Ts", "-TT"}]
        d3 = []
        for e in red:
            d3 += [un("neg", e), un("abs", e), bi("+", e, B), bi("*", e, C), bi("*", B, e), bi("/", e, C)]
        out += [(e, "core3") for e in d3[::2]]
    else:
        e2 = bi("*", un("neg", bi("+", A, B)), C)
        out += [(un("abs", e2), "core3"), (bi("+", e2, B), "core3")]
    # math functions
    for f in MATH1:
        out.append((un(f, A), "math"))
        if tier == "thorough":
            out.append((un(f, bi("+", A, B)), "math"))
            out.append((bi("*", un(f, A), B), "math"))
            out.append((un("neg", un(f, A)), "math"))
    for f in MATH2 + ["min", "max"]:
        out.append((bi(f, A, B), "math"))
        if tier == "thorough":
            out.append((bi(f, bi("+", A, C), B), "math"))
    # comparisons / logical / classification
    cmps = []
    for op in ("<", ">", "<=", ">=", "==", "!="):
        cmps.append(bi(op, A, B))
        if tier == "thorough":
            cmps.append(bi(op, bi("+", A, B), un("neg", B)))
    out += [(e, "cmp") for e in cmps]
    out += [(bi("&&", cmps[0], bi(">", A, un("neg", B))), "cmp"), (bi("||", cmps[0], bi("==", A, B)), "cmp"), (un("not", cmps[0]), "cmp")]
    for f in ("isinf", "isnan", "isfinite"):
        out.append((un(f, A), "cmp"))
    return out


def configs(tier):
    if tier == "quick":
        return [Config(isa=i) for i in ("S2", "A2", "A5")] + [Config(isa="S0"), Config(isa="A1"), Config(isa="S4")]
    cfgs = [Config(isa=i) for i in ALL_ISAS]
    cfgs += [Config(isa="A5", std="17"), Config(isa="S2", opt="O0"), Config(isa="A5", opt="O3"), Config(isa="S2", opt="O3"),
             Config(isa="S2", cxx="clang++"), Config(isa="A5", cxx="clang++")]
    return cfgs


def _case(t, dims, form, e, group, dest=None):
    ct = CTYPE[t]
    if dest == "map":
        # the same statement written through a TensorMap over the destination's storage (maps store with the unaligned instructions)
        tt = f"Tensor<{ct},{','.join(map(str, dims))}>"
        mt = f"TensorMap<{ct},{','.join(map(str, dims))}>"
        body = (f"struct K {{ using T = {ct}; using TT = Fastor::{tt}; using RT = Fastor::{tt}; "
                f"static FX_NOINLINE void call(const TT& a, const TT& b, T c, RT& r) {{ using namespace Fastor; {mt} m(r.data()); c02::assign(c02::FT<{FORMS[form]}>(), m, {e.t}); }} "
                f"static {ct} ref(T x, T y, T c, bool& s) {{ using O = c02::ops<T>; return ({ct})({e.s}); }} }}; "
                f"c02::run<K>(fx, {FORMS[form]}, {EXACT});")
        shape = "x".join(map(str, dims))
        return Case(f"C02/expr[{t}|shape={shape}|form={form}|dest=map|tree={e.t}]", body, route=f"map.{form}", cost=0.25)
    tt = f"Tensor<{ct},{','.join(map(str, dims))}>"
    rt = f"Tensor<bool,{','.join(map(str, dims))}>" if e.boolean else tt
    rs = "bool" if e.boolean else ct
    cls = EXACT_SZ if (e.szero and not e.boolean and form in ("ctor", "assign", "add", "sub", "mul")) else EXACT
    body = (f"struct K {{ using T = {ct}; using TT = Fastor::{tt}; using RT = Fastor::{rt}; "
            f"static FX_NOINLINE void call(const TT& a, const TT& b, T c, RT& r) {{ using namespace Fastor; c02::assign(c02::FT<{FORMS[form]}>(), r, {e.t}); }} "
            f"static {rs} ref(T x, T y, T c, bool& s) {{ using O = c02::ops<T>; return ({rs})({e.s}); }} }}; "
            f"c02::run<K>(fx, {FORMS[form]}, {cls});")
    shape = "x".join(map(str, dims))
    return Case(f"C02/expr[{t}|shape={shape}|form={form}|tree={e.t}]", body, route=f"{group}.{form}", cost=0.22 + 0.05 * e.depth)


def cases(tier, cfg):
    out = []
    base = cfg.tag in [Config(isa=i).tag for i in ALL_ISAS]
    main = cfg.isa in MAIN3
    if tier == "quick":
        types = ["f32", "f64", "i32", "i64"] if main else (["i32", "i64", "f32"] if cfg.isa != "S0" else ["f32", "i32"])
    else:
        types = ["f32", "f64", "i32", "i64"] if base else ["f32", "i64", "i32"]
    tl = trees(tier)
    if base and (main or tier == "thorough" or cfg.isa == "S0"):
        # (S0: the scalar-ABI complex vector is a type of its own)
        types = types + (["c64"] if tier == "quick" else ["c64", "c32"])
    for t in types:
        W = cfg.w(t)
        isint = t in ("i32", "i64")
        sizes = sorted({1, W, W + 1, 2 * W + 3})
        if tier == "quick":
            sizes = sorted({1, W + 1, 2 * W + 3}) if main else [2 * W + 3]
        if not base:
            sizes = [2 * W + 3]
        cplx = t in ("c32", "c64")
        for e, group in tl:
            if isint and e.fl:
                continue
            if cplx and (group not in ("core1", "core2") or e.fl or e.boolean or e.kinds & {"abs", "sqrt", "/TT", "/Ts", "/sT"}):
                continue     # complex: the ring operations only (division and abs are not lane-exact by construction)
            if tier == "quick" and not main and group in ("math", "cmp", "core3") and not e.t.startswith(("min(", "max(")):
                continue
            if tier == "quick" and t in ("f64", "i64") and group not in ("core1", "cmp") and not e.t.startswith(("min(", "max(")):
                continue      # (min/max have their own specialisation per vector type: kept for every type)
            if not base and group == "math":
                continue
            ss = sizes
            if group in ("math", "cmp") and tier == "quick":
                ss = [2 * W + 3]
            elif group == "math":
                ss = [W + 1, 2 * W + 3] if main else [2 * W + 3]
            for n in ss:
                out.append(_case(t, (n,), "assign" if not (group == "core1" and n == 2 * W + 3) else "ctor", e, group))
        # size sweep: one tree per node kind x forms
        reps = [bi("+", A, B), bi("*", A, C), un("neg", A), bi("-", C, A), un("abs", bi("*", A, B)), bi("/", A, B)]
        if cplx:
            reps = [bi("+", A, B), bi("*", A, C), un("neg", A), bi("-", C, A), bi("*", A, B)]
        if not isint and not cplx:
            reps.append(un("sqrt", A))
        sweep = list(range(1, 2 * W + 2)) + [3 * W]
        if tier == "quick":
            sweep = sorted({1, 2, 3, W - 1, W, W + 1, 2 * W - 1, 2 * W, 2 * W + 1, 3 * W} - {0}) if main else []
            if t in ("f64", "i64"):
                sweep = sorted({1, W - 1, W, W + 1, 2 * W + 1} - {0}) if main else []
        if not base:
            sweep = []
        for n in sweep:
            for ri, e in enumerate(reps):
                forms = ("assign", "add", "sub", "mul", "div", "ctor")
                if tier == "quick":
                    forms = ("add", "mul") if ri % 2 == 0 else ("sub", "div")
                for f in forms:
                    if f == "div" and (e.t.startswith("(a / b)") or cplx):
                        continue
                    out.append(_case(t, (n,), f, e, "sweep"))
        # r op= scalar and r = scalar (scalar assignment forms), and 2-D / 3-D shapes with the same element count
        if base and (main or tier == "thorough"):
            for n in sorted({1, W, W + 1, 2 * W + 3}):
                for f in ("assign", "add", "sub", "mul", "div"):
                    if cplx and f != "assign":
                        continue   # Tensor::operator op=(U) is offered for arithmetic U only: not part of the API for complex scalars
                    ct = CTYPE[t]
                    sc = {"assign": "c", "add": "O::add(r0v,c,s)", "sub": "O::sub(r0v,c,s)", "mul": "O::mul(r0v,c,s)", "div": "O::div(r0v,c,s)"}[f]
                    op = {"assign": "=", "add": "+=", "sub": "-=", "mul": "*=", "div": "/="}[f]
                    # the destination's previous value enters through Combine; here ref returns the scalar itself
                    cls = RCP2 if (f == "div" and not isint) else EXACT_SZ
                    body = (f"struct K {{ using T = {ct}; using TT = Fastor::Tensor<{ct},{n}>; using RT = TT; "
                            f"static FX_NOINLINE void call(const TT& a, const TT& b, T c, RT& r) {{ r {op} c; }} "
                            f"static T ref(T x, T y, T c, bool& s) {{ return c; }} }}; c02::run<K>(fx, {FORMS[f]}, {cls});")
                    out.append(Case(f"C02/scalar_assign[{t}|shape={n}|form={f}]", body, route=f"scalar.{f}", cost=0.15))
            # the same with a number of another arithmetic type (the operand-type axis: unsigned and wider / narrower scalars)
            if not cplx:
                utypes = [("int", "int"), ("unsigned", "unsigned"), ("size_t", "usize")] + ([("double", "double")] if t == "f32" else []) + \
                         ([("float", "float")] if t == "f64" else []) + ([("long long", "llong")] if t in ("i32", "f64") else [])
                for n in sorted({1, W + 1, 2 * W + 3}):
                    for (U, uname) in utypes:
                        for f in ("assign", "add", "sub", "mul", "div"):
                            if tier == "quick" and n != W + 1 and not (f == "sub" and n == 2 * W + 3):
                                continue
                            lit = "4" if f == "div" else "3"
                            op = {"assign": "=", "add": "+=", "sub": "-=", "mul": "*=", "div": "/="}[f]
                            cls = EXACT_SZ       # the divisor is a power of two: multiplying by its reciprocal is exact as well
                            ct = CTYPE[t]
                            body = (f"struct K {{ using T = {ct}; using TT = Fastor::Tensor<{ct},{n}>; using RT = TT; "
                                    f"static FX_NOINLINE void call(const TT& a, const TT& b, T c, RT& r) {{ {U} u = ({U}){lit}; fx::escape(&u); r {op} u; }} "
                                    f"static T ref(T x, T y, T c, bool& s) {{ return (T){lit}; }} }}; c02::run<K>(fx, {FORMS[f]}, {cls});")
                            out.append(Case(f"C02/scalar_assign[{t}|shape={n}|form={f}|scalar={uname}]", body, route=f"scalar.{f}.{uname}", cost=0.15))
            # destination = a TensorMap over the result's storage
            for n in sorted({W + 1, 2 * W + 3}):
                for me in (bi("+", A, B), bi("*", A, C), un("neg", A), bi("-", C, A)):
                    for f in ("assign", "add"):
                        out.append(_case(t, (n,), f, me, "map", dest="map"))
            e = bi("*", bi("+", A, B), C)
            for dims in ((2, W + 1), (W + 1, 2), (3, 1, W), (2, 2, W + 1)):
                for f in ("assign", "add"):
                    out.append(_case(t, dims, f, e, "ndshape"))
    # de-duplicate identities (the same tree can be generated twice by the rules above)
    seen, uniq = set(), []
    for c in out:
        if c.id not in seen:
            seen.add(c.id); uniq.append(c)
    return uniq


def bounds(tier):
    return {"quick": "depth<=1 all trees, depth 2 one per (outer,inner) node-kind pair, two depth-3 trees, 27+5 math functions at depth 1, comparisons/logical/"
                     "classification; sizes {1,W+1,2W+3}; size sweep {1,2,3,W-1..W+1,2W-1..2W+1,3W} x 6-7 node kinds x 2 forms; types f32,f64,i32,i64; S2,A2,A5 full, S0/S4/A1 reduced",
            "thorough": "all trees depth<=2 over {neg,abs,sqrt,+,-,*,/ in TT,Ts,sT kinds}, every second depth-3 tree over the reduced node set, math functions at depth 1-2, "
                        "sizes {1,W,W+1,2W+3}; size sweep 1..2W+1,3W x node kinds x six forms; six ISAs + C++17, O0, O3, clang"}[tier]
