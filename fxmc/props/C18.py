"""C18 - overlapping slice assignment with noalias() acts on a snapshot of the source (model checking)."""
from ..configs import Config, ALL_ISAS, CTYPE
from ..engine import Case

ID = "C18"
LEVEL = "model_checking"
HEADER = "c18.h"
TU_BUDGET = 9.0
RUN_TIMEOUT_S = 900
VEC = "FASTOR_USE_VECTORISED_EXPR_ASSIGN"
OPN = ["assign", "add", "sub", "mul", "div"]
FN = ["id", "p1", "x2", "sum"]          # f(x[,y]) = x | x+1 | 2*x | x+y

TECHNIQUE = ("explicit-state model checking of the statement A(r1)[.noalias()] op= f(A(r2)[,A(r3)]): depth-1 exhaustive enumeration of the "
             "range-pair / index-vector / mask alphabet plus depth<=3 BFS with contents hashing over retained view objects, every "
             "transition executed on the real library and compared with a snapshot reference")
LEVEL_TEXT = ("State = contents of one tensor A + the one-shot noalias flag of a retained view object. Depth 1: every statement of the "
              "stated alphabet (all pairs of equal-extent ranges per axis for run-time seq views, a generated family for compile-time fseq "
              "views, every duplicate-free destination x every source index vector of length <=4, every mask over 10 positions) is executed "
              "from fixed initial contents. Depth 2-3: BFS on integer data from retained views (history replayed on a freshly constructed "
              "view, states merged by contents hash). With noalias() the result must equal the reference applied to a snapshot; without it "
              "the same is demanded only when every source slice coincides with (or is disjoint from) the destination; plain partial "
              "overlaps are executed and become successor states but are not judged.")
RULE = ("one evaluation = one judged statement executed on the real library (whole tensor compared element-wise with the snapshot reference "
        "+ canary frame); transition = one executed statement (judged or not); state = distinct (root, tensor contents) reached; non-trivial = "
        "expected contents differ from the contents before the statement; cases = (element type, view kind, shape, operator, f) for run-time "
        "views and one per (range pair, operator, f) for compile-time views, each under every configuration")
ASSUMPTIONS = [
    "the traversal of a view assignment depends on ranges, extents, vector width and the flag, never on element values, so two fixed "
    "initial contents with pairwise distinct elements expose every read-after-write hazard",
    "reference: E = snapshot; E[dst[k]] = op(snapshot[dst[k]], f(snapshot[src[k]], snapshot[src2[k]])), plain loops in the element type",
    "statements whose scalar evaluation would overflow or divide by zero (in the snapshot semantics for judged statements, in any "
    "evaluation order for unjudged ones) are excluded by an exact guard and counted under excluded.*",
    "plain (no noalias) statements with partial overlap are outside the property: executed, classified (snapshot-like / in-place-like), not judged",
    "BFS (depth 2-3) uses integer element types only; floating types are checked at depth 1",
]


def configs(tier):
    if tier == "quick":
        return [Config(isa=i) for i in ("S2", "A2", "A5")] + [Config(isa="A2", defs=(VEC,))]
    cfgs = [Config(isa=i) for i in ALL_ISAS]
    cfgs += [Config(isa=i, defs=(VEC,)) for i in ("S2", "A2", "A5")]
    cfgs += [Config(isa=i, san=True, opt="O1") for i in ("A2", "A5")]
    return cfgs


# -------------------------------------------------------------------------------------------------------------------
# run-time (seq / index / mask) kinds
# -------------------------------------------------------------------------------------------------------------------
def _job(ct, K, kind, rank, dims, entries):
    d = ",".join(str(x) for x in dims)
    s = f'auto j = c18::job_of<{ct},{K}>("{kind}",{rank},{d});'
    for (op, f, lit) in entries:
        s += f" j.{'lit' if lit else 'ap'}[{op}][{f}] = &c18::th<{K},{op},{f},{lit}>;"
    return s


def _shapes(W):
    return {1: (2 * W + 4,), 2: (3, W + 3), 3: (2, 3, W + 2)}


def _seq_cases(tier, cfg, t, out):
    W, ct, san = cfg.w(t), CTYPE[t], cfg.san
    base = cfg.tag in [Config(isa=i).tag for i in ALL_ISAS]
    for rank, dims in _shapes(W).items():
        tpl = ",".join(str(x) for x in dims)
        K = f"c18::KSeq{rank}<{ct},{tpl}>"
        dn = ",".join(f"{n}={v}" for n, v in zip(("N",) if rank == 1 else ("M", "N") if rank == 2 else ("L", "M", "N"), dims))
        # per-axis step bound and thinning of the outer axes' pair lists
        if tier == "quick":
            smax, thin = {1: (3, 1, 1), 2: (2, 2, 1), 3: (1, 2, 2)}[rank], {1: 1, 2: 1, 3: 2}[rank]
        else:
            smax, thin = {1: (99, 1, 1), 2: (2, 99, 1), 3: (1, 2, 3)}[rank], 1
            if san or not base:
                smax, thin = {1: (4, 1, 1), 2: (2, 3, 1), 3: (1, 2, 2)}[rank], {1: 1, 2: 1, 3: 2}[rank]
        for op in range(5):
            for f in range(4):
                lit = (tier == "thorough" and base) or (op in (0, 1) and f in (0, 3))
                ent = [(op, f, 0)] + ([(op, f, 1)] if lit else [])
                body = _job(ct, K, f"seq{rank}d", rank, dims, ent) + f" c18::run_seq<{ct}>(fx,j,{op},{f},{smax[0]},{smax[1]},{smax[2]},{thin});"
                out.append(Case(f"C18/seq{rank}d[{t}|{dn},op={OPN[op]},f={FN[f]}]", body, route=f"seq{rank}d.{OPN[op]}.{FN[f]}",
                                cost=(0.45 + 0.2 * len(ent) + 0.1 * rank) * (2.7 if san else 1)))
        if t in ("i32", "i64"):
            ops = (0, 1, 3, 4) if tier == "quick" else (0, 1, 2, 3, 4)
            fs = (0, 3)
            ent = [(op, f, 0) for op in ops for f in fs]
            om, fm = sum(1 << o for o in ops), sum(1 << f for f in fs)
            body = _job(ct, K, f"bfs_seq{rank}d", rank, dims, ent) + f" c18::run_bfs_seq<{ct}>(fx,j,{W},3,{om},{fm},{4 if tier == 'quick' else 5});"
            out.append(Case(f"C18/bfs_seq{rank}d[{t}|{dn}]", body, route=f"bfs.seq{rank}d", cost=1.5 * (2.7 if san else 1)))


def _idx_cases(tier, cfg, t, out):
    W, ct, san = cfg.w(t), CTYPE[t], cfg.san
    full = t in ("i32", "f64")
    mult = 2.7 if san else 1
    NI = 6
    for K in (1, 2, 3, 4):
        if not full and K != 4:
            continue
        Kk = f"c18::KIdx1<{ct},{NI},{K}>"
        for op in range(5):
            for f in range(4):
                if K < 4 and f not in (0, 3):
                    continue
                lit = op in (0, 1) and f in (0, 3) and K == 4
                ent = [(op, f, 0)] + ([(op, f, 1)] if lit else [])
                body = _job(ct, Kk, "idx1d", 1, (NI,), ent) + f" c18::run_idx1<{ct}>(fx,j,{op},{f},{K},1);"
                out.append(Case(f"C18/idx1d[{t}|N={NI},K={K},op={OPN[op]},f={FN[f]}]", body, route=f"idx1d.K{K}.{OPN[op]}", cost=(0.4 + 0.15 * len(ent)) * mult))
    # long index vectors (a full vector body + remainder) from the structured family
    N, K = 2 * W + 4, W + 1
    if K > 4:
        Kk = f"c18::KIdx1<{ct},{N},{K}>"
        for op in range(5):
            for f in range(4):
                body = _job(ct, Kk, "idx1d_long", 1, (N,), [(op, f, 0)]) + f" c18::run_idx1<{ct}>(fx,j,{op},{f},{K},0);"
                out.append(Case(f"C18/idx1d_long[{t}|N={N},K={K},op={OPN[op]},f={FN[f]}]", body, route=f"idx1d.long.{OPN[op]}", cost=0.5 * mult))
    if full:
        Kk = f"c18::KIdx2<{ct},3,4,2,2>"
        for op in range(5):
            for f in (0, 3):
                body = _job(ct, Kk, "idx2d", 2, (3, 4), [(op, f, 0)]) + f" c18::run_idx2<{ct}>(fx,j,{op},{f},2,2);"
                out.append(Case(f"C18/idx2d[{t}|M=3,N=4,K0=2,K1=2,op={OPN[op]},f={FN[f]}]", body, route=f"idx2d.{OPN[op]}", cost=0.6 * mult))
    if t == "i32":
        Kk = f"c18::KIdx1<{ct},{NI},4>"
        ops, fs = (0, 1, 3, 4), (0, 3)
        ent = [(op, f, 0) for op in ops for f in fs]
        body = _job(ct, Kk, "bfs_idx1d", 1, (NI,), ent) + f" c18::run_bfs_idx1<{ct}>(fx,j,4,3,{sum(1 << o for o in ops)},{sum(1 << f for f in fs)});"
        out.append(Case(f"C18/bfs_idx1d[{t}|N={NI},K=4]", body, route="bfs.idx1d", cost=1.2 * mult))


def _mask_cases(tier, cfg, t, out):
    ct, san = CTYPE[t], cfg.san
    N = 10
    Kk = f"c18::KMask1<{ct},{N}>"
    mult = 2.7 if san else 1
    for op in range(5):
        for f in range(4):
            if tier == "quick" and t in ("f32", "i64") and f in (1, 2):
                continue
            for na in (1, 0):
                # noalias() on a mask view has its own identity: the flag is never consulted by tensor_filter_views.h
                nm = "mask1d_noalias" if na else "mask1d_plain"
                body = _job(ct, Kk, nm, 1, (N,), [(op, f, 0), (op, f, 1)]) + f" c18::run_mask1<{ct}>(fx,j,{op},{f},{na});"
                out.append(Case(f"C18/{nm}[{t}|N={N},op={OPN[op]},f={FN[f]}]", body, route=f"{nm}.{OPN[op]}", cost=(0.35 if na else 0.1) * mult))
    if t == "i32":
        ops, fs = (0, 1, 3, 4), (0, 3)
        ent = [(op, f, 0) for op in ops for f in fs]
        body = _job(ct, Kk, "mask1d_noalias_bfs", 1, (N,), ent) + f" c18::run_bfs_mask1<{ct}>(fx,j,3,{sum(1 << o for o in ops)},{sum(1 << f for f in fs)});"
        out.append(Case(f"C18/mask1d_noalias_bfs[{t}|N={N}]", body, route="bfs.mask1d", cost=1.0 * mult))


# -------------------------------------------------------------------------------------------------------------------
# compile-time (fseq) family: abstract ranges are (first, step, count); spelled as fseq<F,L,S> with tight / loose `last`
# -------------------------------------------------------------------------------------------------------------------
def _span(r):
    return (r[2] - 1) * r[1] + 1


def _axis_pairs(N, W, level):
    """pairs (dst, src) of equal-count ranges on one axis of extent N: shifted by every listed offset, same / interleaved strides,
    perfect and partial overlap, disjoint-adjacent.  Returns [(dst, src)] ; level 1 = small family, 2 = large family"""
    if level <= 1:
        ns, strides, shifts = {2, W + 1}, [(1, 1), (2, 2), (1, 2)], [0, 1, -1, 2, -2, W, "dj"]
    else:
        ns, strides, shifts = {1, 2, 3, W - 1, W, W + 1, 2 * W - 1}, [(1, 1), (2, 2), (1, 2), (2, 1), (3, 1), (3, 3)], [0, 1, -1, 2, -2, W, -W, "dj", "djb"]
    out, seen = [], set()
    for n in sorted(x for x in ns if x >= 1):
        for (s1, s2) in strides:
            if n == 1 and (s1, s2) != (1, 1):
                continue
            sp1, sp2 = (n - 1) * s1 + 1, (n - 1) * s2 + 1
            if sp1 > N - 1 or sp2 > N:
                continue
            f1 = min(2, N - sp1)
            for sh in shifts:
                f2 = f1 + sp1 if sh == "dj" else f1 - sp2 if sh == "djb" else f1 + sh
                if f2 < 0 or f2 + sp2 > N:
                    continue
                key = (f1, s1, n, f2, s2)
                if key in seen:
                    continue
                seen.add(key)
                out.append(((f1, s1, n), (f2, s2, n)))
    return out


def _third(src, dst, N):
    f, s, n = src
    if f + 1 + _span(src) - 1 < N:
        return (f + 1, s, n)
    if f > 0:
        return (f - 1, s, n)
    return dst


def _family(rank, dims, W, level):
    """[(dst, src, src2, cls)] with dst/src/src2 lists of per-axis abstract ranges (first, step, count);
    cls 2 = core pair (every (op,f)), 1 = semi-core (every op once), 0 = ordinary (one or two (op,f) by rotation).
    level 0 = core pairs only, 1 = small family, 2 = large family"""
    fam = []
    la = rank - 1
    NL = dims[la]
    nc = W + 1 if rank < 3 else W            # extent of the core pair along the last axis
    core_d, core_s = (2 if rank == 1 else 1, 1, nc), (1 if rank == 1 else 0, 1, nc)       # destination one element after the source
    full = lambda ax: (0, 1, dims[ax])
    outer_full = [full(a) for a in range(la)]
    fam.append((outer_full + [core_d], outer_full + [core_s], outer_full + [_third(core_s, core_d, NL)], 2))
    if level == 0:
        return fam
    last = _axis_pairs(NL, W, level)
    if rank == 1:
        for i, (d, s) in enumerate(last):
            if (d, s) == (core_d, core_s):
                continue
            semi = d[2] == W + 1 and ((d[1], s[1]) == (1, 1) and s[0] - d[0] == 1 or (d[1], s[1]) == (2, 2) and s[0] - d[0] == -2)
            if level == 2 and not semi and d[2] not in (2, W + 1) and i % 2:
                continue
            fam.append(([d], [s], [_third(s, d, NL)], 1 if semi else 0))
        return fam
    if rank == 2:
        rows = [(full(0), full(0)), ((1, 1, 2), (0, 1, 2)), ((1, 1, 1), (0, 1, 1)), ((0, 2, 2), (0, 2, 2)), ((0, 1, 1), (2, 1, 1))]
        for ri, (rd, rs) in enumerate(rows):
            for ci, (d, s) in enumerate(last):
                if ri == 0 and (d, s) == (core_d, core_s):
                    continue
                vert = ri == 1 and d == s and d[1] == 1 and d[2] == W + 1          # the slice moved down by one row
                keep = vert or (ri == 0 and ci % (2 if level == 1 else 1) == 0) or (ri > 0 and ci % (7 if level == 1 else 3) == ri)
                if keep:
                    fam.append(([rd, d], [rs, s], [rs, _third(s, d, NL)], 1 if vert else 0))
        return fam
    outer0 = [(full(0), full(0)), ((1, 1, 1), (0, 1, 1))]
    outer1 = [(full(1), full(1)), ((1, 1, 2), (0, 1, 2)), ((0, 2, 2), (0, 2, 2))]
    k = 0
    for i0, (a0d, a0s) in enumerate(outer0):
        for i1, (a1d, a1s) in enumerate(outer1):
            for ci, (d, s) in enumerate(last):
                if i0 == 0 and i1 == 0 and (d, s) == (core_d, core_s):
                    continue
                shift_outer = (i0 + i1 == 1) and i1 < 2 and d == s and d[1] == 1 and d[2] == W + 1     # moved along an outer axis only
                k += 1
                keep = shift_outer or (i0 == 0 and i1 == 0 and ci % (3 if level == 1 else 1) == 0) or (i0 + i1 > 0 and k % (11 if level == 1 else 4) == 0)
                if keep:
                    fam.append(([a0d, a1d, d], [a0s, a1s, s], [a0s, a1s, _third(s, d, NL)], 1 if shift_outer else 0))
    return fam


def _spell(r, N, loose):
    f, s, n = r
    tight = f + (n - 1) * s + 1
    L = min(N, f + n * s) if loose else tight
    return (f, L, s)


def _fseq_cases(tier, cfg, t, out):
    W, ct, san = cfg.w(t), CTYPE[t], cfg.san
    base = cfg.tag in [Config(isa=i).tag for i in ALL_ISAS]
    mult = 2.7 if san else 1
    rich = t in ("i32", "f64")
    if tier == "quick" or not base:
        level = 1 if rich else 0
    else:
        level = 2 if rich else 1
    for rank, dims in _shapes(W).items():
        fam = _family(rank, dims, W, level)
        tpl = ",".join(str(x) for x in dims)
        dn = ",".join(f"{n}={v}" for n, v in zip(("N",) if rank == 1 else ("M", "N") if rank == 2 else ("L", "M", "N"), dims))
        groups = {}
        for i, (dst, src, src2, cls) in enumerate(fam):
            sd = [_spell(r, dims[a], False) for a, r in enumerate(dst)]            # destination always tight: one view type per group
            ss = [_spell(r, dims[a], (i + a) % 2 == 1) for a, r in enumerate(src)]
            s3 = [_spell(r, dims[a], (i + a) % 2 == 0) for a, r in enumerate(src2)]
            if cls == 2:
                combos = [(op, f) for op in range(5) for f in ((0, 1, 2, 3) if level > 0 else (0, 3))]
            elif cls == 1:
                combos = [(op, (op + i) % 4) for op in range(5)]
            else:
                nc = 1 if level == 1 else 2
                combos = sorted({((i * 7 + 3 + 9 * k) % 20) for k in range(nc)})
                combos = [(c // 4, c % 4) for c in combos]
            groups.setdefault(tuple(sd), []).append((sd, ss, s3, combos, cls))
        for sd, items in groups.items():
            fs = lambda rr: ",".join(f"c18::FS<{a},{b},{c}>" for (a, b, c) in rr)
            txt = lambda rr: "x".join(f"{a}:{b}:{c}" for (a, b, c) in rr)
            hist = []
            for (sd_, ss, s3, combos, cls) in items:
                for ci, (op, f) in enumerate(combos):
                    s3_eff = s3 if f == 3 else ss
                    K = f"c18::KFseq{rank}<{ct},{tpl},{fs(sd_)},{fs(ss)},{fs(s3_eff)}>"
                    ident = f"{t}|{dn},dst={txt(sd_)},src={txt(ss)}" + (f",src2={txt(s3_eff)}" if f == 3 else "") + f",op={OPN[op]},f={FN[f]}"
                    setup = f"c18::Args g; memset(&g,0,sizeof g); {K}::ranges(g);"
                    lit = 1 if (cls == 2 and f in (0, 3)) or (cls < 2 and ci == 0 and tier == "thorough" and base) else 0
                    for na in (1, 0):
                        nm = f"fseq{rank}d_{'noalias' if na else 'plain'}"
                        ent = [(op, f, 0)] + ([(op, f, 1)] if lit else [])
                        body = _job(ct, K, nm, rank, dims, ent) + f" {setup} c18::run_fixed<{ct}>(fx,j,g,{op},{f},{na});"
                        out.append(Case(f"C18/{nm}[{ident}]", body, route=f"{nm}.{OPN[op]}", cost=((0.3 + 0.12 * lit + 0.05 * rank) if na else 0.03) * mult))
                    if len(hist) < 12:
                        hist.append((K, op, f))
            if t in ("i32", "i64") and hist:
                K0 = hist[0][0]
                nm = f"fseq{rank}d_noalias_hist"
                body = f'auto j = c18::job_of<{ct},{K0}>("{nm}",{rank},{",".join(str(x) for x in dims)}); c18::Drv<{ct}> d(fx,j,16); c18::FixedAlphabet<{ct}> fa;'
                for (K, op, f) in hist:
                    body += f" c18::add_fixed<{ct},{K},{op},{f}>(fa,d);"
                body += f" c18::run_bfs_fixed<{ct}>(fx,d,fa,{3 if len(hist) <= 8 else 2});"
                out.append(Case(f"C18/{nm}[{t}|{dn},dst={txt(sd)},k={len(hist)}]", body, route=f"bfs.fseq{rank}d", cost=0.15 * mult))


def cases(tier, cfg):
    out = []
    for t in ("i32", "f64", "f32", "i64"):
        _seq_cases(tier, cfg, t, out)
        _idx_cases(tier, cfg, t, out)
        _mask_cases(tier, cfg, t, out)
        _fseq_cases(tier, cfg, t, out)
    return out


def expected_routes(tier):
    r = [f"seq{k}d.judged.noalias_hazardous" for k in (1, 2, 3)] + [f"seq{k}d.unjudged.partial_overlap" for k in (1, 2, 3)]
    r += ["idx1d.judged.noalias_hazardous", "mask1d_noalias.judged.noalias_hazardous", "bfs.seq1d", "bfs.seq2d", "bfs.seq3d", "bfs.idx1d",
          "fseq1d_noalias.judged.noalias_hazardous", "fseq2d_noalias.judged.noalias_hazardous", "fseq3d_noalias.judged.noalias_hazardous"]
    return r


def bounds(tier):
    common = ("tensor A: rank 1 N=2W+4, rank 2 (3,W+3), rank 3 (2,3,W+2), W = native vector width of the element type; ops =,+=,-=,*=,/= ; "
              "f in {x, x+1, 2x, x+A(r3)}; with and without noalias(), retained-view and literal-temporary statement forms; "
              "types f32,f64,i32,i64. seq views: every ordered pair of equal-extent range tuples with per-axis step bound smax "
              "(`last` spelled tight and loose); second source alternates between the destination and the source moved by one. "
              "index views: parent N=6, every duplicate-free destination x every source vector for K<=4 (K<4: f in {x, x+y} only; "
              "K<4 and the 2-D form A(it0,it1) on (3,4) for i32,f64 only), K=W+1 on N=2W+4 from the structured family. "
              "mask views: every non-empty mask over N=10 x source maps from the structured family (identity = exact coincidence). "
              "fseq views: generated family (counts {2,W,W+1[,1,3,W-1,2W-1]} x strides x shifts {0,+-1,+-2,+-W,disjoint}), one to three "
              "(op,f) per pair by rotation, all 20 on the core pairs; i32,f64 full family, f32,i64 core pairs (quick). "
              "BFS depth<=3 (i32,i64): 2 roots per seq rank, relative sources {same,+1,-1,+2,other stride[,disjoint,next outer]}, f in {x,x+y}; "
              "index K=4 and mask roots; fseq: alphabet = the statements sharing a destination x noalias on/off. "
              "Shrunk w.r.t. DESIGN.md: index/mask parents are N=6/N=10 rather than the seq shapes; r3 is derived (2 choices), not free; ")
    if tier == "quick":
        return common + ("quick: smax = 3 (rank 1), (2,2) (rank 2), (1,2,2) with every second outer pair (rank 3); BFS ops {=,+=,*=,/=} with 4 relative "
                         "sources; S2, A2, A5 and A2+FASTOR_USE_VECTORISED_EXPR_ASSIGN")
    return common + ("thorough: smax unbounded (rank 1), (2,all) (rank 2), (1,2,3) (rank 3) on the six plain ISA builds; the VECTORISED_EXPR_ASSIGN "
                     "builds (S2,A2,A5) and ASan+UBSan builds (A2,A5,-O1) use smax 4 / (2,3) / (1,2,2) and the quick fseq family; BFS all five ops, 5 sources")
