"""C13 - QR factors are orthonormal and upper triangular and reproduce the matrix."""
from ..configs import Config, ALL_ISAS, MAIN3, CTYPE
from ..engine import Case

ID = "C13"
LEVEL = "exploration"
HEADER = "c13.h"
TU_BUDGET = 30.0
RUN_TIMEOUT_S = 900
TECHNIQUE = ("bounded-exhaustive enumeration of (size, QR strategy, permutation encoding, argument kind, element type) x ISA builds; the real qr() / determinant<QR>() "
             "is run on every member of deterministic matrix families with prescribed condition number and judged against the textbook Gram-Schmidt bounds")
LEVEL_TEXT = ("Every (size, QRCompType, permutation as vector / as matrix, tensor / expression argument, element type) of the stated box is instantiated and executed "
              "under each ISA build on every member of the matrix families of DESIGN.md 4.3 (kappa up to 1e3 f32 / 1e5 f64, plus integer diagonally dominant "
              "matrices and their row permutations). Q, R, P are pre-filled with a sentinel. Judged: ||Q^T Q - I||_F <= c*n*u*kappa_2(A), R(i,j) == 0 exactly for "
              "i > j, ||P A - Q R||_F <= c*n*u*||A||_F with P applied as the library's own apply_pivot does, determinant<DetCompType::QR> against |det A| "
              "(exact for the integer families). A coverage statement over the box, not a sample.")
RULE = ("enumeration of (element type, n, strategy, permutation encoding, tensor/expression argument, family group) x ISA; per case every member of the group is "
        "generated at run time; evaluation = one qr() call judged for orthogonality (c*n*u*kappa_2(A), kappa_2 measured in long double), exact zeros below R's "
        "diagonal, reproduction (c*n*u*||A||_F) and P being a bijection / permutation matrix, or one determinant<QR>() call judged against |det A| within "
        "c*n*u*(kappa_F + sqrt(n) kappa_2)*|det A|; sentinel pre-fill; canary frames; non-trivial = every judged member")
ASSUMPTIONS = [
    "c = 8; u = 2^-24 / 2^-53; kappa_2 by long double one-sided Jacobi on the entries as stored in T",
    "QRCompType::MGSRPiv pre-pivots ROWS (pivot_inplace + apply_pivot), so the judged identity is P A = Q R with row i of P A = row p(i) of A; the column-pivot "
    "reading A P = Q R of the property text is evaluated and counted (info.colpivot_reading_*), not judged",
    "determinant<DetCompType::QR> returns the product of R's diagonal, which Gram-Schmidt makes positive: it is judged against |det A| (the sign is not recoverable) "
    "and, value and sign, against the product of the diagonal of the R that qr<MGSR>() returns for the same matrix (8(n+1)u relative)",
    "determinants whose partial products can leave T's normal range (max(1,smax)^n or min(1,smin)^n outside it) are not representable in T: run, counted "
    "(det.out_of_range.not_judged), not judged",
    "QRCompType::HHR is rejected by a static_assert in the library: recorded, not judged",
]
GROUPS = {"dom": 0, "cond": 1, "perm": 2}
PENC = {"none": 0, "vec": 1, "mat": 2}


def configs(tier):
    if tier == "quick":
        return [Config(isa=i) for i in MAIN3]
    return [Config(isa=i) for i in ALL_ISAS]


def sizes(tier):
    return list(range(1, 10)) + [16, 17, 33] if tier == "quick" else list(range(1, 13)) + [16, 17, 32, 33, 64, 65]


def cost(n):
    return 0.35 if n <= 4 else 0.5 if n <= 9 else 0.7 if n <= 17 else 1.5 if n <= 33 else 3.0


def cases(tier, cfg):
    out = []
    for t in ("f64", "f32"):
        ct = CTYPE[t]
        for n in sizes(tier):
            for strat, penc in (("MGSR", "none"), ("MGSRPiv", "vec"), ("MGSRPiv", "mat")):
                groups = ["dom"] + (["cond"] if n >= 2 else []) + (["perm"] if n >= 2 else [])
                for gi, g in enumerate(groups):
                    out.append(Case(f"C13/qr[{t}|n={n},strat={strat},penc={penc},arg=tensor,grp={g}]", f"c13::qr_case<{ct},{n},{PENC[penc]},0,{GROUPS[g]}>(fx);",
                                    route=f"qr.{strat}.{penc}", cost=cost(n) if gi == 0 else 0.2))
                if n in ((2, 3, 5, 9, 17) if tier == "quick" else (1, 2, 3, 4, 5, 8, 9, 12, 17, 33)):
                    g = "perm" if n >= 2 else "dom"
                    out.append(Case(f"C13/qr[{t}|n={n},strat={strat},penc={penc},arg=expr,grp={g}]", f"c13::qr_case<{ct},{n},{PENC[penc]},1,{GROUPS[g]}>(fx);",
                                    route=f"qr_expr.{strat}.{penc}", cost=cost(n)))
            for gi, g in enumerate(["dom"] + (["cond", "perm"] if n >= 2 else [])):
                out.append(Case(f"C13/determinant_qr[{t}|n={n},arg=tensor,grp={g}]", f"c13::det_case<{ct},{n},0,{GROUPS[g]}>(fx);", route="det.qr", cost=cost(n) if gi == 0 else 0.2))
            if n in (2, 3, 5, 9):
                out.append(Case(f"C13/determinant_qr[{t}|n={n},arg=expr,grp=dom]", f"c13::det_case<{ct},{n},1,0>(fx);", route="det.qr_expr", cost=cost(n)))
                # row-permuted members: odd permutations give negative determinants, where product(diag(R)) and the signed determinant differ
                out.append(Case(f"C13/determinant_qr[{t}|n={n},arg=expr,grp=perm]", f"c13::det_case<{ct},{n},1,{GROUPS['perm']}>(fx);", route="det.qr_expr", cost=cost(n)))
        # QRCompType::HHR: static_assert "not implemented yet" - recorded, not judged (own TU)
        out.append(Case(f"C13/qr[{t}|n=3,strat=HHR,penc=none,arg=tensor,grp=dom]", f"c13::hhr_case<{ct},3>(fx);", route="qr.unimplemented", cost=TU_BUDGET, must_compile=False))
    return out


def expected_routes(tier):
    r = ["qr.MGSR.none", "qr.MGSRPiv.vec", "qr.MGSRPiv.mat", "qr_expr.MGSR.none", "qr_expr.MGSRPiv.vec", "qr_expr.MGSRPiv.mat", "det.qr", "det.qr_expr",
         "det.vs_exact", "det.vs_longdouble", "piv.nonidentity"]
    for f in ("dd", "cd", "spd10", "spd1e3", "spd1e5", "orth", "gen10", "gen1e3", "gen1e5", "cd.perm", "dd.perm", "spd10.perm"):
        r.append("qr.judged." + f)
    return r


def finalize(run, cov):
    rt = cov["routes"]
    fam = {k[len("qr.judged."):]: v for k, v in rt.items() if k.startswith("qr.judged.")}
    cov["judged_per_family"] = fam
    print(f"{ID}: judged factorisations per family: {fam}")
    print(f"{ID}: determinant<QR>: {rt.get('det.vs_exact', 0)} judged against the exact determinant, {rt.get('det.vs_longdouble', 0)} against long double, "
          f"{rt.get('det.out_of_range.not_judged', 0)} not representable in T (counted, not judged)")
    print(f"{ID}: non-identity pivots: {rt.get('piv.nonidentity', 0)}; column-pivot reading A P = Q R holds on {rt.get('info.colpivot_reading_holds', 0)}, "
          f"fails on {rt.get('info.colpivot_reading_fails', 0)} of them (counted, not judged: the library pivots rows)")


def bounds(tier):
    return {
        "quick": "n in 1..9,16,17,33 x {MGSR, MGSRPiv with P as vector, MGSRPiv with P as matrix} x {f64,f32} x groups dom{dd,cd} / cond{spd 10,1e3,(1e5 f64); orth; gen 10,1e3,"
                 "(1e5 f64)} / perm{all permutations n<=4, else reversal, rotations, adjacent transpositions of cd; four of dd, spd10}; expression argument n in "
                 "{2,3,5,9,17}; determinant<QR> on all groups, every n; HHR recorded; S2, A2, A5",
        "thorough": "n in 1..12,16,17,32,33,64,65 (64|65 beyond DESIGN.md: the row-wise Gram-Schmidt is run-time loops and cheap to compile) x the same strategies, encodings, types and groups; expression argument n in {1..5,8,9,12,17,33}; determinant<QR> every n; six ISAs",
    }[tier]
