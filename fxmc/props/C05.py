"""C05 - writing through a slice changes exactly the selected elements and nothing else."""
from ..configs import Config, ALL_ISAS, CTYPE
from ..engine import Case
from .C04 import (RS_FULL, RS_FULLQ, RS_THIN, RS_ONE, M_LASTFULLQ, M_ENC, fullq, thin, n_set, dims, shp, S, I, SE, F, K, _encodings, wlist)

ID = "C05"
LEVEL = "model_checking"
HEADER = "c05.h"
TU_BUDGET = 12.0
RUN_TIMEOUT_S = 900
TECHNIQUE = ("explicit-state model checking of write histories: exhaustive single writes (depth 1) over destination ranges x operators x "
             "right-hand-side kinds x view kinds from two initial contents, and breadth-first search to depth 2-3 over a reduced alphabet on "
             "integer data with states de-duplicated by hashing the tensor contents; every transition runs the real library and the reference "
             "model side by side")
LEVEL_TEXT = ("State = contents of the parent tensor A (plus the untouched source B and the canary frames). A transition is one statement "
              "A(view) op= rhs executed by the real library on a copy of the state and by a scalar reference model; after every transition the "
              "whole of A is compared exactly (selected elements = old op rhs, all others bit-identical), the canaries around A and B and the "
              "contents of B are checked. Depth 1 enumerates the stated alphabet completely; depths 2-3 are a complete breadth-first search over "
              "the reduced alphabet with hashed state de-duplication. Nothing is claimed beyond the stated shapes, alphabets and depth.")
RULE = ("case = (family, element type, parent shape, destination argument kinds, operators, right-hand-side kinds); inside a depth-1 case: "
        "full product of the destination option lists (range set x encodings as in C04) x source-slice options x {index-coded, all-ones} "
        "initial contents; one evaluation = one write judged over the whole tensor A (exact) + canary frames around A and B + B unchanged; "
        "non-trivial = the expected contents differ from the contents before the write; states = distinct expected contents (hashed), "
        "transitions = writes executed on the real code; BFS cases: alphabet = reduced ranges (a block, the block shifted by one, interleaved "
        "stride-2 combs, whole axis, adjacent blocks, stride 3, one element, W blocks) x {=,+=,*=} x {scalar, slice of B at the same place / "
        "flush right}, all successors of every state up to the stated depth. Point labels as in C04 (r<axis> = enc*1000000+first*10000+last*100+step)")
ASSUMPTIONS = [
    "documented encoding of slice bounds as in C04; destination and source never alias (B is a different tensor; aliasing is property C18)",
    "values are small integers so that =, +=, -=, *= are exact in all four element types and never overflow (also along depth-3 histories)",
    "/=: integer types use non-zero divisors and C++ truncation; floating types divide by a power of two when the right-hand side is a scalar "
    "(the library multiplies by the reciprocal, which is then exact) and by odd integers otherwise (IEEE division is correctly rounded in "
    "vector and scalar code alike; contraction is off)",
    "the reference model applies the operator element by element in row-major order of the destination; the whole tensor is compared, so a "
    "write that lands elsewhere is seen both as a missing and as a spurious update",
    "on a disagreement the search continues from the model's state, so one defect does not mask later transitions",
]

O_ALL = "c05::OL<0,1,2,3,4>"
O_BFS = "c05::OL<0,1,3>"
OPS = {"=": 0, "+=": 1, "-=": 2, "*=": 3, "/=": 4}
OPNAME = {0: "assign", 1: "add", 2: "sub", 3: "mul", 4: "div"}
RHS = {"scalar": 0, "tensor": 1, "slice": 2, "cslice": 3, "same": 4, "expr1": 5, "expr2": 6, "eval": 7}
M_SRC_ALLFIT, M_SRC_THIN3, M_ONE_CONTENT, M_BFS_SMALL, M_SRC_LASTAXIS = 64, 128, 256, 512, 1024
TYPES = ["f64", "f32", "i32", "i64"]
MAX_POINTS = 1_300_000
VEA = "FASTOR_USE_VECTORISED_EXPR_ASSIGN"


def configs(tier):
    if tier == "quick":
        # VEA on the two other main ISAs runs the 2-D / n-D / fixed-view families only (the code the macro switches)
        return [Config(isa=i) for i in ("S2", "A2", "A5")] + [Config(isa="A5", defs=(VEA,)), Config(isa="A2", defs=(VEA,)), Config(isa="S2", defs=(VEA,))]
    return ([Config(isa=i) for i in ALL_ISAS] + [Config(isa=i, defs=(VEA,)) for i in ALL_ISAS] +
            [Config(isa="A5", std="17"), Config(isa="A2", san=True, opt="O1")])


def nsrc_allfit(N, e):
    if e == 1:
        return N
    return sum(N - (e - 1) * s for s in range(1, (N - 1) // (e - 1) + 1))


def ndst(sh, mode, kinds):
    p = 1
    for i, N in enumerate(sh):
        k = kinds[i].ident
        if k[0] == "S":
            rs = mode & 3
            if (mode & M_LASTFULLQ) and i == len(sh) - 1:
                rs = RS_FULLQ
            c = n_set(N, rs)
            if mode & M_ENC:
                c = 3 * c + (1 if len(sh) > 1 else 0)
            p *= c
        elif k[0] == "I":
            p *= N + 1
    return p


class Gen:
    def __init__(self, tier, cfg):
        self.tier, self.cfg, self.out = tier, cfg, []
        self.vea = cfg.has_def(VEA)
        self.variant = cfg.std != "14" or cfg.san or self.vea
        self.full = tier == "thorough" and not self.variant
        self.mult = 2.7 if cfg.san else 1.0

    def wr(self, fam, t, sh, kinds, ops, rhss, mode, cost_each, bfs=0, tag=""):
        """ops: list of operator indices; rhss: list of rhs names"""
        ks = ",".join(k.ident for k in kinds)
        opl = "all" if len(ops) == 5 else "+".join(OPNAME[o] for o in ops)
        ident = f"C05/{fam}[{t}|{shp(sh)}|{ks}|op={opl}|rhs={'+'.join(rhss)}{tag}]"
        body = (f"c05::wr<{CTYPE[t]},c05::OL<{','.join(str(o) for o in ops)}>,c05::RL<{','.join(str(RHS[r]) for r in rhss)}>,"
                f"{dims(sh)},{','.join(k.cpp for k in kinds)}>(fx,{mode}u,{bfs},{self.cfg.w(t)});")
        self.out.append(Case(ident, body, route=f"fam.{fam}", cost=cost_each * len(ops) * len(rhss) * self.mult + 0.1))


def _sizes_1d(W, full):
    if full:
        return list(range(1, 2 * W + 4))
    return sorted(x for x in {1, 2, 3, W - 1, W, W + 1, 2 * W, 2 * W + 1, 2 * W + 3} if x >= 1)


def fam_seq1d(g, t, W):
    for N in _sizes_1d(W, g.full):
        g.wr("seq1d", t, (N,), [S], [0, 1, 2, 3, 4], ["scalar"], RS_FULL | M_ENC, 0.08)
        g.wr("seq1d", t, (N,), [S], [0, 1, 2, 3, 4], ["same"], RS_FULL | M_ENC, 0.12)
        # equal-extent slice of B with every (first,step) that fits, as long as the case stays below the point budget
        tot = sum(nsrc_allfit(N, (l - f + s - 1) // s) for f, l, s in fullq(N))
        mode = RS_FULLQ | M_SRC_ALLFIT
        if tot * 2 > MAX_POINTS:
            mode |= M_ONE_CONTENT
        if tot > MAX_POINTS:
            mode = RS_FULLQ            # thin source list (own range, flush left, flush right, widest stride, offset 1)
        for o in range(5):
            g.wr("seq1d", t, (N,), [S], [o], ["slice"], mode, 0.12)
        g.wr("seq1d", t, (N,), [S], [0, 1, 2, 3, 4], ["cslice"], RS_FULLQ | M_SRC_THIN3, 0.12)
        g.wr("seq1d", t, (N,), [S], [0, 1, 2, 3, 4], ["expr1"], RS_FULLQ | M_SRC_THIN3, 0.14)
        g.wr("seq1d", t, (N,), [S], [0, 1, 2, 3, 4], ["expr2"], RS_FULLQ | M_SRC_THIN3, 0.16)
    # right-hand sides whose extent is a template argument: whole tensor, evaluated product
    N = 2 * W + 3
    if g.full:
        Es = list(range(1, N + 1))
    else:
        Es = sorted(x for x in {1, 2, W - 1, W, W + 1, 2 * W, 2 * W + 1, 2 * W + 3} if x >= 1)
        if g.variant:
            Es = sorted(x for x in {1, W, W + 1, 2 * W + 1} if x >= 1)
    for E in Es:
        g.wr("seq1d", t, (N,), [SE(E)], [0, 1, 2, 3, 4], ["tensor", "eval"], RS_FULL | M_ENC, 0.07)


def fam_seq2d(g, t, W):
    shapes = [(3, 5), (4, W + 3), (3, 2 * W)]
    for sh in shapes:
        if min(sh) < 1:
            continue
        small = sh[0] * sh[1] <= 20
        g.wr("seq2d", t, sh, [S, S], [0, 1, 2, 3, 4], ["scalar"], RS_FULLQ | (M_ENC if small else 0), 0.12)
        g.wr("seq2d", t, sh, [S, S], [0, 1, 2, 3, 4], ["same"], RS_FULLQ, 0.2)
        nd = ndst(sh, RS_FULLQ, [S, S])
        mode = RS_FULLQ
        if nd * 25 * 2 > MAX_POINTS:
            mode |= M_ONE_CONTENT
        if nd * 25 > MAX_POINTS // 2:
            mode |= M_SRC_THIN3
        assert nd * (9 if mode & M_SRC_THIN3 else 25) * (1 if mode & M_ONE_CONTENT else 2) <= MAX_POINTS + 200000, sh
        for o in range(5):
            g.wr("seq2d", t, sh, [S, S], [o], ["slice"], mode, 0.2)
        if nd * 9 * 5 > MAX_POINTS:
            continue        # the largest shape: scalar / same / slice right-hand sides only (run-time budget)
        mode3 = RS_FULLQ | M_SRC_THIN3 | M_ONE_CONTENT
        for r in ("cslice", "expr1", "expr2"):
            g.wr("seq2d", t, sh, [S, S], [0, 1, 2, 3, 4], [r], mode3, 0.22)
    sh = (4, W + 3)
    pairs = [(1, W + 1), (2, W), (4, 1), (3, W + 3)] + ([(e0, e1) for e0 in (1, 2, 3, 4) for e1 in (1, 2, W - 1, W, W + 1, W + 2)] if g.full else [])
    seen = set()
    for e0, e1 in pairs:
        if e1 < 1 or (e0, e1) in seen:
            continue
        seen.add((e0, e1))
        g.wr("seq2d", t, sh, [SE(e0), SE(e1)], [0, 1, 2, 3, 4], ["tensor", "eval"], RS_FULLQ, 0.1)


def fam_seq3d(g, t, W):
    # last extent 2W+1: a contiguous destination of W elements can be fed from a stride-2 source (strided-gather route of the n-D views)
    shapes = [(2, 2, 2 * W + 1)] + ([(2, 3, W + 1), (2, 2, 3, W + 1)] if g.tier == "thorough" else [])
    for sh in shapes:
        ks = [S] * len(sh)
        mode = RS_THIN | M_LASTFULLQ
        g.wr(f"seq{len(sh)}d", t, sh, ks, [0, 1, 2, 3, 4], ["scalar"], mode, 0.2)
        g.wr(f"seq{len(sh)}d", t, sh, ks, [0, 1, 2, 3, 4], ["same"], mode, 0.3)
        nd = ndst(sh, mode, ks)
        per = 3 ** len(sh)
        m2 = mode | M_SRC_THIN3 | (M_ONE_CONTENT if nd * per * 2 > MAX_POINTS else 0)
        if nd * per > MAX_POINTS:
            m2 = mode | M_SRC_LASTAXIS | M_ONE_CONTENT     # five source placements on the last axis, own range on the others
            assert nd * 5 <= MAX_POINTS
        for o in range(5):
            g.wr(f"seq{len(sh)}d", t, sh, ks, [o], ["slice"], m2, 0.35)
        if g.full or len(sh) == 3:
            g.wr(f"seq{len(sh)}d", t, sh, ks, [0, 3], ["expr2"], m2 | M_ONE_CONTENT, 0.4)
    g.wr("seq3d", t, (2, 2, 2 * W + 1), [SE(2), SE(2), SE(W)], [0, 1, 2, 3, 4], ["tensor"], RS_FULLQ, 0.2)
    # outer ranges that are strided and select more than one index, with a last range of whole vectors: the vector branch of the n-D
    # view has to build its store offset from every range's step
    g.wr("seq3d", t, (3, 3, 2 * W + 1), [SE(2), SE(2), SE(W)], [0, 1, 2, 3, 4], ["tensor"], RS_FULLQ, 0.2)
    g.wr("seq3d", t, (3, 3, 2 * W + 1), [SE(2), SE(2), SE(2 * W)], [0, 1, 2, 3, 4], ["tensor"], RS_FULLQ, 0.2)
    g.wr("seq3d", t, (3, 2, 2 * W), [S, S, S], [0, 1, 2, 3, 4], ["expr1"], RS_THIN | M_LASTFULLQ | M_SRC_THIN3 | M_ONE_CONTENT, 0.4)


def fam_fseq(g, t, W):
    # rank 1: W-boundary family on N = 2W+1, every operator x {scalar, same range of B, whole tensor, dynamic slice of B, product}
    N = 2 * W + 1
    rl = wlist(N, W)
    rhs = ["scalar", "same", "tensor", "slice", "eval"] if g.full else ["scalar", "same", "tensor"]
    if g.variant and not g.vea:
        rl = rl[::2]
    for k, r in enumerate(rl):
        e = _encodings(N, *r)[k % 3]
        g.wr("fseq1d", t, (N,), [F(*e[1:])], [0, 1, 2, 3, 4], rhs, 0, 0.05)
    if g.full and t in ("f64", "i32"):
        for r in fullq(5):
            g.wr("fseq1d", t, (5,), [F(*r)], [0, 1, 2, 3, 4], ["scalar", "same"], 0, 0.04)
    # rank 2 on (3, W+1)
    if t in ("f64", "i32") or g.full:
        sh = (3, 2 * W + 1)
        a0 = thin(3)[:4] if g.full else [(0, 3, 1), (1, 3, 1), (0, 3, 2)]
        a1 = wlist(2 * W + 1, W)[:8] if g.full else wlist(2 * W + 1, W)[:1] + wlist(2 * W + 1, W)[3:6]
        k = 0
        for a in a0:
            for b in a1:
                ea, eb = _encodings(3, *a)[k % 3], _encodings(2 * W + 1, *b)[(k // 3) % 3]
                k += 1
                g.wr("fseq2d", t, sh, [F(*ea[1:]), F(*eb[1:])], [0, 1, 2, 3, 4], ["scalar", "same"] + (["tensor", "eval"] if g.full and k % 4 == 0 else []), 0, 0.07)
        # all rows with a column range whose extent equals the ROW count (and the transposed situation): the overload that returns the
        # tensor itself for a full selection must not be chosen from the wrong extent
        k = 0
        for b in ((1, 4, 1), (2 * W - 2, 2 * W + 1, 1), (0, 5, 2)):
            if not (0 <= b[0] < b[1] <= 2 * W + 1):
                continue
            for enc in range(3):
                ea, eb = _encodings(3, 0, 3, 1)[enc], _encodings(2 * W + 1, *b)[(enc + k) % 3]
                g.wr("fseq2d", t, sh, [F(*ea[1:]), F(*eb[1:])], [0, 1, 2, 3, 4], ["scalar", "same"], 0, 0.07)
            k += 1
        sht = (2 * W + 1, 3)
        for enc in (range(3) if 2 * W + 1 >= 4 else ()):      # (the row range 1:4 needs four rows: not for the scalar ABI, W = 1)
            ea, eb = _encodings(2 * W + 1, 1, 4, 1)[enc], _encodings(3, 0, 3, 1)[(enc + 1) % 3]
            g.wr("fseq2d", t, sht, [F(*ea[1:]), F(*eb[1:])], [0, 1, 2, 3, 4], ["scalar", "same"], 0, 0.07)
    # rank 3 on (2,3,W+1)
    if t in ("f64", "i32") and (g.tier == "thorough" or t == "f64"):
        sh = (2, 3, 2 * W + 1)
        fam = [((0, 2, 1), (0, 3, 1), (0, W, 1)), ((1, 2, 1), (0, 3, 2), (0, 2 * W + 1, 1)), ((0, 2, 1), (1, 3, 1), (1, 2 * W + 1, 2))]
        if g.full:
            fam += [((0, 1, 1), (0, 3, 1), (1, W + 1, 1)), ((0, 2, 1), (2, 3, 1), (0, 2 * W, 2)), ((0, 2, 2), (0, 2, 1), (W, W + 1, 1)),
                    ((0, 2, 1), (0, 3, 1), (0, 2 * W, 1)), ((1, 2, 1), (1, 2, 1), (0, 2 * W + 1, 3))]
        for k, (a, b, c) in enumerate(fam):
            if not all(0 <= r[0] < r[1] <= n for r, n in zip((a, b, c), sh)):
                continue
            e = [_encodings(sh[i], *r)[(k + i) % 3] for i, r in enumerate((a, b, c))]
            g.wr("fseq3d", t, sh, [F(*x[1:]) for x in e], [0, 1, 2, 3, 4], ["scalar", "same"], 0, 0.12)


def fam_mixed(g, t, W):
    if t not in ("f64", "i32") and not g.full:
        return
    sh = (3, W + 1)
    f0, f1 = [F(0, -1), F(1, -1, 2)], [F(0, -1), F(1, -1, 2), F(0, W)]
    combos = [[S, f] for f in f1] + [[I, f] for f in f1[:2]] + [[f, S] for f in f0] + [[f, I] for f in f0] + [[S, I], [I, S]]
    for kinds in combos:
        g.wr("mixed2d", t, sh, kinds, [0, 1, 2, 3, 4], ["scalar", "slice"], RS_FULLQ | M_ENC | M_SRC_THIN3 | M_ONE_CONTENT, 0.14)
    sh3 = (2, 3, W + 1)
    for kinds in ([S, I, F(0, -1)], [I, F(0, -1), S], [F(0, -1), S, I], [I, I, S], [S, S, I], [F(0, 2), F(1, 3), I]):
        g.wr("mixed3d", t, sh3, kinds, [0, 1, 2, 3, 4], ["scalar", "slice"], RS_THIN | M_LASTFULLQ | M_ENC | M_SRC_THIN3 | M_ONE_CONTENT, 0.3)
    if g.tier == "thorough":
        g.wr("mixed4d", t, (2, 2, 3, W + 1), [S, I, F(0, -1), S], [0, 1, 2, 3, 4], ["scalar", "slice"], RS_THIN | M_LASTFULLQ | M_SRC_LASTAXIS | M_ONE_CONTENT, 0.4)
        g.wr("mixed5d", t, (2, 3, 2, 2, W + 1), [I, S, F(0, 2), I, S], [0, 3], ["scalar", "slice"], RS_THIN | M_LASTFULLQ | M_SRC_LASTAXIS | M_ONE_CONTENT, 0.5)


def fam_elem(g, t, W):
    shapes = [(W + 1,), (3, 5), (2, 3, 4)] + ([(2 * W + 3,), (2, 3, 2, 3), (2, 3, 2, 3, 2)] if g.tier == "thorough" else [])
    for sh in shapes:
        g.out.append(Case(f"C05/elem[{t}|{shp(sh)}|op=all]", f"c05::elem<{CTYPE[t]},{dims(sh)}>(fx);", route="fam.elem", cost=0.15 * g.mult))


def fam_bfs(g, t, W):
    if t not in ("i32", "i64"):
        return
    ops, rh = [0, 1, 3], ["scalar", "slice"]
    for N in ([W + 1, 2 * W + 3] if W > 1 else [3, 5]):
        g.wr("bfs1d", t, (N,), [S], ops, rh, 0, 0.12, bfs=3, tag="|depth=3")
    if g.tier == "thorough" and not g.variant:
        g.wr("bfs1d", t, (2 * W + 1,), [S], ops, ["scalar", "slice", "expr1"], M_BFS_SMALL, 0.12, bfs=3, tag="|depth=3,alphabet=small")
    g.wr("bfs2d", t, (3, W + 1), [S, S], ops, rh, M_BFS_SMALL, 0.2, bfs=3, tag="|depth=3,alphabet=small")
    g.wr("bfs2d", t, (4, W + 3), [S, S], ops, rh, 0, 0.2, bfs=2, tag="|depth=2")
    g.wr("bfs3d", t, (2, 3, W + 1), [S, S, S], ops, rh, M_BFS_SMALL, 0.35, bfs=2, tag="|depth=2,alphabet=small")


def cases(tier, cfg):
    g = Gen(tier, cfg)
    types = TYPES
    if cfg.san or (g.vea and tier == "quick"):
        types = ["f64", "i32"]
    elif cfg.std != "14" or g.vea:
        types = ["f64", "f32", "i32"]
    reduced = g.vea and tier == "quick" and cfg.isa != "A5"
    for t in types:
        W = cfg.w(t)
        if reduced:
            fam_seq2d(g, t, W); fam_seq3d(g, t, W); fam_fseq(g, t, W)
            continue
        fam_elem(g, t, W)
        fam_seq1d(g, t, W)
        fam_seq2d(g, t, W)
        fam_seq3d(g, t, W)
        fam_fseq(g, t, W)
        fam_mixed(g, t, W)
        fam_bfs(g, t, W)
    seen, out = set(), []
    for c in g.out:
        if c.id not in seen:
            seen.add(c.id); out.append(c)
    return out


def expected_routes(tier):
    return [f"write.{r}.{o}" for r in ("scalar", "tensor", "slice", "cslice", "same", "expr1", "expr2", "eval") for o in ("=", "+=", "-=", "*=", "/=")] + \
           ["write.element.=", "write.element./="] + \
           ["store." + x for x in ("unit.fullvec", "unit.vec+tail", "unit.subvec", "strided.fullvec", "strided.vec+tail", "strided.subvec")]


def finalize(run, cov):
    cov["distinct_outcomes"] = cov.get("states", 0)
    cov["bfs_alphabet_sizes_sum"] = cov.pop("mc_alphabet", 0)


def bounds(tier):
    common = ("range sets as in C04 (FULL, FULLQ, THIN). Source slices of B: ALLFIT = every (first,step) that fits the destination extent; THIN5 = "
              "{destination's own range, widest stride that fits, flush right, flush left, offset 1 with the next stride}; THIN3 = first three. Initial "
              "contents: index-coded and all-ones unless noted. Types f64,f32,i32,i64 (int64_t). ")
    if tier == "quick":
        return common + (
            "S2,A2,A5 (g++ -O2 -DNDEBUG -std=c++14), A5 with -DFASTOR_USE_VECTORISED_EXPR_ASSIGN (f64,i32; all families) and S2,A2 with it (2-D, n-D and fixed-view families). Depth 1: scalar element assignment "
            "A(i,..) op= x, all index tuples in [-n,n-1]^k on (W+1),(3,5),(2,3,4) x 5 operators. seq rank 1, N in {1,2,3,W-1,W,W+1,2W,2W+1,2W+3}: "
            "FULL x 3 encodings x 5 operators x {scalar, same range of B}; FULLQ x ALLFIT sources (THIN5 where that exceeds 1.3e6 points) x each "
            "operator; FULLQ x THIN3 x {const slice, B(r)+1, 2*B(r)-B(r')}; whole tensor and evaluated product P%Q of extent E in "
            "{1,2,W-1,W,W+1,2W,2W+1,2W+3} on N=2W+3. seq rank 2 on (3,5),(4,W+3),(3,2W): FULLQ x FULLQ x 5 operators x {scalar, same, slice "
            "(THIN5/THIN3 per axis), const slice, expr1, expr2}; tensor/product right-hand sides for four extent pairs on (4,W+3). seq rank 3 (also (3,3,2W+1) with extents (2,2,W/2W) from a tensor and (3,2,2W) from an expression: strided outer ranges over whole-vector last ranges) on "
            "(2,2,2W+1): THIN x THIN x FULLQ. fseq: W-boundary family (11 ranges, three spellings rotating) on N=2W+1 x 5 operators x {scalar, same, "
            "whole tensor}; 12 range pairs on (3,2W+1), 3 triples on (2,3,2W+1). mixed kinds: 12 rank-2 combinations on (3,W+1), 6 rank-3 on "
            "(2,3,W+1) x {scalar, slice}. BFS (i32,i64; operators =,+=,*=; rhs scalar, slice): rank 1 N in {W+1,2W+3} depth 3 (alphabet 11 ranges x 9); "
            "rank 2 (3,W+1) depth 3 reduced alphabet, (4,W+3) depth 2 full alphabet; rank 3 (2,3,W+1) depth 2 reduced alphabet. Shrunk w.r.t. "
            "DESIGN.md: rank-1 sizes thinned to the W-boundary set; ALLFIT sources replaced by THIN5 for N > ~22; rank-2 sources thinned per axis; "
            "BFS for seq views only; floats at depth 1 only.")
    return common + (
        "six ISAs, the same six with -DFASTOR_USE_VECTORISED_EXPR_ASSIGN (quick box), C++17 on A5 and ASan/UBSan -O1 on A2 (quick box, f64/i32). "
        "Depth 1 as quick with: every N <= 2W+3 for rank 1; every E <= 2W+3 for tensor/product right-hand sides; E0<=4 x E1 in {1,2,W-1..W+2} on "
        "(4,W+3); ranks 3-4 also on (2,3,W+1),(2,2,3,W+1); fseq: +{dynamic slice, product} right-hand sides, FULLQ on N=5, 32 range pairs on (3,2W+1), 8 triples on "
        "(2,3,2W+1); mixed ranks 4-5; element assignment on ranks 1-5. BFS: + N=2W+1 with B(r)+1 right-hand side. Shrunk w.r.t. "
        "DESIGN.md as in quick; ASan on A2 only (not S2/A5); BFS for seq views only (fseq/mixed views at depth 1).")
