"""C11 - LU factors are triangular and reproduce the (row-permuted) matrix."""
from ..configs import Config, ALL_ISAS, MAIN3, CTYPE
from ..engine import Case

ID = "C11"
LEVEL = "exploration"
HEADER = "c11.h"
TU_BUDGET = 30.0
RUN_TIMEOUT_S = 900
TECHNIQUE = ("bounded-exhaustive enumeration of (size, LU strategy, permutation encoding, argument kind, element type) x ISA builds; the real lu() is run on "
             "every member of deterministic matrix families and judged structurally (exact) and by the backward-error bound with the measured |L||U|")
LEVEL_TEXT = ("Every (size, LUCompType, permutation returned as vector / as matrix, tensor / expression argument, element type) of the stated box is instantiated "
              "and executed under each ISA build on every member of the matrix families of DESIGN.md 4.3 (diagonally dominant integer matrices, "
              "Householder-built matrices with prescribed condition number, all / generating row permutations). L, U and P are pre-filled with a sentinel, "
              "so an unwritten entry is visible; structure is judged exactly (unit diagonal, exact zeros, P a bijection / permutation matrix), the "
              "numbers by ||PA - LU||_F <= c*n*u*|| |L||U| ||_F with c = 8 and the returned factors; reconstruct(L,U,P) is run on the returned factors. "
              "A coverage statement over the box, not a sample.")
RULE = ("enumeration of (element type, n, strategy, permutation encoding, tensor/expression argument, family group) x ISA; per case every member of the "
        "group is generated at run time; evaluation = one lu() call judged exactly for structure and by c*n*u*|| |L||U| ||_F for ||PA-LU||_F (members whose "
        "measured growth || |L||U| ||_F/||A||_F exceeds 1e3 f32 / 1e6 f64 are counted, structure still judged; non-finite factors on a matrix with a "
        "numerically singular leading block of P*A are counted as breakdown, not judged), plus one reconstruct() call on the returned factors judged by "
        "the same bound; sentinel pre-fill of L, U, P; canary frames; non-trivial = every judged member")
ASSUMPTIONS = [
    "c = 8; u = 2^-24 / 2^-53; products and norms of the returned factors in long double",
    "P*A means row i of the result is row p(i) of A (the library's apply_pivot / reconstruct convention); for a matrix P, p(i) is the column of the 1 in row i",
    "growth threshold 1e3 (f32) / 1e6 (f64): above it the numerical part is counted, not judged, as the property stipulates",
    "sizes outside the enumerated set are not claimed",
]
STRATS = ["BlockLU", "BlockLUPiv", "SimpleLU", "SimpleLUPiv"]
GROUPS = {"dom": 0, "cond": 1, "perm": 2}
PENC = {"none": 0, "vec": 1, "mat": 2}


def configs(tier):
    if tier == "quick":
        return [Config(isa=i) for i in MAIN3]
    return [Config(isa=i) for i in ALL_ISAS]


def size_class(n, strat):
    if n <= 8:
        return f"unrolled.n{n}"
    if strat.startswith("SimpleLU"):
        return "simple.loops"
    if n <= 32:
        return "recursive.le32"
    if n <= 64:
        return "block.le64"
    return "block.gt64"


def est_cost(n, strat, isa):
    block = strat.startswith("BlockLU")
    if n <= 4:
        c = 0.3
    elif n <= 8:
        c = 0.5
    elif not block:
        c = 0.6 if n <= 17 else 1.0 if n <= 33 else 2.0      # run-time loops above 8
    elif n <= 12:
        c = 1.0
    elif n <= 17:
        c = 2.2
    elif n <= 33:
        c = 8.0
    else:
        c = 20.0
    c += 0.1 + (0.3 if n >= 32 else 0.0) + (1.0 if n >= 64 else 0.0)   # reconstruct: one n^3 matmul
    return c * (1.2 if isa == "A5" else 1.0)


def sizes(tier, cfg, strat, t, penc):
    if tier == "quick":
        s = list(range(1, 10)) + [16, 17]
        if t == "f64" or (strat, penc) in (("BlockLUPiv", "vec"), ("SimpleLU", "none")):
            s.append(33)
        if t == "f64" and strat == "BlockLU" and cfg.isa == "S2":
            s.append(65)       # the block dispatcher has an overload of its own above 64: one instantiation (about half a minute of compile time)
        return s
    s = list(range(1, 13)) + [16, 17, 32, 33]
    if strat.startswith("SimpleLU"):
        s += [64, 65]
    elif cfg.isa in MAIN3 and penc in ("none", "vec"):
        s += [64, 65]
    return s


def cases(tier, cfg):
    big, small = [], []
    for t in ("f64", "f32"):
        ct = CTYPE[t]
        for si, strat in enumerate(STRATS):
            piv = strat.endswith("Piv")
            for penc in (("vec", "mat") if piv else ("none",)):
                for n in sizes(tier, cfg, strat, t, penc):
                    cost = min(est_cost(n, strat, cfg.isa), TU_BUDGET - 1.5)
                    groups = ["dom"] + (["cond"] if n >= 2 else []) + (["perm"] if piv and n >= 2 else [])
                    dst = big if cost >= 5 else small
                    for gi, g in enumerate(groups):
                        dst.append(Case(f"C11/lu[{t}|n={n},strat={strat},penc={penc},arg=tensor,grp={g}]",
                                        f"c11::lu_case<{ct},{n},{si},{PENC[penc]},0,{GROUPS[g]},1>(fx);",
                                        route=f"lu.{strat}.{size_class(n, strat)}", cost=cost if gi == 0 else 0.3))
                # expression argument lu<S>(A + 0, ...)
                esz = (2, 3, 5, 9) if tier == "quick" else (1, 2, 3, 4, 5, 8, 9, 17, 33)
                if tier == "thorough" or t == "f64":
                    for n in esz:
                        g = "perm" if piv and n >= 2 else "dom"
                        small.append(Case(f"C11/lu[{t}|n={n},strat={strat},penc={penc},arg=expr,grp={g}]",
                                          f"c11::lu_case<{ct},{n},{si},{PENC[penc]},1,{GROUPS[g]},0>(fx);",
                                          route=f"lu_expr.{strat}.{penc}", cost=est_cost(n, strat, cfg.isa)))
    big.sort(key=lambda c: -c.cost)
    return big + small


def expected_routes(tier):
    r = []
    for s in STRATS:
        r += [f"lu.{s}.unrolled.n{n}" for n in range(1, 9)]
        r += [f"lu.{s}.simple.loops"] if s.startswith("Simple") else [f"lu.{s}.recursive.le32", f"lu.{s}.block.le64"]
        r += [f"lu_expr.{s}.{p}" for p in (("vec", "mat") if s.endswith("Piv") else ("none",))]
    for f in ("dd", "cd", "spd10", "spd1e3", "spd1e5", "orth", "gen10", "gen1e3", "gen1e5", "cd.perm", "dd.perm", "spd10.perm"):
        r.append("growth.judged." + f)
    r.append("piv.nonidentity")
    if tier == "thorough":
        r += ["lu.BlockLU.block.gt64", "lu.BlockLUPiv.block.gt64"]
    return r


def finalize(run, cov):
    fam = {}
    for k, v in cov["routes"].items():
        for pre, key in (("growth.judged.", "judged"), ("growth.over_threshold.", "growth_over_threshold"), ("lu.breakdown.not_judged.", "breakdown")):
            if k.startswith(pre):
                fam.setdefault(k[len(pre):], {"judged": 0, "growth_over_threshold": 0, "breakdown": 0})[key] += v
    cov["numerics_per_family"] = fam
    cov["family_gaps"] = sorted(f for f, d in fam.items() if d["judged"] == 0)
    print(f"{ID} numerics: judged={sum(d['judged'] for d in fam.values())} growth-over-threshold (counted)={sum(d['growth_over_threshold'] for d in fam.values())} "
          f"breakdown (counted)={sum(d['breakdown'] for d in fam.values())}")
    for f in cov["family_gaps"]:
        print(f"{ID} GAP: family {f} has no numerically judged member in this run")


def bounds(tier):
    return {
        "quick": "n in 1..9,16,17 (+33: every strategy/encoding in f64, BlockLUPiv/vec and SimpleLU in f32; +65: BlockLU f64 on S2) x {BlockLU, BlockLUPiv, SimpleLU, SimpleLUPiv} x "
                 "P as vector and as matrix x {f64,f32} x groups dom{dd,cd} / cond{spd 10,1e3,(1e5); orth; gen 10,1e3,(1e5)} / perm (pivoted: all permutations n<=4, "
                 "else reversal, rotations, adjacent transpositions of cd; four of dd, spd10); reconstruct on every returned factorisation; expression argument "
                 "n in {2,3,5,9} f64; S2, A2, A5",
        "thorough": "n in 1..12,16,17,32,33 and 64,65 (SimpleLU* on six ISAs; BlockLU and BlockLUPiv/vec on S2/A2/A5 - shrunk: BlockLUPiv with matrix P at 64|65 "
                    "dropped, 20 s per instantiation) x the same strategies, encodings, types and groups; expression argument n in {1..5,8,9,17,33}; six ISAs",
    }[tier]
