"""C03 - pairwise einsum / contraction, single-tensor einsum, inner, outer and explicit-output einsum equal the
Einstein sum they denote (result type = free labels in order of first appearance, values by the reference loop nest)."""
import itertools
from ..configs import Config, ALL_ISAS, MAIN3, CTYPE
from ..engine import Case

ID = "C03"
LEVEL = "exploration"
HEADER = "c03.h"
TU_BUDGET = 11.0
RUN_TIMEOUT_S = 120
EXHAUSTIVE_WITHIN_BOUNDS = True
TECHNIQUE = ("bounded-exhaustive enumeration of index patterns (all partial matchings of the r0+r1 index positions) x label numberings x "
             "extent assignments x entry points x element types x ISA/macro builds; real library call vs run-time reference loop nest")
LEVEL_TEXT = ("Every index pattern of the stated box (every way of identifying index positions between and within the two lists, no label more "
              "than twice) is instantiated through the public entry points under each build and executed; the declared result type is compared "
              "with the enumerator's expectation (free labels in order of first appearance) as a recorded outcome, and the bilinear form computed "
              "by the selected back end is determined by basis probing (complete where affordable, per-operand otherwise) plus address-coded, "
              "seeded and non-integer points, each judged element-wise against a plain loop nest with a canary frame around the result object. "
              "This is coverage of the box, not a sample; extents outside the listed assignments are not claimed.")
RULE = ("enumeration of (entry point, element type, index lists, extents) x build configuration; per case: one judged outcome for the result type "
        "(std::is_same with Tensor<T, extents of the free labels in order of first appearance>), then the address-coded point, two seeded integer "
        "points, basis probing (every pair e_p x e_q when |A||B| x loop volume <= cap, otherwise e_p against address-coded data per operand) and one "
        "non-integer point with the forward bound gamma_(K+4) sum|a||b|; evaluation = one library call judged element-wise + canary frame around "
        "the result object and operands; non-trivial = expected result not constant; distinct = distinct (case, point, expected) hashes")
ASSUMPTIONS = [
    "kernel control flow is data independent (multilinear straight-line code), so agreement on a basis decides all values of a case",
    "reference: odometer loop nest over the distinct labels driven by the run-time label lists, accumulating in the element type (exact for the "
    "integer-valued schemes, whose magnitudes are bounded from the contraction length) or in long double (non-integer point)",
    "the enumerator is the independent source of the expected result type and element order; the library's classification constants "
    "(is_generalised_*, is_vectorisable::stride) are only used for route reporting and are cross-checked against the enumerator's model",
    "extents other than the listed assignments are represented only through the vector-width classes (scalar / 128-bit / 256-bit) they fall in",
]
TYPES_Q = ["f64", "f32", "i32"]
SSE_W = {"f64": 2, "f32": 4, "i32": 4, "i64": 2, "c64": 2, "c32": 4}   # complex SIMD vectors keep real and imaginary parts in two registers
E_EINSUM, E_CONTRACTION, E_EXPLICIT, E_INNER, E_OUTER = 0, 1, 2, 3, 4


# ---------------------------------------------------------------------------------------------------------------------
# patterns
# ---------------------------------------------------------------------------------------------------------------------
def matchings(n):
    """all partial matchings of n positions as canonical label lists (labels numbered by first appearance)"""
    out = []

    def rec(i, lab, nxt):
        if i == n:
            out.append(tuple(lab)); return
        if lab[i] is not None:
            rec(i + 1, lab, nxt); return
        lab[i] = nxt
        rec(i + 1, lab, nxt + 1)            # unmatched
        for j in range(i + 1, n):           # matched with a later free position
            if lab[j] is None:
                lab[j] = nxt
                rec(i + 1, lab, nxt + 1)
                lab[j] = None
        lab[i] = None

    rec(0, [None] * n, 0)
    return out


_PAT = {}


def pair_patterns(r0, r1):
    key = (r0, r1)
    if key not in _PAT:
        _PAT[key] = [(m[:r0], m[r0:]) for m in matchings(r0 + r1)]
    return _PAT[key]


def all_pair_patterns(maxrank):
    ps = []
    for s in range(2, 2 * maxrank + 1):
        for r0 in range(1, maxrank + 1):
            r1 = s - r0
            if 1 <= r1 <= maxrank:
                ps += pair_patterns(r0, r1)
    return ps


def free_labels(lists):
    cat = [x for l in lists for x in l]
    return [x for x in cat if cat.count(x) == 1]


def renumber(lists, mode):
    cat = [x for l in lists for x in l]
    n = len(set(cat))
    if mode == "c":
        f = lambda x: x
    elif mode == "d":            # descending
        f = lambda x: n - 1 - x
    else:                        # sparse, scrambled, non-contiguous
        f = lambda x: ((x * 5 + 3) % 11) * 3 + 2
    return [tuple(f(x) for x in l) for l in lists]


# ---------------------------------------------------------------------------------------------------------------------
# mirror of the library's compile-time classification (Fastor/meta/einsum_meta.h), from the index lists alone
# ---------------------------------------------------------------------------------------------------------------------
def _match_from_end(a, b):
    i, j = len(a) - 1, len(b) - 1
    while True:
        if a[i] != b[j]:
            return False
        if j == 0 or i == 0:
            return True
        i -= 1; j -= 1


def _match_from_start(a, b):
    i = j = 0
    while True:
        if a[i] != b[j]:
            return False
        if j == len(b) - 1 or i == len(a) - 1:
            return True
        i += 1; j += 1


def classify(I, J):
    """0 general/dyadic, 1 inner, 2 generalised matvec, 3 vecmat, 4 matmat, -1: the classifier itself indexes out of bounds"""
    if tuple(I) == tuple(J):
        return 1
    n0, n1 = len(I), len(J)
    uniq = len(set(I) | set(J))
    mv = _match_from_end(I, J) and n0 != n1
    vm = _match_from_start(I, J) and n0 != n1
    if mv:
        return 2
    if vm:
        return 3
    is_inner = n0 == n1 and uniq == n1
    nc = n0 + n1 - uniq
    ok = False
    if nc != 0:
        ok = True
        for t in range(nc):
            k = n0 - nc + t
            if k < 0 or k >= n0 or t >= n1:
                return -1 if not is_inner else 0
            if J[t] != I[k]:
                ok = False; break
    if ok and not is_inner:
        return 4
    return 0


def stride_of(t, I, J, extB, cfg):
    if cfg.isa == "S0" or cfg.has_def("FASTOR_DONT_VECTORISE"):
        return 1
    if J[-1] in I:
        return 1
    w = SSE_W[t]
    if extB[-1] % (2 * w) == 0:
        return 2 * w
    if extB[-1] % w == 0:
        return w
    return 1


def route_of(entry, t, I, J, extB, cfg):
    cls = classify(I, J)
    st = stride_of(t, I, J, extB, cfg)
    allc = [x for x in I] + [x for x in J]
    dyadic = len(set(allc)) == len(allc)
    vec = {1: "scalar"}.get(st, "sse" if st == SSE_W[t] else "avx")
    lastrep = list(J).count(J[-1]) == 2
    if entry == "einsum":
        if cls == 1:
            return "einsum.inner", cls, st
        if cls in (2, 3, 4):
            n0, n1 = len(I), len(J)
            r2 = (n0 == 2 and n1 == 2 and cls == 4) or (cls in (2, 3) and {n0, n1} == {1, 2})
            within = len(set(I)) != len(I) or len(set(J)) != len(J)
            return "einsum.matmul." + {2: "gmv", 3: "gvm", 4: "gmm"}[cls] + (".rank2" if r2 else "") + (".withinrep" if within else ""), cls, st
        if cls == -1:
            return "einsum.classifier_oob", cls, st
    if dyadic:
        return entry + ".dyadic", cls, st
    red = len(free_labels([I, J])) == 0
    opt = ""
    for d in cfg.defs:
        if d.startswith("CONTRACT_OPT="):
            opt = ".opt" + d.split("=")[1]
    return f"{entry}.nest{opt}.{'lastrep.' if lastrep else ''}{'red' if red else ''}{'.' if red and lastrep else ''}{vec if (lastrep or not red) else ''}", cls, st


# ---------------------------------------------------------------------------------------------------------------------
# extents
# ---------------------------------------------------------------------------------------------------------------------
PALETTES = [[2, 3, 5, 7, 3, 2, 5, 2, 3, 2], [2, 3, 5, 2, 3, 2, 3, 2, 3, 2], [2, 3, 2, 3, 2, 3, 2, 3, 2, 3], [2, 3, 2, 2, 3, 2, 2, 2, 2, 2],
            [2, 2, 2, 2, 2, 2, 2, 2, 2, 2]]
VOL_CAP, OP_CAP, OUT_CAP = 6000, 2400, 8000


def _sizes(lists, ext):
    vol = 1
    for e in ext.values():
        vol *= e
    ops = []
    for l in lists:
        n = 1
        for x in l:
            n *= ext[x]
        ops.append(n)
    out = 1
    for x in free_labels(lists):
        out *= ext[x]
    return vol, max(ops), out


def assign(lists, kind, t, pidx=0):
    """extent per label (dict) for canonical label lists; kind in D (distinct-ish), W / W2 (last label of the last operand = 128/256-bit
    width), O (one label of extent 1)"""
    labs = sorted({x for l in lists for x in l})
    last = lists[-1][-1]
    w = SSE_W[t]
    for pal in PALETTES:
        ext = {x: pal[i] for i, x in enumerate(labs)}
        if kind == "W":
            ext[last] = w if w > 1 else 2
        elif kind == "W2":
            ext[last] = 2 * w
        elif kind == "W3":          # several 128-bit chunks but not a whole number of 256-bit ones
            ext[last] = 3 * w if w > 1 else 3
        elif kind == "O":
            ext[labs[pidx % len(labs)]] = 1
        vol, mo, out = _sizes(lists, ext)
        if vol <= VOL_CAP and mo <= OP_CAP and out <= OUT_CAP:
            return ext
    return ext


# ---------------------------------------------------------------------------------------------------------------------
# case construction
# ---------------------------------------------------------------------------------------------------------------------
def _idx(name, l):
    return f"{name}<{','.join(str(x) for x in l)}>"


def _tens(ct, dims):
    return f"Tensor<{ct}{''.join(',' + str(d) for d in dims)}>"


def _brace(rows, width=None):
    return "{" + ",".join("{" + ",".join(str(x) for x in (r if r else [0])) + "}" for r in rows) + "}"


def spec_text(lists, exts, outlab, nout, cap, pred, route=""):
    ranks = [len(l) for l in lists] + [0] * (4 - len(lists))
    ol = list(outlab) if outlab else [0]
    pr = list(pred) + [0] * (4 - len(pred))
    return (f"static const es::Spec s = {{{len(lists)},{{{','.join(map(str, ranks))}}},{_brace(lists)},{_brace(exts)},{nout},"
            f"{{{','.join(map(str, ol))}}},{cap:.1f},{{{','.join(map(str, pr))}}},\"{route}\"}};")


def basis_cap(tier):
    return 1.5e6 if tier == "quick" else 4.0e6


def pair_case(tier, cfg, t, entry, I, J, ext, out_order=None, cost=0.16):
    """I, J: label lists as passed to the library; ext: dict label -> extent; out_order: explicit output labels (OIndex)"""
    ct = CTYPE[t]
    eA = [ext[x] for x in I]; eB = [ext[x] for x in J]
    free = free_labels([I, J])
    entry, _, arg = entry.partition(":")          # "einsum:te" = tensor x expression operands, ":et", ":ee"
    E = {"einsum": E_EINSUM, "contraction": E_CONTRACTION, "explicit": E_EXPLICIT}[entry]
    if arg:
        E = {"einsum": 5, "contraction": 8}[entry] + {"te": 0, "et": 1, "ee": 2}[arg]
    outl = list(out_order) if out_order is not None else free
    exp = _tens(ct, [ext[x] for x in outl])
    route, cls, st = route_of("einsum" if entry == "explicit" else entry, t, I, J, eB, cfg)
    if entry == "explicit":
        route = "explicit." + ("identity" if outl == free else "permuted") + "." + route.split(".", 1)[1]
    O = _idx("OIndex", outl) if entry == "explicit" else "void"
    ident = f"C03/{entry}[{t}|I={','.join(map(str, I))};J={','.join(map(str, J))}|A={','.join(map(str, eA))};B={','.join(map(str, eB))}"
    if entry == "explicit":
        ident += "|O=" + ",".join(map(str, outl))
    if arg:
        ident += "|arg=" + arg
        route = "exprarg." + arg + "." + route
    ident += "]"
    pred = [cls, st] if entry == "einsum" and not arg else []
    body = spec_text([I, J], [eA, eB], outl, len(outl), basis_cap(tier), pred, route) + \
        f" c03::pair<{ct},{E},{_idx('Index', I)},{_idx('Index', J)},{O},{_tens(ct, eA)},{_tens(ct, eB)},{exp}>(fx,s);"
    return Case(ident, body, cost=cost + (0.12 if entry == "explicit" and outl != free else 0), meta={"route": route})


def single_case(tier, cfg, t, entry, I, ext, out_order=None, must_compile=True):
    ct = CTYPE[t]
    eA = [ext[x] for x in I]
    free = free_labels([I])
    outl = list(out_order) if out_order is not None else free
    E = {"einsum1": E_EINSUM, "contraction1": E_CONTRACTION, "explicit1": E_EXPLICIT}[entry]
    O = _idx("OIndex", outl) if entry == "explicit1" else "void"
    ident = f"C03/{entry}[{t}|I={','.join(map(str, I))}|A={','.join(map(str, eA))}" + ("|O=" + ",".join(map(str, outl)) if entry == "explicit1" else "") + "]"
    kind = "copy" if len(free) == len(I) else ("trace.red" if not free else "trace")
    route = f"{entry}.{kind}" + ("" if entry != "explicit1" else (".identity" if outl == free else ".permuted"))
    body = spec_text([I], [eA], outl, len(outl), basis_cap(tier), [], route) + \
        f" c03::single<{ct},{E},{_idx('Index', I)},{O},{_tens(ct, eA)},{_tens(ct, [ext[x] for x in outl])}>(fx,s);"
    return Case(ident, body, cost=0.12, must_compile=must_compile, meta={"route": route})


def inner_outer_cases(tier, cfg, t):
    out = []
    ct = CTYPE[t]
    w = cfg.w(t)
    ws = SSE_W[t]
    # inner(a,b): same shape, total size crossing the vector widths
    shapes = [(1,), (2,), (3,), (ws,), (ws + 1,), (2 * ws,), (2 * ws + 1,), (w,), (w + 1,), (2 * w + 1,), (3 * w + 2,), (2, 2), (2, 3), (3, 3), (3, w), (w, 3),
              (2, 3, 2), (3, 3, 3), (2, w, 2), (2, 3, 2, 2), (3, 2, 1, 2), (1, 1), (1, 5)]
    if tier == "thorough":
        shapes += [(n,) for n in range(4, 4 * w + 2) if n not in (ws, ws + 1)] + [(4, 4), (5, 7), (2, 2, 2, 2), (3, 3, 3, 3), (2, 5, 3, 2)]
    seen = set()
    for sh in shapes:
        if sh in seen or any(d < 1 for d in sh):
            continue
        seen.add(sh)
        labs = list(range(len(sh)))
        dims = ",".join(map(str, sh))
        n = 1
        for d in sh:
            n *= d
        route = f"inner.rank{len(sh)}.rem{n % w if w > 1 else 0}" if n < 4 * w else f"inner.rank{len(sh)}.long"
        body = spec_text([labs, labs], [list(sh), list(sh)], [], -1, basis_cap(tier), [], route) + \
            f" c03::pair<{ct},{E_INNER},void,void,void,{_tens(ct, sh)},{_tens(ct, sh)},{ct}>(fx,s);"
        out.append(Case(f"C03/inner[{t}|A={dims}]", body, cost=0.08, meta={"route": route}))
    # outer(a,b): result rank = r0 + r1; extent-1 operands select special overloads
    oshapes = [((2,), (3,)), ((3,), (2,)), ((ws,), (ws,)), ((3,), (2 * ws,)), ((2 * ws,), (3,)), ((w + 1,), (w,)), ((2, 3), (2,)), ((2,), (3, 2)), ((2, 3), (3, 2)),
               ((3, 2), (2, w)), ((2, 3, 2), (3,)), ((2,), (3, 2, 2)), ((2, 3, 2), (3, 2)), ((2, 3), (2, 3, 2)), ((2, 2, 3), (3, 2, ws)),
               ((1,), (3,)), ((3,), (1,)), ((1,), (1,)), ((2, 3), (1,)), ((1,), (2, 3)), ((1, 2), (3,)), ((2, 1), (1, 3)), ((2, 3), (1, 1)), ((1, 1), (2,))]
    if tier == "thorough":
        oshapes += [((m,), (n,)) for m in (1, 2, 3, 5) for n in range(1, 2 * w + 2)] + [((2, 3, 2, 2), (3,)), ((3,), (2, 3, 2, 2)), ((2, 3, 2, 2), (2, 2, 3, 2)),
                                                                                     ((2, 2), (2, 2, 2)), ((3, 3), (3, 3)), ((2, 3, 4), (1,)), ((1,), (2, 3, 4))]
    seen = set()
    for sa, sb in oshapes:
        if (sa, sb) in seen:
            continue
        seen.add((sa, sb))
        la = list(range(len(sa))); lb = list(range(len(sa), len(sa) + len(sb)))
        one = "one_a" if sa == (1,) else ("one_b" if sb == (1,) else "general")
        route = f"outer.{one}.r{len(sa)}x{len(sb)}"
        body = spec_text([la, lb], [list(sa), list(sb)], la + lb, len(la) + len(lb), basis_cap(tier), [], route) + \
            f" c03::pair<{ct},{E_OUTER},void,void,void,{_tens(ct, sa)},{_tens(ct, sb)},{_tens(ct, list(sa) + list(sb))}>(fx,s);"
        out.append(Case(f"C03/outer[{t}|A={','.join(map(str, sa))};B={','.join(map(str, sb))}]", body, cost=0.09, meta={"route": route}))
    return out


# ---------------------------------------------------------------------------------------------------------------------
# which cases for which (tier, configuration)
# ---------------------------------------------------------------------------------------------------------------------
def configs(tier):
    if tier == "quick":
        return [Config(isa=i) for i in MAIN3] + [Config(isa="A2", std="17"), Config(isa="A2", std="17", defs=("CONTRACT_OPT=-1",))]
    cfgs = [Config(isa=i) for i in ALL_ISAS]
    cfgs += [Config(isa=i, std="17") for i in MAIN3]
    cfgs += [Config(isa="A2", defs=(f"CONTRACT_OPT={v}",)) for v in (-1, 1, 2)]
    cfgs += [Config(isa="A2", defs=("FASTOR_DONT_VECTORISE",))]
    # the odometer variants have a C++17-only spelling of their index arithmetic (constexpr find_remaining)
    cfgs += [Config(isa="A2", std="17", defs=(f"CONTRACT_OPT={v}",)) for v in (-1, 1)]
    return cfgs


def _quick_patterns():
    ps = all_pair_patterns(3)
    for p in all_pair_patterns(4):
        if max(len(p[0]), len(p[1])) == 4 and classify(p[0], p[1]) in (2, 3, 4):
            ps.append(p)
    return ps


def _is_base(cfg):
    return cfg.std == "14" and not cfg.defs


def _pairwise(tier, cfg):
    """yield (type, entry, I, J, extents) in simplest-first order"""
    base = _is_base(cfg)
    main = cfg.isa in MAIN3
    opt = [d for d in cfg.defs if d.startswith("CONTRACT_OPT=")]
    if tier == "quick":
        pats = _quick_patterns()
    else:
        pats = all_pair_patterns(4)
    for pi, (I, J) in enumerate(pats):
        lists = [I, J]
        cls = classify(I, J)
        last_free = J[-1] not in I
        rs = len(I) + len(J)
        plan = []   # (type, entry, numbering, kind)
        if cfg.std == "17" and not opt:
            # C++17 builds: the language-gated branches (if constexpr, CONTRACT_OPT remainings); reduced pattern set
            if rs <= (5 if tier == "quick" else 6):
                plan += [("f64", "einsum", "c", "D")]
                if tier == "thorough":
                    plan += [("f32", "einsum", "c", "W"), ("f64", "contraction", "c", "D")]
        elif opt:
            v = int(opt[0].split("=")[1])
            nest = cls in (0, -1) and len(set(I + J)) != len(I + J)
            if v == 2:
                # CONTRACT_OPT=2 is consumed by strided_contraction.h only; pairwise einsum/contraction take the default nest
                if rs <= 5:
                    plan += [("f64", "einsum", "c", "D"), ("f64", "contraction", "c", "D")]
            elif cfg.std == "17":
                # macro variant x language level: the C++17 spelling of the same nests, reduced pattern set
                if (nest or cls in (1, 2, 3, 4)) and rs <= (5 if tier == "quick" else 6):
                    plan += [("f64", "contraction", "c", "D")]
                    if nest:
                        plan += [("f64", "einsum", "c", "D")]
            elif nest or cls in (1, 2, 3, 4):
                # these variants replace the loop nest inside extractor_contract_2: reached through contraction<> for every pattern
                # and through einsum<> for the patterns that are not re-routed to inner/_matmul/_dyadic
                plan += [("f64", "contraction", "c", "D")]
                if rs <= 7 or last_free:
                    plan += [("f64", "contraction", "c", "W")]
                if last_free:
                    plan += [("f64", "contraction", "c", "W2")]
                    if rs <= 6:
                        plan += [("f32", "contraction", "c", "W")]
                if nest and rs <= 6:
                    plan += [("f64", "einsum", "c", "D")]
                if rs <= 5:
                    plan += [("f64", "contraction", "d", "D"), ("i32", "contraction", "c", "D")]
        elif cfg.has_def("FASTOR_DONT_VECTORISE"):
            plan += [("f64", "einsum", "c", "D")]
            if rs <= 6:
                plan += [("f64", "einsum", "c", "W"), ("f32", "einsum", "c", "W")]
        elif tier == "quick":
            plan += [("f64", "einsum", "c", k) for k in ("D", "W", "O")]
            if last_free:
                plan += [("f64", "einsum", "c", "W2"), ("f32", "einsum", "c", "W2")]
            plan += [("f64", "einsum", "d", "D"), ("f64", "contraction", "c", "D"), ("f32", "einsum", "c", "W"), ("i32", "einsum", "c", "D")]
            if cls in (1, 2, 3, 4) or J.count(J[-1]) == 2:
                plan += [("f64", "contraction", "c", "W")]
            if last_free and rs <= 5:
                plan += [("i32", "einsum", "c", "W3"), ("f64", "einsum", "c", "W3")]
        elif main:
            if last_free and rs <= 6:
                plan += [(tt, "einsum", "c", "W3") for tt in ("f64", "f32", "i32", "i64", "c64")]
            plan += [("f64", "einsum", "c", "D"), ("f64", "einsum", "c", "W")]
            if last_free:
                plan += [("f64", "einsum", "c", "W2"), ("f32", "einsum", "c", "W2")]
            if rs <= 7:
                plan += [("f64", "einsum", "c", "O"), ("f64", "einsum", "d", "D"), ("f32", "einsum", "c", "W"), ("i32", "einsum", "c", "D")]
            if rs <= 7 or cls in (1, 2, 3, 4):
                plan += [("f64", "contraction", "c", "D")]
            if cls in (1, 2, 3, 4) or J.count(J[-1]) == 2:
                plan += [("f64", "contraction", "c", "W")]
            if rs <= 6:
                plan += [("f64", "einsum", "s", "D"), ("i64", "einsum", "c", "W"), ("c64", "einsum", "c", "D")]
            if rs <= 5:
                plan += [("f32", "contraction", "c", "W")]
            if rs <= 4:
                plan += [("c32", "einsum", "c", "W"), ("i64", "contraction", "c", "D")]
        elif cfg.isa == "S4":
            # SSE4.2 differs from SSE2 in the integer helpers only
            if rs <= 7:
                plan += [("i32", "einsum", "c", "D")]
            if rs <= 6:
                plan += [("f64", "einsum", "c", "D"), ("i32", "einsum", "c", "W")]
        elif cfg.isa == "A1":
            if rs <= 7:
                plan += [("f64", "einsum", "c", "D"), ("f64", "einsum", "c", "W"), ("f32", "einsum", "c", "W")]
            if rs <= 6:
                plan += [("i32", "einsum", "c", "D")]
        else:   # S0
            plan += [("f64", "einsum", "c", "D")]
            if rs <= 7:
                plan += [("f64", "einsum", "c", "W")]
            if rs <= 6:
                plan += [("f32", "einsum", "c", "W"), ("i32", "einsum", "c", "D"), ("f64", "einsum", "d", "D")]
        if _is_base(cfg) and cfg.isa in MAIN3 and cls != -1 and rs <= (4 if tier == "quick" else 5):
            # unevaluated operands: the AbstractTensor overloads evaluate and forward
            plan += [("f64", e + ":" + a, "c", "D") for e in ("einsum", "contraction") for a in ("te", "et", "ee")]
        if cls == -1:
            # the classifier's out-of-bounds compile error does not depend on extents, types or numbering (~3 s of compile-failure
            # attribution per rejected case): one einsum case per pattern, all patterns on S2 (and on every quick build), small ones elsewhere
            keep_oob = tier == "quick" or cfg.tag == "S2-c14-O2" or rs <= 5
            plan = [x for x in plan if x[1] != "einsum" or (keep_oob and x[0] == "f64" and x[2] == "c" and x[3] == "D")]
        for (t, entry, num, kind) in plan:
            ext = assign(lists, kind, t, pi)
            nl = renumber(lists, num)
            m = dict(zip([x for l in lists for x in l], [x for l in nl for x in l]))
            yield t, entry, nl[0], nl[1], {m[k]: v for k, v in ext.items()}


def _explicit(tier, cfg):
    """explicit-output einsum<I,J,OIndex<perm of the free labels>> (C++17 builds only)"""
    maxsum = 4 if tier == "quick" else 5
    for pi, (I, J) in enumerate(all_pair_patterns(4)):
        rs = len(I) + len(J)
        free = free_labels([I, J])
        if not free:
            continue    # OIndex<> : nothing to permute (not enumerated)
        if rs > maxsum and not (tier == "quick" and rs == 5 and len(free) <= 2):
            continue
        perms = list(itertools.permutations(free))
        if tier == "quick" and len(perms) > 6:
            perms = perms[:1] + perms[1::4]
        ext = assign([I, J], "D", "f64", pi)
        for pm in perms:
            yield "f64", I, J, ext, list(pm)
        if tier == "thorough" and rs <= 4:
            extw = assign([I, J], "W", "f32", pi)
            for pm in perms:
                yield "f32", I, J, extw, list(pm)
            nl = renumber([I, J], "d")
            m = dict(zip(list(I) + list(J), list(nl[0]) + list(nl[1])))
            for pm in perms:
                yield "f64", nl[0], nl[1], {m[k]: v for k, v in ext.items()}, [m[x] for x in pm]


def _singles(tier, cfg):
    out = []
    base = _is_base(cfg)
    for r in range(1, 6):
        for pi, m in enumerate(matchings(r)):
            for t in (["f64", "f32", "i32"] if base else ["f64"]):
                for num in ("c", "d"):
                    if num == "d" and t != "f64":
                        continue
                    I = renumber([m], num)[0]
                    mp = dict(zip(m, I))
                    for kind in (("D", "O") if t == "f64" and num == "c" else ("D",)):
                        e0 = assign([m], kind, t, pi)
                        ext = {mp[k]: v for k, v in e0.items()}
                        if cfg.std != "17" or tier == "thorough":
                            out.append(single_case(tier, cfg, t, "einsum1", I, ext))
                        if t == "f64" and kind == "D" and cfg.std != "17":
                            out.append(single_case(tier, cfg, t, "contraction1", I, ext))
                        if cfg.std == "17" and kind == "D" and num == "c":
                            free = free_labels([I])
                            if free and len(free) <= 4:
                                for pm in itertools.permutations(free):
                                    out.append(single_case(tier, cfg, t, "explicit1", I, ext, list(pm)))
    return out


def cases(tier, cfg):
    out, seen = [], set()

    def add(c):
        if c.id not in seen:
            seen.add(c.id); out.append(c)

    types_io = (["f64", "f32", "i32"] if tier == "quick" else ["f64", "f32", "i32", "i64", "c64"]) if _is_base(cfg) else []
    if tier == "thorough" and cfg.isa not in MAIN3:
        types_io = [t for t in types_io if t in ("f64", "f32", "i32")]
    for t in types_io:
        for c in inner_outer_cases(tier, cfg, t):
            add(c)
    if not any(d.startswith("CONTRACT_OPT") for d in cfg.defs):
        for c in _singles(tier, cfg):
            add(c)
    # pairwise: group the entries of one (lists, extents) next to each other so the shared instantiations land in one TU
    late = []
    for (t, entry, I, J, ext) in _pairwise(tier, cfg):
        heavy = 0.05 * max(0, len(I) + len(J) - 5)
        if entry == "einsum" and classify(I, J) == -1:
            # the library's classifier indexes out of bounds (hard compile error): keep these predicted rejections together in small
            # translation units at the end, so the compile-failure attribution rebuilds little
            late.append(pair_case(tier, cfg, t, entry, I, J, ext, cost=3.0))
        else:
            add(pair_case(tier, cfg, t, entry, I, J, ext, cost=0.15 + heavy))
    if cfg.std == "17":
        for (t, I, J, ext, pm) in _explicit(tier, cfg):
            c = pair_case(tier, cfg, t, "explicit", I, J, ext, out_order=pm)
            if classify(I, J) == -1:
                c.cost = 3.0; late.append(c)
            else:
                add(c)
    if cfg.std != "17" and tier == "quick" and cfg.isa == "S2" and _is_base(cfg):
        # the explicit-output overloads are declared only under FASTOR_CXX_VERSION >= 2017: under C++14 the spelling is rejected by design
        ext = assign([(0, 1), (1, 2)], "D", "f64")
        c = pair_case(tier, cfg, "f64", "explicit", (0, 1), (1, 2), ext, out_order=[2, 0])
        c.must_compile = False; c.judged = False
        add(c)
        c = single_case(tier, cfg, "f64", "explicit1", (0, 1, 1), assign([(0, 1, 1)], "D", "f64"), [0], must_compile=False)
        c.judged = False
        add(c)
    for c in late:
        add(c)
    return out


def prelude(tier, cfg):
    return "using namespace Fastor;"


def bounds(tier):
    common = ("patterns = every partial matching of the r0+r1 index positions (no label more than twice, between and within the lists; 1600 for "
              "ranks<=4: 2,8,30,104,228,464,764 for rank sums 2..8); extents per pattern: D = pairwise distinct-ish by label from "
              "(2,3,5,7,3,2,5,2), shrunk towards (2,3,2,3,..) until loop volume <= 6000, operand <= 2400, result <= 8000 elements; W / W2 = last "
              "label of operand 2 set to the 128-bit / 256-bit vector width of the element type (the two is_vectorisable classes - the library "
              "chooses between simd_abi::sse and simd_abi::avx from the extent alone, independently of the ISA, so cfg.w() is not used here), W2 "
              "only when that label is not in operand 1; O = D with one label of extent 1; numberings c = canonical (first appearance), d = "
              "descending, s = sparse scrambled (thorough); result type judged once per case, values by addr + 2 generic + basis (complete when "
              "|A||B|(volume+|R|) <= 1.5e6 quick / 4e6 thorough, else per-operand) + one non-integer point; explicit-output form not enumerated for "
              "patterns without free labels (OIndex<>); the 28 patterns on which the library's own classifier indexes out of bounds (hard compile "
              "error, independent of extents/types) are instantiated once each per build (all 28 on S2 thorough, rank sums<=5 elsewhere); "
              "strided_contraction<> (the only consumer of CONTRACT_OPT=2; not an entry point named by the property) is not enumerated; "
              "CONTRACT_OPT=-2/-3 (compile-time meta-engine variants with documented static_asserts) not enumerated")
    if tier == "quick":
        return ("ranks r0,r1<=3 (168 patterns) + the 37 rank-4 patterns classified generalised matvec/vecmat/matmat; f64: einsum x {D,W,O,(W2)} "
                "canonical, D descending, contraction x D (x W where contraction<> takes another route than einsum<>); f32: W,(W2); i32: D; f64 and i32 W3 (last extent = three 128-bit vectors) where the last label is free and the rank sum <=5; "
                "single-tensor einsum/contraction: all 43 patterns up to rank 5 (f64 D,O + descending, f32/i32 D); inner: 23 shapes, outer: 24 shape "
                "pairs per type (incl. extent-1 operands); explicit OIndex (A2 C++17): rank sums <=4 all permutations of the free labels, rank sum 5 "
                "with <=2 free labels, single-tensor all permutations; unevaluated operands (tensor/expression combinations) for einsum<> and contraction<> on rank sums <=4; configurations S2, A2, A5 (C++14) + A2 (C++17) + A2 (C++17, CONTRACT_OPT=-1: contraction<> and nest einsum<> for rank sums <=5). " + common)
    return ("all 1600 patterns for ranks r0,r1<=4. S2/A2/A5 (C++14): f64 einsum D,W,(W2) on all patterns; O, descending, f32 W, i32 D and contraction D "
            "for rank sums <=7 (contraction also for every rank-8 pattern einsum<> re-routes); sparse numbering, i64 W, complex<double> D for rank sums "
            "<=6; complex<float>, i64 contraction for rank sums <=4. S0: f64 D all, W for rank sums <=7, f32/i32/descending <=6; A1: f64 D,W + f32 W "
            "for rank sums <=7; S4 (differs from S2 in integer helpers): i32 D <=7, f64 D + i32 W <=6. C++17 on S2/A2/A5: rank sums <=6 (f64 D, f32 W, "
            "contraction) + explicit OIndex for rank sums <=5 with all permutations of the free labels (f32 and descending for rank sums <=4). A2 with "
            "CONTRACT_OPT=-1 and =1 (odometer / index-arithmetic nests inside extractor_contract_2): contraction<> on every pattern that is not an "
            "outer product (f64 D; W for rank sums<=7; W2, f32 where the last label is free) and einsum<> on nest patterns of rank sums <=6; "
            "Unevaluated operands (te/et/ee) for einsum<> and contraction<> on rank sums <=5 (S2/A2/A5). W3 (last extent = three 128-bit vectors) for f64,f32,i32,i64,complex<double> where the last label is free, rank sums <=6, on S2/A2/A5. CONTRACT_OPT=2: rank sums <=5 (the macro does not reach these entry points). A2 C++17 with CONTRACT_OPT=-1 and =1 (constexpr spelling of the odometer arithmetic): rank sums <=6. A2 + FASTOR_DONT_VECTORISE: f64 D all, W + f32 W <=6. "
            "inner/outer: all N<=4W+1 vectors, unit-extent operands; i64 and complex<double> on S2/A2/A5. " + common)


def expected_routes(tier):
    r = ["einsum.inner", "einsum.matmul.gmv", "einsum.matmul.gvm", "einsum.matmul.gmm", "einsum.matmul.gmm.rank2", "einsum.matmul.gmv.rank2",
         "einsum.matmul.gvm.rank2", "einsum.matmul.gmv.withinrep", "einsum.matmul.gvm.withinrep", "einsum.dyadic", "einsum.nest.scalar",
         "einsum.nest.sse", "einsum.nest.avx", "einsum.nest.red", "einsum.nest.lastrep.scalar", "einsum.nest.lastrep.sse", "einsum.nest.lastrep.avx",
         "einsum.nest.lastrep.red.scalar", "einsum.nest.lastrep.red.sse", "einsum.nest.lastrep.red.avx", "contraction.dyadic",
         "contraction.nest.scalar", "contraction.nest.sse", "contraction.nest.red", "contraction.nest.lastrep.scalar", "contraction.nest.lastrep.sse",
         "einsum1.trace", "einsum1.trace.red", "einsum1.copy", "contraction1.trace", "explicit.permuted.nest.scalar", "explicit.permuted.dyadic",
         "explicit.permuted.matmul.gmm.rank2", "explicit.identity.nest.scalar", "explicit1.trace.permuted", "explicit1.copy.permuted",
         "outer.general.r1x1", "outer.one_a.r1x1", "outer.one_b.r1x1", "inner.rank1.rem0", "inner.rank2.rem0"]
    if tier == "thorough":
        r += ["contraction.nest.opt-1.scalar", "contraction.nest.opt1.scalar", "contraction.nest.opt-1.sse", "contraction.nest.opt1.avx",
              "contraction.nest.opt-1.red", "contraction.nest.opt1.red", "einsum.nest.opt1.scalar", "contraction.nest.opt-1.lastrep.sse"]
    return r
