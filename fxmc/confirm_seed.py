"""python3 -m fxmc.confirm_seed <prop> <srcdir> <n>[:<as>] [<n>[:<as>] ...]

Confirms seeded changes delivered by an independent agent (srcdir/out/patch<n>.diff, demo<n>.cpp, notes<n>.md) and files the confirmed
ones under /verif/seeded/<prop>-<n>/ (patch.diff, demo.cpp, notes.md, meta.json).  Confirmation, all in a scratch worktree of /repo's HEAD
under /tmp (never /repo itself):
  1. the patch applies to the current HEAD;
  2. the pinned suite builds and every test of BASELINE.stable_pass passes with the patch applied;
  3. the demonstration passes (exit 0) on the unmodified tree and fails (exit != 0) with the patch.
"""
import json, os, re, shutil, subprocess, sys, time

VERIF = os.path.dirname(os.path.dirname(os.path.abspath(__file__)))
WT = os.environ.get("FXMC_CONFIRM_WT", "/tmp/fxconfirm/wt")    # a second confirmation can run in parallel in another scratch worktree
JOBS = os.environ.get("FXMC_CONFIRM_JOBS", "8")


def sh(cmd, **kw):
    return subprocess.run(cmd, shell=isinstance(cmd, str), capture_output=True, text=True, **kw)


def ensure_wt():
    head = sh(["git", "-C", "/repo", "rev-parse", "HEAD"]).stdout.strip()
    if os.path.exists(WT):
        cur = sh(["git", "-C", WT, "rev-parse", "HEAD"]).stdout.strip()
        if cur == head:
            sh(["git", "-C", WT, "checkout", "--", "."])
            return head
        sh(["git", "-C", "/repo", "worktree", "remove", "--force", WT])
    os.makedirs(os.path.dirname(WT), exist_ok=True)
    r = sh(["git", "-C", "/repo", "worktree", "add", "--detach", WT, head])
    if r.returncode:
        raise SystemExit(r.stderr)
    r = sh(f"cmake -G Ninja -S {WT} -B {WT}/_build -DCMAKE_BUILD_TYPE=RelWithDebInfo -DCMAKE_CXX_FLAGS=-Wno-error")
    if r.returncode:
        raise SystemExit(r.stdout[-2000:] + r.stderr[-2000:])
    return head


def suite():
    b = sh(f"cmake --build {WT}/_build -j{JOBS}")
    if b.returncode:
        return None, "suite does not build: " + (b.stdout + b.stderr)[-1500:]
    t = sh(f"ctest --test-dir {WT}/_build -j{JOBS} --timeout 900")
    passed = set(re.findall(r"Test +#\d+: (\S+) \.+ +Passed", t.stdout))
    return passed, t.stdout[-600:]


def demo_cmd(path, root):
    first = open(path).readline()
    m = re.search(r"//\s*(g\+\+|clang\+\+)(.*)", first)
    if not m:
        return None
    cmd = m.group(1) + m.group(2)
    cmd = re.split(r"\s{2,}|\(|#|;", cmd)[0]          # drop trailing commentary after the command
    mo = re.search(r"^(.*?-o\s*\S+)", cmd)
    if mo:
        cmd = mo.group(1)
    cmd = re.sub(r"-I\s*\S+", f"-I{root}", cmd)
    cmd = re.sub(r"\S*demo\d*\.cpp", path, cmd)
    cmd = re.sub(r"-o\s*\S+", "", cmd) + f" -o {path}.bin"
    return cmd


def run_demo(path, root):
    cmd = demo_cmd(path, root)
    if not cmd:
        return None, "no compile command in the first line"
    c = sh(cmd)
    if c.returncode:
        return None, "demo does not compile: " + (c.stdout + c.stderr)[-800:]
    try:
        r = subprocess.run([path + ".bin"], capture_output=True, text=True, timeout=300)
        rc, out = r.returncode, (r.stdout + r.stderr)[-400:]
    except subprocess.TimeoutExpired:
        rc, out = 124, "timeout"
    os.remove(path + ".bin")
    return rc, out


def main():
    prop, src = sys.argv[1], sys.argv[2]
    nums = sys.argv[3:]
    stable = [t.split("::")[0] for t in json.load(open("/root/.vp/BASELINE.json"))["stable_pass"]]
    head = ensure_wt()
    for n in nums:
        n, _, dest = n.partition(":")          # "1:3" = deliver patch1 as <prop>-3 (second and later seeding rounds)
        sid = f"{prop}-{dest or n}"
        patch = os.path.join(src, "out", f"patch{n}.diff")
        demo = os.path.join(src, "out", f"demo{n}.cpp")
        notes = os.path.join(src, "out", f"notes{n}.md")
        rec = {"id": sid, "property": prop, "repo_head": head, "confirmed": False, "ran": []}
        sh(["git", "-C", WT, "checkout", "--", "."])
        a = sh(["git", "-C", WT, "apply", "--check", patch])
        rec["ran"].append("git apply --check (scratch worktree of /repo HEAD)")
        if a.returncode:
            rec["reason"] = "patch does not apply to the current HEAD: " + a.stderr[-300:]
            print(json.dumps(rec, indent=1)); continue
        d = os.path.join(VERIF, "seeded", sid)
        os.makedirs(d, exist_ok=True)
        work_demo = os.path.join("/tmp/fxconfirm", f"demo_{sid}.cpp")
        shutil.copy(demo, work_demo)
        rc0, out0 = run_demo(work_demo, WT)
        rec["demo_unmodified"] = {"exit": rc0, "tail": out0}
        sh(["git", "-C", WT, "apply", patch])
        rc1, out1 = run_demo(work_demo, WT)
        rec["demo_patched"] = {"exit": rc1, "tail": out1}
        rec["ran"].append("demo compiled with its own first-line command against the unmodified and the patched worktree")
        t0 = time.time()
        passed, tail = suite()
        rec["ran"].append(f"cmake --build + ctest of the pinned suite with the patch applied ({time.time() - t0:.0f}s)")
        if passed is None:
            rec["reason"] = tail
        else:
            missing = [t for t in stable if t not in passed]
            rec["suite"] = {"passed": len(passed), "stable_missing": missing}
            rec["confirmed"] = (rc0 == 0 and rc1 not in (0, None) and not missing)
            if not rec["confirmed"]:
                rec["reason"] = f"demo exit unmodified={rc0} patched={rc1}; stable tests not passing: {missing}"
        sh(["git", "-C", WT, "checkout", "--", "."])
        if rec["confirmed"]:
            shutil.copy(patch, os.path.join(d, "patch.diff")); shutil.copy(demo, os.path.join(d, "demo.cpp"))
            if os.path.exists(notes):
                shutil.copy(notes, os.path.join(d, "notes.md"))
            needs = ""
            if os.path.exists(notes):
                needs = open(notes).read()[:1500]
            meta = {"id": sid, "property": prop, "breaks": prop, "origin": "independent sub-agent given only the property text and a scratch worktree",
                    "needs_to_manifest": needs, "confirmation": rec}
            json.dump(meta, open(os.path.join(d, "meta.json"), "w"), indent=1)
        else:
            shutil.rmtree(d, ignore_errors=True)
        print(json.dumps(rec, indent=1), flush=True)


if __name__ == "__main__":
    main()
