"""python3 -m fxmc.seedtable [--update-design] -> markdown table of /verif/seeded/*/meta.json (used for DESIGN.md section 12)"""
import json, os, re
VERIF = os.path.dirname(os.path.dirname(os.path.abspath(__file__)))


def main():
    rows = []
    for d in sorted(os.listdir(os.path.join(VERIF, "seeded"))):
        p = os.path.join(VERIF, "seeded", d, "meta.json")
        if not os.path.exists(p):
            continue
        m = json.load(open(p))
        notes = m.get("needs_to_manifest", "")
        title = next((l.lstrip("# ").strip() for l in notes.split("\n") if l.startswith("#")), "")
        title = re.sub(r"^(C\d+\s*)?(seeded )?(change|Change|mutation)\s*\d*\s*[-–—:]*\s*", "", title)[:110]
        det = m.get("detection", {})
        by = [k for k, v in det.items() if v.get("detected")]
        miss = [k for k, v in det.items() if not v.get("detected")]
        first = ""
        for k in by:
            first = det[k].get("first", "").split(" @ ")[0]
            break
        rows.append((d, title or "(see notes.md)", ", ".join(by) or "-", ", ".join(miss) or "", first[:70]))
    lines = ["| seed | change (title from the author's notes) | detected by | ran, not detected | first violating case |", "|---|---|---|---|---|"]
    for r in rows:
        lines.append("| " + " | ".join(x.replace("|", "\\|") for x in r) + " |")
    text = "\n".join(lines)
    import sys
    if "--update-design" in sys.argv:
        # replaces everything between the two markers in DESIGN.md section 12
        dp = os.path.join(VERIF, "DESIGN.md")
        d = open(dp).read()
        a, b = "<!-- SEEDTABLE -->", "<!-- /SEEDTABLE -->"
        if b in d:
            d = d[:d.index(a)] + a + "\n" + text + "\n" + b + d[d.index(b) + len(b):]
        else:
            d = d.replace(a, a + "\n" + text + "\n" + b)
        open(dp, "w").write(d)
    else:
        print(text)


if __name__ == "__main__":
    main()
