"""python3 -m fxmc check Cnn --tier quick|thorough [--root DIR] | replay PATH | list"""
import argparse, os, sys
from . import engine


def main():
    ap = argparse.ArgumentParser(prog="fxmc")
    sub = ap.add_subparsers(dest="cmd", required=True)
    c = sub.add_parser("check")
    c.add_argument("prop")
    c.add_argument("--tier", default=os.environ.get("VERIF_TIER", "quick"), choices=["quick", "thorough"])
    c.add_argument("--root", default=os.environ.get("FXMC_ROOT", engine.DEFAULT_ROOT))
    c.add_argument("--cfg", default=None, help="regex on configuration tags (debugging)")
    c.add_argument("--cases", default=None, help="regex on case identities (debugging)")
    c.add_argument("--keep", action="store_true")
    c.add_argument("--quiet", action="store_true")
    r = sub.add_parser("replay")
    r.add_argument("path")
    r.add_argument("--root", default=os.environ.get("FXMC_ROOT", engine.DEFAULT_ROOT))
    sub.add_parser("setup")
    a = ap.parse_args()
    if a.cmd == "check":
        sys.exit(engine.check(a.prop, a.tier, root=a.root, only_cfg=a.cfg, case_filter=a.cases, keep=a.keep,
                              verbose=not a.quiet))
    if a.cmd == "replay":
        sys.exit(engine.replay(a.path, root=a.root))
    if a.cmd == "setup":
        from .configs import have_compiler, host_can_run, ALL_ISAS
        ok = have_compiler("g++")
        print("g++:", ok, "clang++:", have_compiler("clang++"))
        print("runnable ISA tags:", [i for i in ALL_ISAS if host_can_run(i)])
        os.makedirs(os.path.join(engine.VERIF, "evidence"), exist_ok=True)
        sys.exit(0 if ok else 1)


main()
