"""fxmc engine: enumerate -> generate -> build -> run -> judge -> evidence (DESIGN.md section 3)."""
import concurrent.futures as cf
import hashlib, importlib, json, os, re, shutil, signal, subprocess, sys, threading, time

from .configs import Config, host_can_run, have_compiler

VERIF = os.path.dirname(os.path.dirname(os.path.abspath(__file__)))
HARNESS = os.path.join(VERIF, "harness")
DEFAULT_ROOT = "/repo"
JOBS = int(os.environ.get("FXMC_JOBS", "16"))
TIER_DEADLINE = {"quick": 15 * 60, "thorough": 40 * 60}    # quick tiers take 1-4 minutes on 16 idle cores; the slack is for a shared machine
MAX_PRINTED = 20


class Case:
    """One compile-time case: identity + C++ body of `static void fx_case_k(fx::Ctx& fx)`."""
    __slots__ = ("id", "body", "route", "must_compile", "cost", "judged", "meta")

    def __init__(self, id, body, route=None, must_compile=True, cost=1.0, judged=True, meta=None):
        self.id, self.body, self.route, self.must_compile, self.cost, self.judged = id, body, route, must_compile, cost, judged
        self.meta = meta or {}


class CaseResult:
    def __init__(self, case, cfg):
        self.case, self.cfg = case, cfg
        self.status = "not_run"      # pass | fail | compile_reject | crash | timeout | not_run
        self.evals = self.nontrivial = self.fails = self.hangs = self.sigs = 0
        self.capped = False
        self.records = []            # textual F/X/S/H records
        self.routes = {}
        self.notes = []
        self.dumps = {}
        self.detail = ""
        self.replay_state = None     # None | "same" | "nondeterministic"


def _pack(cases, budget):
    tus, cur, acc = [], [], 0.0
    for c in cases:
        if cur and (acc + c.cost > budget or len(cur) >= 64):
            tus.append(cur); cur, acc = [], 0.0
        cur.append(c); acc += c.cost
    if cur:
        tus.append(cur)
    return tus


def tu_source(header, cases_with_k, prelude=""):
    lines = ['#include "fx.h"', f'#include "{header}"', prelude]
    for k, c in cases_with_k:
        body = c.body.replace("\n", " ")
        lines.append(f"#if FX_EN({k})")
        lines.append(f"static FX_NOINLINE void fx_case_{k}(fx::Ctx& fx) {{ {body} }}")
        lines.append("#endif")
    lines.append("static const fx::CaseEntry fx_cases[] = {")
    for k, c in cases_with_k:
        cid = c.id.replace("\\", "\\\\").replace('"', '\\"')
        lines.append(f"#if FX_EN({k})")
        lines.append(f'  {{{k}, "{cid}", fx_case_{k}}},')
        lines.append("#endif")
    lines.append("  {-1, \"\", nullptr} };")
    lines.append("int main(int argc, char** argv) { return fx::fx_main(argc, argv, fx_cases, (int)(sizeof(fx_cases)/sizeof(fx_cases[0])) - 1); }")
    return "\n".join(lines) + "\n"


class Runner:
    def __init__(self, prop, tier, root=DEFAULT_ROOT, deadline_s=None, seed=None, verbose=True, only_cfg=None,
                 case_filter=None, keep=False):
        self.mod = importlib.import_module(f"fxmc.props.{prop}")
        self.prop, self.tier, self.root = prop, tier, os.path.abspath(root)
        self.seed = int(seed if seed is not None else os.environ.get("VERIF_SEED", "20261002") or 20261002)
        dl = os.environ.get("FXMC_DEADLINE_S")
        self.deadline_s = float(deadline_s if deadline_s is not None else (dl if dl else TIER_DEADLINE[tier]))
        self.t0 = time.time()
        self.verbose, self.only_cfg, self.case_filter, self.keep = verbose, only_cfg, case_filter, keep
        self.build = os.path.join(VERIF, "build", f"{prop}-{tier}-{os.getpid()}")
        self.results = {}            # (cfgtag, caseid) -> CaseResult
        self.cfg_stats = {}
        self.lock = threading.Lock()
        self.deadline_hit = False
        self.compile_only = []
        self.tu_info = {}            # (cfgtag, tu) -> (dir, [(k, case)])

    # -------------------------------------------------------------------------------------
    def log(self, *a):
        if self.verbose:
            print(f"[{time.time() - self.t0:7.1f}s]", *a, flush=True)

    def time_left(self):
        return self.deadline_s - (time.time() - self.t0)

    # -------------------------------------------------------------------------------------
    def compile_cmd(self, cfg, src, out, extra=()):
        return [cfg.cxx] + cfg.flags() + [f"-I{self.root}", f"-I{HARNESS}"] + list(extra) + ["-o", out, src] + \
            list(getattr(self.mod, "LINK_FLAGS", []))

    def _compile(self, cfg, src, out, extra=(), timeout=900):
        try:
            p = subprocess.run(self.compile_cmd(cfg, src, out, extra), stdout=subprocess.PIPE, stderr=subprocess.STDOUT,
                               timeout=timeout, text=True, errors="replace")
            return p.returncode, p.stdout
        except subprocess.TimeoutExpired:
            return 124, "compiler timeout"

    def _build_tu(self, cfg, d, name, cwk, header, prelude):
        """returns (binary or None, rejected {k: msg}) ; iteratively removes cases the compiler rejects"""
        rejected = {}
        live = list(cwk)
        src = os.path.join(d, name + ".cpp")
        binp = os.path.join(d, name + ".bin")
        for _round in range(8):
            if not live:
                return None, rejected
            text = tu_source(header, live, prelude)
            with open(src, "w") as f:
                f.write(text)
            rc, out = self._compile(cfg, src, binp)
            if rc == 0:
                return binp, rejected
            # attribute: which case lines does the diagnostic mention?
            line_of = {}
            for i, ln in enumerate(text.split("\n"), 1):
                m = re.match(r"static FX_NOINLINE void fx_case_(\d+)\(", ln)
                if m:
                    line_of[i] = int(m.group(1))
            blamed = []
            for m in re.finditer(re.escape(os.path.basename(src)) + r":(\d+)", out):
                k = line_of.get(int(m.group(1)))
                if k is not None and k not in blamed:
                    blamed.append(k)
            # after a few unproductive rounds, or without attribution, look at every case on its own
            cand = blamed if (blamed and _round < 6) else [k for k, _ in live]
            confirmed = []
            for k in cand:
                rc1, out1 = self._compile(cfg, src, "/dev/null", extra=[f"-DFX_ONLY={k}", "-fsyntax-only"])
                if rc1 != 0:
                    confirmed.append(k)
                    rejected[k] = _first_error(out1)
            if not confirmed:
                if cand is blamed:
                    continue_all = [k for k, _ in live if k not in blamed]
                    for k in continue_all:
                        rc1, out1 = self._compile(cfg, src, "/dev/null", extra=[f"-DFX_ONLY={k}", "-fsyntax-only"])
                        if rc1 != 0:
                            confirmed.append(k); rejected[k] = _first_error(out1)
                if not confirmed:
                    # the TU fails as a whole although every case is fine alone (e.g. link error): reject all, loudly
                    for k, _ in live:
                        rejected[k] = "TU failed to build: " + _first_error(out)
                    return None, rejected
            live = [(k, c) for k, c in live if k not in confirmed]
        for k, _ in live:
            rejected[k] = "TU still failing after attribution rounds"
        return None, rejected

    def _run_bin(self, cfg, binp, respath, cwk, timeout):
        """run a case binary to completion, restarting after crashes; returns {k: ('crash'|'timeout', info)}"""
        bad = {}
        frm = 0
        ks = [k for k, _ in cwk]
        env = dict(os.environ)
        env["VERIF_SEED"] = str(self.seed)
        env.setdefault("ASAN_OPTIONS", "handle_segv=0:detect_leaks=0:abort_on_error=1:allocator_may_return_null=1")
        env.setdefault("UBSAN_OPTIONS", "halt_on_error=1:abort_on_error=1:print_stacktrace=0")
        if getattr(self.mod, "DUMP", False):
            env["FX_DUMP"] = "1"
        for _attempt in range(len(ks) + 2):
            t_start = time.time()
            try:
                p = subprocess.run([binp, "--out", respath, "--from", str(frm)], stdout=subprocess.PIPE,
                                   stderr=subprocess.STDOUT, timeout=timeout, env=env, text=True, errors="replace")
                rc, out = p.returncode, p.stdout
                timed_out = False
            except subprocess.TimeoutExpired as e:
                rc, out, timed_out = 124, (e.stdout or ""), True
                if isinstance(out, bytes):
                    out = out.decode("utf8", "replace")
            began, ended, finished = None, set(), False
            try:
                for ln in open(respath, errors="replace"):
                    if ln.startswith("B "):
                        began = int(ln.split()[1])
                    elif ln.startswith("P "):
                        ended.add(int(ln.split()[1]))
                    elif ln.startswith("E"):
                        finished = True
            except OSError:
                pass
            if rc == 0 and finished:
                return bad
            if began is None or began in ended:
                # died outside a case (startup / teardown): attribute to all remaining cases
                for k in ks:
                    if k >= frm and k not in ended:
                        bad[k] = ("crash", f"binary exited rc={rc} outside a case: {out[-400:]}")
                return bad
            bad[began] = ("timeout" if timed_out else "crash", f"rc={rc} {out[-600:].strip()}")
            with open(respath, "a") as f:   # close the open record so the parser stays simple
                f.write(f"\nP {began} 0 0 1 0 0 0\n")
            frm = began + 1
            if frm > max(ks):
                return bad
        return bad

    def _parse(self, respath, cwk, cfg):
        by_k = {k: self.results[(cfg.tag, c.id)] for k, c in cwk}
        try:
            fh = open(respath, errors="replace")
        except OSError:
            return
        for ln in fh:
            ln = ln.rstrip("\n")
            if not ln or ln[0] in "BE" and (len(ln) == 1 or ln[1] == " "):
                continue
            parts = ln.split(" ", 2)
            try:
                k = int(parts[1])
            except (IndexError, ValueError):
                continue
            r = by_k.get(k)
            if r is None:
                continue
            t = ln[0]
            if t == "P":
                f = ln.split()
                r.evals += int(f[2]); r.nontrivial += int(f[3]); r.fails += int(f[4]); r.hangs += int(f[5]); r.sigs += int(f[6])
                r.capped = r.capped or f[7] == "1"
                if r.status == "not_run":
                    r.status = "pass"
            elif t in "FXSH":
                r.records.append(ln)
            elif t == "R":
                f = ln.split()
                r.routes[f[2]] = r.routes.get(f[2], 0) + int(f[3])
            elif t == "N":
                r.notes.append(parts[2] if len(parts) > 2 else "")
            elif t == "D":
                f = ln.split(" ")
                if len(f) >= 7:
                    r.dumps.setdefault("seq", []).append((f[2], f[3], f[5], f[6]))
            elif t == "G":
                r.dumps["hash"] = ln.split()[2]
        for r in by_k.values():
            if r.status == "pass" and (r.fails or r.records):
                r.status = "fail"

    def _process_tu(self, cfg, ti, cases, header, prelude, runnable):
        if self.time_left() <= 0:
            self.deadline_hit = True
            return
        d = os.path.join(self.build, cfg.tag)
        os.makedirs(d, exist_ok=True)
        name = f"tu{ti:04d}"
        cwk = list(enumerate(cases))
        t0 = time.time()
        binp, rejected = self._build_tu(cfg, d, name, cwk, header, prelude)
        t1 = time.time()
        st = self.cfg_stats[cfg.tag]
        with self.lock:
            st["tus"] += 1; st["compile_s"] += t1 - t0
            self.tu_info[(cfg.tag, ti)] = (d, name, cwk, header, prelude)
            for k, msg in rejected.items():
                r = self.results[(cfg.tag, cases[k].id)]
                r.status, r.detail = "compile_reject", msg
                st["compile_rejects"] += 1
        if binp is None or not runnable:
            return
        live = [(k, c) for k, c in cwk if k not in rejected]
        respath = os.path.join(d, name + ".res")
        tmo = max(60.0, min(float(getattr(self.mod, "RUN_TIMEOUT_S", 1800)), self.time_left() + 120))
        bad = self._run_bin(cfg, binp, respath, live, tmo)
        with self.lock:
            self._parse(respath, live, cfg)
            for k, (kind, info) in bad.items():
                r = self.results[(cfg.tag, cases[k].id)]
                r.status, r.detail = kind, info
                st["crashes"] += 1
            st["run_s"] += time.time() - t1
        if not self.keep:
            try:
                os.remove(os.path.join(d, name + ".cpp"))
            except OSError:
                pass

    # -------------------------------------------------------------------------------------
    def execute(self):
        mod = self.mod
        shutil.rmtree(self.build, ignore_errors=True)
        os.makedirs(self.build, exist_ok=True)
        cfgs = mod.configs(self.tier)
        if self.only_cfg:
            cfgs = [c for c in cfgs if re.search(self.only_cfg, c.tag)]
        header = mod.HEADER
        budget = float(getattr(mod, "TU_BUDGET", 10.0))
        jobs = []
        for cfg in cfgs:
            if not have_compiler(cfg.cxx):
                self.compile_only.append(cfg.tag + " (compiler missing: skipped)")
                continue
            runnable = host_can_run(cfg.isa)
            if not runnable:
                self.compile_only.append(cfg.tag)
            cases = mod.cases(self.tier, cfg)
            if self.case_filter:
                cases = [c for c in cases if re.search(self.case_filter, c.id)]
            ids = set()
            for c in cases:
                if c.id in ids:
                    raise RuntimeError(f"duplicate case identity {c.id} in {cfg.tag}")
                ids.add(c.id)
                self.results[(cfg.tag, c.id)] = CaseResult(c, cfg)
            self.cfg_stats[cfg.tag] = {"cases": len(cases), "tus": 0, "compile_rejects": 0, "crashes": 0,
                                       "compile_s": 0.0, "run_s": 0.0, "runnable": runnable}
            prelude = mod.prelude(self.tier, cfg) if hasattr(mod, "prelude") else ""
            by_header = {}
            for c in cases:
                by_header.setdefault(c.meta.get("header", header), []).append(c)
            ti = 0
            for hdr, group in by_header.items():
                for chunk in _pack(group, budget):
                    jobs.append((cfg, ti, chunk, hdr, prelude, runnable))
                    ti += 1
        self.log(f"{self.prop} {self.tier}: {len(cfgs)} configurations, {len(self.results)} cases, {len(jobs)} TUs, root={self.root}")
        # interleave configurations so a deadline cuts every configuration evenly, biggest TUs first within a round
        order = sorted(range(len(jobs)), key=lambda i: (jobs[i][1], i))
        done = 0
        with cf.ThreadPoolExecutor(max_workers=JOBS) as ex:
            futs = [ex.submit(self._process_tu, *jobs[i]) for i in order]
            for f in cf.as_completed(futs):
                f.result()
                done += 1
                if done % 25 == 0:
                    self.log(f"  {done}/{len(jobs)} TUs")
        if any(r.status == "not_run" for r in self.results.values()):
            self.deadline_hit = True

    # -------------------------------------------------------------------------------------
    def rerun_case(self, r):
        """replay-before-report: run the failing case again in a fresh process and compare observations"""
        if r.status not in ("fail", "crash"):
            return
        for (tag, ti), (d, name, cwk, header, prelude) in self.tu_info.items():
            if tag != r.cfg.tag:
                continue
            for k, c in cwk:
                if c.id == r.case.id:
                    binp = os.path.join(d, name + ".bin")
                    if not os.path.exists(binp):
                        return
                    rp = os.path.join(d, f"{name}.replay{k}.res")
                    env = dict(os.environ); env["VERIF_SEED"] = str(self.seed); env["FX_HANG_TICKS"] = "80"
                    env.setdefault("ASAN_OPTIONS", "handle_segv=0:detect_leaks=0:abort_on_error=1")
                    try:
                        subprocess.run([binp, "--out", rp, "--only", str(k)], stdout=subprocess.DEVNULL,
                                       stderr=subprocess.DEVNULL, timeout=600, env=env)
                    except subprocess.TimeoutExpired:
                        pass
                    recs, fails = [], None
                    try:
                        for ln in open(rp, errors="replace"):
                            if ln[0] in "FXSH":
                                recs.append(ln.rstrip("\n"))
                            elif ln[0] == "P":
                                fails = int(ln.split()[4])
                    except OSError:
                        pass
                    if r.status == "crash":
                        r.replay_state = "same" if fails is None else "nondeterministic"
                    else:
                        # hang records under a 10x limit may disappear: then the hang was load, not a loop
                        first_hang_only = all(x.startswith("H") for x in r.records) and r.records
                        if first_hang_only and fails == 0:
                            r.status, r.replay_state = "pass", "hang_not_reproduced"
                            r.records = []
                            r.fails = 0
                        else:
                            r.replay_state = "same" if (recs == r.records and fails == r.fails) else "nondeterministic"
                    return


def _first_error(out):
    for ln in out.split("\n"):
        if "error" in ln:
            return ln.strip()[:400]
    return out.strip()[:400]


# ---------------------------------------------------------------------------------------------
# known findings
# ---------------------------------------------------------------------------------------------
def load_findings():
    p = os.path.join(VERIF, "known_findings.json")
    try:
        return json.load(open(p))
    except OSError:
        return {"findings": [], "fixed": []}


def match_finding(findings, prop, r):
    for f in findings.get("findings", []):
        if f.get("property") != prop:
            continue
        if "kinds" in f and r.status not in f["kinds"]:
            continue
        ok = r.case.id in f.get("cases", [])
        if not ok and "id_regex" in f:
            ok = re.fullmatch(f["id_regex"], r.case.id) is not None
        if not ok:
            continue
        if not r.cfg.matches(f.get("configs")):
            continue
        if "point_regex" in f and r.status == "fail":
            pr = re.compile(f["point_regex"])
            pts = [ln.split(" ", 2)[2].split(" | ")[0] if len(ln.split(" ", 2)) > 2 else "" for ln in r.records]
            if not pts or not all(pr.fullmatch(p) for p in pts):
                continue
            if "max_fails" in f and r.fails > f["max_fails"]:
                continue
        return f
    return None


# ---------------------------------------------------------------------------------------------
# check = execute + judge + evidence
# ---------------------------------------------------------------------------------------------
def write_replay(run, r):
    d = os.path.join(VERIF, "replays", run.prop)
    os.makedirs(d, exist_ok=True)
    h = hashlib.sha1((r.case.id + "|" + r.cfg.tag).encode()).hexdigest()[:16]
    path = os.path.join(d, h + ".json")
    prelude = run.mod.prelude(run.tier, r.cfg) if hasattr(run.mod, "prelude") else ""
    doc = {"property": run.prop, "case_id": r.case.id, "config": r.cfg.describe(), "config_tag": r.cfg.tag,
           "status": r.status, "detail": r.detail, "records": r.records, "fails": r.fails,
           "replay_state": r.replay_state, "header": r.case.meta.get("header", run.mod.HEADER), "prelude": prelude, "body": r.case.body,
           "link_flags": list(getattr(run.mod, "LINK_FLAGS", [])), "seed": run.seed,
           "how": "python3 -m fxmc replay " + path}
    with open(path, "w") as f:
        json.dump(doc, f, indent=1)
    return path


def check(prop, tier, root=DEFAULT_ROOT, **kw):
    run = Runner(prop, tier, root=root, **kw)
    mod = run.mod
    try:
        run.execute()
        if hasattr(mod, "post"):
            mod.post(run)
        findings = load_findings()
        viol, known, not_judged = [], [], []
        for key, r in run.results.items():
            if r.status in ("pass", "not_run"):
                continue
            if r.status == "compile_reject" and not r.case.must_compile:
                not_judged.append(r); continue
            if not r.case.judged:
                not_judged.append(r); continue
            viol.append(r)
        # replay before report (bounded: the first 40 candidates)
        new = []
        for r in viol:
            f = match_finding(findings, prop, r)
            if f is not None:
                known.append((r, f))
            else:
                new.append(r)
        for r in new[:40]:
            run.rerun_case(r)
        new = [r for r in new if r.status != "pass"]
        ev = build_evidence(run, new, known, not_judged)
        os.makedirs(os.path.join(VERIF, "evidence"), exist_ok=True)
        evpath = os.path.join(VERIF, "evidence", f"{prop}.json")
        if os.environ.get("FXMC_NO_EVIDENCE") or os.path.abspath(root) != os.path.abspath(DEFAULT_ROOT):
            # runs against a scratch root (seeded-change self-test) never overwrite the registered evidence
            os.makedirs(os.path.join(VERIF, "build"), exist_ok=True)
            evpath = os.path.join(VERIF, "build", f"evidence-{prop}-{os.getpid()}.json")
        # known findings: one line per finding entry (not per case), with the number of matched cases
        seen = {}
        for r, f in known:
            seen.setdefault(f["what"], []).append(r)
        for what, rs in seen.items():
            ex = rs[0]
            print(f"KNOWN-FINDING: property={prop} {what} [{len(rs)} case x configuration cells, e.g. {ex.case.id} @ {ex.cfg.tag}]")
        paths = []
        for r in new:
            paths.append(write_replay(run, r))
        ev["violation_replays"] = paths[:200]
        with open(evpath, "w") as f:
            json.dump(ev, f, indent=1)
        for r, p in list(zip(new, paths))[:MAX_PRINTED]:
            first = r.records[0] if r.records else r.detail
            print(f"VIOLATION property={prop} replay={p}")
            print(f"   {r.case.id} @ {r.cfg.tag}: {r.status}{' [' + r.replay_state + ']' if r.replay_state else ''}: {first[:300]}")
        if len(new) > MAX_PRINTED:
            print(f"   ... and {len(new) - MAX_PRINTED} more violating cells (all listed in {evpath})")
        cov = ev["coverage"]
        print(f"{prop} {tier}: evaluations={cov['evaluations']} distinct_nontrivial={cov['distinct_nontrivial']} "
              f"cases={cov['case_cells']} configs={len(cov['configs'])} violations={len(new)} known={len(known)} "
              f"exhaustive={cov['exhaustive']} wall={ev['wall_s']:.0f}s")
        return 1 if new else 0
    finally:
        if not run.keep:
            shutil.rmtree(run.build, ignore_errors=True)
            try:
                os.rmdir(os.path.join(VERIF, "build"))
            except OSError:
                pass


def build_evidence(run, new, known, not_judged):
    mod = run.mod
    level = mod.LEVEL
    res = run.results
    evals = sum(r.evals for r in res.values())
    nontriv = sum(r.nontrivial for r in res.values())
    routes, counters = {}, {}
    for r in res.values():
        if r.case.route and r.status == "pass":
            routes[r.case.route] = routes.get(r.case.route, 0) + 1
        for k, v in r.routes.items():
            if k.startswith("mc."):
                if k.endswith(".max"):
                    counters[k] = max(counters.get(k, 0), v)
                else:
                    counters[k] = counters.get(k, 0) + v
            else:
                routes[k] = routes.get(k, 0) + v
    status_hist = {}
    for r in res.values():
        status_hist[r.status] = status_hist.get(r.status, 0) + 1
    samples = []
    step = max(1, len(res) // 6)
    for i, (key, r) in enumerate(res.items()):
        if i % step == 0 and len(samples) < 8 and r.status == "pass":
            samples.append({"config": key[0], "case": key[1], "evaluations": r.evals, "body": r.case.body[:240]})
    if not samples:
        samples = [{"config": k[0], "case": k[1], "status": r.status} for k, r in list(res.items())[:3]]
    expected_routes = mod.expected_routes(run.tier) if hasattr(mod, "expected_routes") else []
    gaps = [x for x in expected_routes if x not in routes]
    # (a case whose distinct-outcome set hit FX_DISTINCT_CAP was still enumerated completely: only its contribution to distinct_nontrivial is an
    # undercount, which is reported separately below)
    exhaustive = (not run.deadline_hit) and status_hist.get("not_run", 0) == 0 and bool(getattr(mod, "EXHAUSTIVE_WITHIN_BOUNDS", True))
    cov = {
        "evaluations": evals,
        "distinct_nontrivial": nontriv,
        "rule": mod.RULE,
        "samples": samples,
        "exhaustive": exhaustive,
        "distinct_count_capped_cells": sum(1 for r in res.values() if r.capped),
        "case_cells": len(res),
        "status_histogram": status_hist,
        "routes": dict(sorted(routes.items())),
        "route_gaps": gaps,
        "configs": {t: {k: (round(v, 1) if isinstance(v, float) else v) for k, v in s.items()} for t, s in run.cfg_stats.items()},
        "compile_only_configs": run.compile_only,
        "bounds": mod.bounds(run.tier) if hasattr(mod, "bounds") else {},
        "deadline_hit": run.deadline_hit,
        "deadline_s": run.deadline_s,
        "known_findings_matched": sorted({f["what"] for _, f in known}),
        "known_finding_cells": len(known),
        "explored_not_judged": len(not_judged),
        "not_judged_examples": [f"{r.case.id} @ {r.cfg.tag}: {r.status} {r.detail[:120]}" for r in not_judged[:10]],
        "violations": [{"case": r.case.id, "config": r.cfg.tag, "status": r.status, "replay_state": r.replay_state,
                        "first": (r.records[0] if r.records else r.detail)[:300]} for r in new[:5000]],
        "root": run.root,
    }
    if level == "model_checking":
        cov["states"] = int(counters.get("mc.states", 0))
        cov["transitions"] = int(counters.get("mc.transitions", 0))
        cov["traces_validated_against_impl"] = int(counters.get("mc.transitions", 0))
        cov["max_depth"] = int(counters.get("mc.depth.max", 0))
        for k, v in counters.items():
            if k not in ("mc.states", "mc.transitions", "mc.depth.max"):
                cov[k.replace("mc.", "mc_")] = v
    if hasattr(mod, "finalize"):
        mod.finalize(run, cov)
    return {
        "property_id": run.prop, "tier": run.tier, "seed": run.seed, "level": level, "coverage": cov,
        "assumptions": list(getattr(mod, "ASSUMPTIONS", [])),
        "wall_s": round(time.time() - run.t0, 1), "violations": len(new),
    }


# ---------------------------------------------------------------------------------------------
def replay(path, root=DEFAULT_ROOT):
    doc = json.load(open(path))
    c = doc["config"]
    cfg = Config(isa=c["isa"], std=c["std"], opt=c["opt"], ndebug=c["ndebug"], defs=c["defs"], cxx=c["cxx"], san=c["san"],
                 contract_off=c.get("contract_off", True), extra=c.get("extra", ()))
    d = os.path.join(VERIF, "build", f"replay-{os.getpid()}")
    shutil.rmtree(d, ignore_errors=True)
    os.makedirs(d)
    try:
        case = Case(doc["case_id"], doc["body"])
        src = os.path.join(d, "replay.cpp")
        with open(src, "w") as f:
            f.write(tu_source(doc["header"], [(0, case)], doc.get("prelude", "")))
        cmd = [cfg.cxx] + cfg.flags() + [f"-I{os.path.abspath(root)}", f"-I{HARNESS}", "-o", os.path.join(d, "replay.bin"), src] + doc.get("link_flags", [])
        print("build:", " ".join(cmd))
        p = subprocess.run(cmd, stdout=subprocess.PIPE, stderr=subprocess.STDOUT, text=True)
        if p.returncode != 0:
            print(p.stdout[-3000:])
            print(f"REPLAY {doc['case_id']} @ {cfg.tag}: compile_reject")
            return 1
        env = dict(os.environ); env["VERIF_SEED"] = str(doc.get("seed", 1)); env["FX_HANG_TICKS"] = "80"
        env.setdefault("ASAN_OPTIONS", "handle_segv=0:detect_leaks=0:abort_on_error=1")
        rp = os.path.join(d, "replay.res")
        q = subprocess.run([os.path.join(d, "replay.bin"), "--out", rp], stdout=subprocess.PIPE, stderr=subprocess.STDOUT, text=True, env=env)
        txt = open(rp).read() if os.path.exists(rp) else ""
        print(txt)
        bad = q.returncode != 0 or any(ln and ln[0] in "FXSH" for ln in txt.split("\n")) or "\nE" not in "\n" + txt
        print(f"REPLAY {doc['case_id']} @ {cfg.tag}: {'still fails' if bad else 'passes'} (rc={q.returncode})")
        if q.returncode != 0:
            print(q.stdout[-2000:])
        return 1 if bad else 0
    finally:
        shutil.rmtree(d, ignore_errors=True)
        try:
            os.rmdir(os.path.join(VERIF, "build"))
        except OSError:
            pass
