"""Build configurations (DESIGN.md section 5)."""
import os, re, shutil

ISA_FLAGS = {
    "S0": ["-DFASTOR_DONT_VECTORISE"],
    "S2": ["-msse2"],
    "S4": ["-msse4.2"],
    "A1": ["-mavx"],
    "A2": ["-mavx2", "-mfma"],
    "A5": ["-march=skylake-avx512"],
}
# cpu flags (as in /proc/cpuinfo) needed to *run* a binary built with the tag
ISA_NEEDS = {
    "S0": [], "S2": ["sse2"], "S4": ["sse4_2"], "A1": ["avx"],
    "A2": ["avx2", "fma"], "A5": ["avx512f", "avx512cd", "avx512bw", "avx512dq", "avx512vl", "fma"],
}
ALL_ISAS = ["S0", "S2", "S4", "A1", "A2", "A5"]
MAIN3 = ["S2", "A2", "A5"]

# native vector widths (elements) per ISA for f32/f64/i32/i64 -- mirrors simd_vector_abi.h; used by the
# generators to place boundary sizes, confirmed at run time by the cases themselves (they print V::Size routes)
WIDTH = {
    "S0": {"f32": 1, "f64": 1, "i32": 1, "i64": 1},
    "S2": {"f32": 4, "f64": 2, "i32": 4, "i64": 2},
    "S4": {"f32": 4, "f64": 2, "i32": 4, "i64": 2},
    "A1": {"f32": 8, "f64": 4, "i32": 8, "i64": 4},
    "A2": {"f32": 8, "f64": 4, "i32": 8, "i64": 4},
    "A5": {"f32": 16, "f64": 8, "i32": 16, "i64": 8},
}
for _k in WIDTH:
    WIDTH[_k]["c32"] = WIDTH[_k]["f32"]
    WIDTH[_k]["c64"] = WIDTH[_k]["f64"]

CTYPE = {"f32": "float", "f64": "double", "i32": "int", "i64": "int64_t", "c32": "std::complex<float>",
         "c64": "std::complex<double>", "u64": "size_t", "b8": "bool"}


class Config:
    """One build configuration.  `tag` is stable and is what evidence / known findings refer to."""

    def __init__(self, isa="S2", std="14", opt="O2", ndebug=True, defs=(), cxx="g++", san=False, contract_off=True,
                 extra=()):
        self.isa, self.std, self.opt, self.ndebug = isa, str(std), opt, ndebug
        self.defs = tuple(defs)
        self.cxx, self.san, self.contract_off, self.extra = cxx, san, contract_off, tuple(extra)

    @property
    def tag(self):
        t = f"{self.isa}-c{self.std}-{self.opt}"
        if self.cxx != "g++":
            t += "-clang"
        if not self.ndebug:
            t += "-dbg"
        if self.san:
            t += "-asan"
        if not self.contract_off:
            t += "-fpc"
        for d in self.defs:
            t += "-" + re.sub(r"[^A-Za-z0-9=]+", "_", d.replace("FASTOR_", ""))
        for d in self.extra:
            t += "-" + re.sub(r"[^A-Za-z0-9=]+", "_", d)
        return t

    def describe(self):
        return {"isa": self.isa, "std": self.std, "opt": self.opt, "ndebug": self.ndebug, "defs": list(self.defs),
                "cxx": self.cxx, "san": self.san, "contract_off": self.contract_off, "extra": list(self.extra)}

    def w(self, t):
        return WIDTH[self.isa][t]

    def has_def(self, name):
        return any(d == name or d.startswith(name + "=") for d in self.defs)

    def flags(self):
        f = [f"-std=c++{self.std}", "-" + self.opt]
        if self.ndebug:
            f.append("-DNDEBUG")
        f += ISA_FLAGS[self.isa]
        f += ["-D" + d for d in self.defs]
        if self.contract_off:
            f.append("-ffp-contract=off")
        if self.san:
            f += ["-fsanitize=address,undefined", "-fno-sanitize-recover=all", "-fno-omit-frame-pointer", "-g1"]
        f += list(self.extra)
        f += ["-w", "-ftemplate-depth=2048"]
        if self.cxx == "g++":
            f += ["-fmax-errors=40"]
        else:
            f += ["-ferror-limit=40", "-fbracket-depth=2048"]
        return f

    def matches(self, pred):
        """known-findings configuration predicate: dict of key -> list of admissible values"""
        if not pred:
            return True
        d = self.describe()
        for k, vals in pred.items():
            if k == "defs_any":
                if not any(self.has_def(v) for v in vals):
                    return False
                continue
            if k == "defs_none":
                if any(self.has_def(v) for v in vals):
                    return False
                continue
            if d.get(k) not in vals:
                return False
        return True


_cpuflags = None


def host_can_run(isa):
    global _cpuflags
    if _cpuflags is None:
        _cpuflags = set()
        try:
            for line in open("/proc/cpuinfo"):
                if line.startswith("flags"):
                    _cpuflags = set(line.split(":", 1)[1].split())
                    break
        except OSError:
            pass
    return all(n in _cpuflags for n in ISA_NEEDS[isa])


def have_compiler(cxx):
    return shutil.which(cxx) is not None
