"""Generates /verif/MANIFEST.json from the property modules that exist (python3 -m fxmc.manifest)."""
import importlib, json, os

VERIF = os.path.dirname(os.path.dirname(os.path.abspath(__file__)))
ALL = [f"C{i:02d}" for i in range(1, 21)]
# properties whose checks have been run end-to-end on the unchanged tree and are registered
READY = ["C01", "C02", "C03", "C04", "C05", "C06", "C07", "C08", "C09", "C10", "C11", "C12", "C13", "C14", "C15", "C16", "C17", "C18", "C19", "C20"]


def main():
    checks, na = [], []
    for pid in ALL:
        try:
            if pid not in READY:
                raise ModuleNotFoundError(pid)
            mod = importlib.import_module(f"fxmc.props.{pid}")
        except ModuleNotFoundError:
            na.append({"property_id": pid, "reason": "no bounded-exhaustive check registered yet for this property (machinery in progress); nothing is claimed"})
            continue
        if getattr(mod, "NOT_CLAIMED", None):
            na.append({"property_id": pid, "reason": mod.NOT_CLAIMED})
            continue
        checks.append({
            "property_id": pid,
            "quick_cmd": f"python3 -m fxmc check {pid} --tier quick",
            "thorough_cmd": f"python3 -m fxmc check {pid} --tier thorough",
            "evidence_file": f"/verif/evidence/{pid}.json",
            "replay_cmd_template": "python3 -m fxmc replay {path}",
            "engine": "fxmc",
            "level_claimed": {"category": mod.LEVEL, "text": mod.LEVEL_TEXT, "design_ref": f"DESIGN.md section 6 ({pid})"},
            "level_note": "; ".join(mod.ASSUMPTIONS),
            "technique": mod.TECHNIQUE,
        })
    man = {
        "version": 1,
        "setup_cmd": "python3 -m fxmc setup",
        "hooks": {
            "guard": "FASTOR_VERIF",
            "enable": "no source hooks: every observation point is public API or memory the harness owns; checks compile generated "
                      "translation units against /repo's current working tree (-I/repo) under each build configuration",
            "baseline_off_cmd": "cmake --build /repo/_build -j16 && ctest --test-dir /repo/_build -j8 --timeout 900",
            "source_commits": [],
            "add_only": True,
        },
        "engines": [{"name": "fxmc", "path": "/verif/fxmc", "serves_properties": [c["property_id"] for c in checks],
                     "kind_free_text": "stateless bounded-exhaustive explorer over (compile-time case x build configuration x run-time point) "
                                       "executing the real library at every point against a scalar reference model; explicit-state BFS over "
                                       "operation histories for the history-quantified properties"}],
        "checks": checks,
        "not_applicable": na,
        "notes": "Deadlines: quick 15 min (1-4 min of work on 16 idle cores), thorough 40 min (FXMC_DEADLINE_S overrides); a run cut by its deadline reports exhaustive:false. "
                 "Known findings: /verif/known_findings.json (never written at run time).",
    }
    with open(os.path.join(VERIF, "MANIFEST.json"), "w") as f:
        json.dump(man, f, indent=1)
    print("claimed:", [c["property_id"] for c in checks], "not_applicable:", [n["property_id"] for n in na])


if __name__ == "__main__":
    main()
