// alias_common.h - helpers shared by c18.h (overlapping assignment / noalias) and c19.h (index-tensor and mask views):
// operator and right-hand-side tags, scalar reference semantics with an exact domain guard, range/selection
// enumeration, structured index-vector families, a flat hash set for contents hashing.
// Everything here is run-time-shaped code; nothing depends on a Fastor type.
#pragma once
#include "fxv.h"
#include <Fastor/Fastor.h>
#include <array>
#include <algorithm>

namespace alias {

enum Op { OP_ASSIGN = 0, OP_ADD = 1, OP_SUB = 2, OP_MUL = 3, OP_DIV = 4 };
enum Fk { F_ID = 0, F_P1 = 1, F_X2 = 2, F_SUM = 3 };     // f(x[,y]) = x | x+1 | 2*x | x+y
static const char* const OPNAME[5] = {"assign", "add", "sub", "mul", "div"};

template <int OP> struct OpTag {};
template <class V, class E> static inline void assign_op(OpTag<OP_ASSIGN>, V&& v, const E& e) { v = e; }
template <class V, class E> static inline void assign_op(OpTag<OP_ADD>, V&& v, const E& e) { v += e; }
template <class V, class E> static inline void assign_op(OpTag<OP_SUB>, V&& v, const E& e) { v -= e; }
template <class V, class E> static inline void assign_op(OpTag<OP_MUL>, V&& v, const E& e) { v *= e; }
template <class V, class E> static inline void assign_op(OpTag<OP_DIV>, V&& v, const E& e) { v /= e; }

// ---- scalar reference --------------------------------------------------------------------------------------
template <class T> static inline T ref_f(int f, T x, T y) {
    switch (f) { case F_P1: return (T)(x + T(1)); case F_X2: return (T)(T(2) * x); case F_SUM: return (T)(x + y); default: return x; }
}
template <class T> static inline T ref_op(int op, T a, T b) {
    switch (op) { case OP_ADD: return (T)(a + b); case OP_SUB: return (T)(a - b); case OP_MUL: return (T)(a * b); case OP_DIV: return (T)(a / b); default: return b; }
}
// exact domain guard: the scalar C++ evaluation of op(a, f(x,y)) must be defined (no signed overflow, no integer /0) and,
// for floating types, stay in the range where small-integer data is represented exactly (so every evaluation order agrees)
template <class T> struct Dom {
    static bool ok(int op, int f, T a, T x, T y) { return ok_impl(op, f, a, x, y, std::integral_constant<bool, std::is_integral<T>::value>()); }
    static bool ok_impl(int op, int f, T a, T x, T y, std::true_type) {
        typedef __int128 W;
        const W lim = (W)(std::numeric_limits<T>::max() / 4);
        W fx = f == F_P1 ? (W)x + 1 : f == F_X2 ? 2 * (W)x : f == F_SUM ? (W)x + (W)y : (W)x;
        if (fx > lim || fx < -lim) return false;
        W r;
        switch (op) { case OP_ADD: r = (W)a + fx; break; case OP_SUB: r = (W)a - fx; break; case OP_MUL: r = (W)a * fx; break;
                      case OP_DIV: if (fx == 0) return false; r = (W)a / fx; break; default: r = fx; }
        return r <= lim && r >= -lim;
    }
    static bool ok_impl(int op, int f, T a, T x, T y, std::false_type) {
        const long double lim = std::is_same<T, float>::value ? 8388608.0L : 4503599627370496.0L;   // 2^23 / 2^52
        long double fx = f == F_P1 ? (long double)x + 1 : f == F_X2 ? 2 * (long double)x : f == F_SUM ? (long double)x + (long double)y : (long double)x;
        if (!(fx <= lim && fx >= -lim)) return false;
        long double r;
        switch (op) { case OP_ADD: r = a + fx; break; case OP_SUB: r = a - fx; break; case OP_MUL: r = (long double)a * fx; break;
                      case OP_DIV: if (fx == 0) return false; r = 1; break; default: r = fx; }
        return r <= lim && r >= -lim;
    }
};

// ---- ranges -----------------------------------------------------------------------------------------------------
struct R1 { int f, s, n; };                      // first, step, count   (selection f, f+s, ..., f+(n-1)s)
static inline int r_last_tight(const R1& r) { return r.f + (r.n - 1) * r.s + 1; }
// every (f,s,n) inside [0,N) with 1 <= s <= smax (n == 1 only with s == 1: the step is immaterial there)
static inline std::vector<R1> all_ranges(int N, int smax) {
    std::vector<R1> v;
    for (int n = 1; n <= N; ++n)
        for (int s = 1; s <= (n == 1 ? 1 : smax); ++s)
            for (int f = 0; f + (n - 1) * s < N; ++f) v.push_back(R1{f, s, n});
    return v;
}
// `last` argument handed to seq(): alternates between the tight value and the largest value that selects the same set
static inline int r_last_arg(const R1& r, int N, int variant) {
    int tight = r_last_tight(r);
    if (!variant) return tight;
    int loose = r.f + r.n * r.s; return loose > N ? N : loose;
}

// ---- position sets (up to 128 flat positions) ----------------------------------------------------------------
struct Bits { uint64_t w[2] = {0, 0};
    void set(int i) { w[i >> 6] |= 1ull << (i & 63); }
    bool test(int i) const { return (w[i >> 6] >> (i & 63)) & 1; }
    bool meets(const Bits& o) const { return (w[0] & o.w[0]) | (w[1] & o.w[1]); } };

enum Rel { REL_SAME = 0, REL_DISJOINT = 1, REL_PARTIAL = 2 };
// relation of a source position list to the destination position list (same length n)
static inline int relation(const int* d, const int* s, int n) {
    bool same = true; Bits bd, bs;
    for (int k = 0; k < n; ++k) { same = same && d[k] == s[k]; bd.set(d[k]); bs.set(s[k]); }
    if (same) return REL_SAME;
    return bd.meets(bs) ? REL_PARTIAL : REL_DISJOINT;
}

// ---- structured index-vector families (enumerated, not random) -----------------------------------------------------
struct IVec { std::vector<int> v; bool dupfree; const char* name; int par; };
static inline bool is_dupfree(const std::vector<int>& v) {
    for (size_t i = 0; i < v.size(); ++i) for (size_t j = i + 1; j < v.size(); ++j) if (v[i] == v[j]) return false;
    return true;
}
static inline int gcd_i(int a, int b) { while (b) { int t = a % b; a = b; b = t; } return a; }
// index vectors of length K over [0,N): identity+offset, reversal+offset, stride permutations of a K-window, rotations,
// parent-stride walks, all-same, pair-repeats
static inline std::vector<IVec> index_family(int K, int N) {
    std::vector<IVec> out;
    auto push = [&](std::vector<int> v, const char* nm, int par) {
        for (int x : v) if (x < 0 || x >= N) return;
        for (auto& o : out) if (o.v == v) return;
        IVec iv; iv.dupfree = is_dupfree(v); iv.v = std::move(v); iv.name = nm; iv.par = par; out.push_back(iv);
    };
    std::vector<int> v(K);
    for (int off = 0; off + K <= N; ++off) {
        if (off > 3 && off + K != N) continue;
        for (int i = 0; i < K; ++i) v[i] = off + i;
        push(v, "ident", off);
        for (int i = 0; i < K; ++i) v[i] = off + K - 1 - i;
        push(v, "rev", off);
    }
    for (int p = 2; p < K; ++p) {
        if (gcd_i(p, K) != 1) continue;
        for (int i = 0; i < K; ++i) v[i] = (i * p) % K;
        push(v, "stride", p);
        if (K < N) { for (int i = 0; i < K; ++i) v[i] = N - K + (i * p) % K; push(v, "stride_hi", p); }
    }
    for (int r = 1; r < K; ++r) {
        if (r > 3 && r != K - 1 && r != K / 2) continue;
        for (int i = 0; i < K; ++i) v[i] = (i + r) % K;
        push(v, "rot", r);
    }
    for (int st = 2; (K - 1) * st < N; ++st) { for (int i = 0; i < K; ++i) v[i] = i * st; push(v, "walk", st); }
    if (K >= 2) { for (int i = 0; i < K; ++i) v[i] = i ^ 1; if (K % 2 == 0) push(v, "swap_pairs", 0); }
    for (int c : {0, N / 2, N - 1}) { for (int i = 0; i < K; ++i) v[i] = c; push(v, "all_same", c); }
    for (int i = 0; i < K; ++i) v[i] = (i / 2) % N; push(v, "pair_repeat", 0);
    for (int i = 0; i < K; ++i) v[i] = (N - 1 - (i % 2)); push(v, "alt_two", 0);
    return out;
}
// odometer over [0,N)^K ; returns false after the last vector
static inline bool next_vec(int* v, int K, int N) {
    for (int i = K - 1; i >= 0; --i) { if (++v[i] < N) return true; v[i] = 0; }
    return false;
}
static inline bool dupfree_arr(const int* v, int K) {
    for (int i = 0; i < K; ++i) for (int j = i + 1; j < K; ++j) if (v[i] == v[j]) return false;
    return true;
}

// ---- flat hash set of 64-bit keys (contents hashing); insertion stops (conservatively) when full --------------------
struct HashSet {
    std::vector<uint64_t> t; size_t n = 0, cap; bool full = false;
    explicit HashSet(unsigned log2cap = 20) : t((size_t)1 << log2cap, 0), cap((size_t)1 << log2cap) {}
    bool insert(uint64_t k) {     // true if new
        if (!k) k = 0x9e3779b97f4a7c15ull;
        size_t i = (size_t)(k * 0x9e3779b97f4a7c15ull >> 20) & (cap - 1);
        while (t[i]) { if (t[i] == k) return false; i = (i + 1) & (cap - 1); }
        if (n * 10 >= cap * 7) { full = true; return false; }
        t[i] = k; ++n; return true;
    }
};

// initial contents: pairwise distinct positive small integers (scheme 0: address-coded, scheme 1: a different permutation
// with larger spread); never 0, so every divisor f(x) is non-zero at depth 1
template <class T> static inline void fill_init(T* p, int n, int scheme) {
    for (int i = 0; i < n; ++i) {
        long long v = scheme == 0 ? 3 + 2 * i : 2 + ((i * 37) % 128) * 3 + (i / 128);
        p[i] = (T)v;
    }
}

} // namespace alias
