// einsum_common.h - shared run-time-shaped machinery for the Einstein-summation properties (C03 pairwise / single /
// inner / outer / explicit output, C15 three- and four-operand networks).
//
// Thin-thunk / fat-driver: per compile-time case only the library call itself (es::thunkN) and a handful of
// constants are instantiated.  Everything else - value schemes, the reference Einstein sum (a loop nest driven by the
// run-time label lists of es::Spec), judgement, canary frame - is code shaped by run-time data and instantiated once
// per element type (es::Driver<T>).  The label lists / extents / expected free labels come from the Python
// enumerator, which is the single independent source of the *expected* result type and element order.
#pragma once
#include "fxv.h"
#include <Fastor/Fastor.h>
#include <ucontext.h>

namespace es {
using namespace Fastor;

constexpr int MAXOPS = 4;
constexpr int MAXRANK = 5;
constexpr int MAXOUT = 12;
constexpr int MAXLAB = 20;

// What the enumerator knows about a case (all run-time data for the driver).
struct Spec {
    int nops;
    int rank[MAXOPS];
    int lab[MAXOPS][MAXRANK];     // labels exactly as given to the library
    int ext[MAXOPS][MAXRANK];     // extent of every operand position
    int nout;                     // expected result rank; -1: the entry returns a bare scalar T (inner)
    int outlab[MAXOUT];           // expected result labels, in the expected order
    double basis_cap;             // complete basis probing when (prod |operand|) * loop volume <= basis_cap
    int pred[4];                  // property-specific predictions (C03: back-end class, stride; C15: which_variant, inner variant)
    const char* route;            // the route the enumerator predicts (recorded whether the case passes or not)
};

template <class T> struct Job {
    const Spec* s;
    size_t sizeofOp[MAXOPS];
    size_t sizeofR;
    size_t nres;                  // number of elements of the observed result type
    int rrank;                    // rank of the observed result type (-1 bare scalar)
    size_t rdims[MAXOUT];
    bool type_ok;                 // std::is_same<observed result type, expected result type>
    void (*call)(const void* const* ops, void* res);
    int lib[4];                   // what the library's own public constants say (compared with Spec::pred)
    int nlib;
    const char* libname[4];
    bool strict_model = false;    // a disagreement between Spec::pred and lib[] is a judged failure (C15: the variant coverage claim
                                  // rests on it) or only a recorded route + note (C03: the prediction is route reporting)
};

// ---- observed result type -> run-time description -------------------------------------------------------------
template <class R> struct res_traits {   // bare scalar
    static constexpr size_t size = 1; static constexpr int rank = -1;
    static void dims(size_t*) {}
};
template <class T, size_t... Rest> struct res_traits<Tensor<T, Rest...>> {
    static constexpr size_t size = pack_prod<Rest...>::value; static constexpr int rank = (int)sizeof...(Rest);
    static void dims(size_t* d) { const size_t v[sizeof...(Rest) + 1] = {Rest..., 0}; for (size_t i = 0; i < sizeof...(Rest); ++i) d[i] = v[i]; }
};
template <class T> struct res_traits<Tensor<T>> {
    static constexpr size_t size = 1; static constexpr int rank = 0;
    static void dims(size_t*) {}
};

// ---- the reference Einstein sum: plain scalar loop nest over the distinct labels ------------------------------------
struct Nest {
    int nU = 0;                         // distinct labels, in order of first appearance over the concatenated lists
    int U[MAXLAB]; long E[MAXLAB];      // label value, extent
    long SO[MAXOPS][MAXLAB];            // stride contribution of label u in operand p (sum over its positions there)
    long SR[MAXLAB];                    // stride contribution of label u in the result (0: summed away)
    long nOp[MAXOPS]; long nRes = 1;    // element counts
    long vol = 1;                       // loop volume
    long K = 1;                         // number of terms per result element
    bool consistent = true;

    void setup(const Spec& s) {
        nU = 0; vol = 1; nRes = 1; consistent = true;
        for (int p = 0; p < s.nops; ++p) {
            nOp[p] = 1; for (int i = 0; i < s.rank[p]; ++i) nOp[p] *= s.ext[p][i];
            for (int u = 0; u < MAXLAB; ++u) SO[p][u] = 0;
        }
        for (int u = 0; u < MAXLAB; ++u) SR[u] = 0;
        for (int p = 0; p < s.nops; ++p) {
            long stride = nOp[p];
            for (int i = 0; i < s.rank[p]; ++i) {
                stride /= s.ext[p][i];
                int u = 0; while (u < nU && U[u] != s.lab[p][i]) ++u;
                if (u == nU) { U[nU] = s.lab[p][i]; E[nU] = s.ext[p][i]; ++nU; }
                else if (E[u] != s.ext[p][i]) consistent = false;
                SO[p][u] += stride;
            }
        }
        for (int u = 0; u < nU; ++u) vol *= E[u];
        const int no = s.nout < 0 ? 0 : s.nout;
        for (int i = 0; i < no; ++i) { int u = 0; while (u < nU && U[u] != s.outlab[i]) ++u; if (u == nU) { consistent = false; return; } nRes *= E[u]; }
        long stride = nRes;
        for (int i = 0; i < no; ++i) { int u = 0; while (U[u] != s.outlab[i]) ++u; stride /= E[u]; SR[u] += stride; }
        K = vol / nRes;
    }
    // f(offsets of the operands, offset in the result) for every point of the nest
    template <class F> void each(int nops, F&& f) const {
        long idx[MAXLAB] = {0}; long off[MAXOPS] = {0, 0, 0, 0}; long ro = 0;
        for (;;) {
            f(off, ro);
            int u = nU - 1;
            for (; u >= 0; --u) {
                if (++idx[u] < E[u]) { for (int p = 0; p < nops; ++p) off[p] += SO[p][u]; ro += SR[u]; break; }
                idx[u] = 0; for (int p = 0; p < nops; ++p) off[p] -= (E[u] - 1) * SO[p][u]; ro -= (E[u] - 1) * SR[u];
            }
            if (u < 0) break;
        }
    }
};

template <class T> static inline void ref_einsum(const Nest& n, int nops, const T* const* ops, T* out) {
    for (long i = 0; i < n.nRes; ++i) out[i] = T(0);
    n.each(nops, [&](const long* off, long ro) {
        T t = ops[0][off[0]];
        for (int p = 1; p < nops; ++p) t = t * ops[p][off[p]];
        out[ro] += t;
    });
}
// long double reference and sum of magnitudes (real element types)
template <class T> static inline void ref_einsum_ld(const Nest& n, int nops, const T* const* ops, long double* out, long double* mag) {
    for (long i = 0; i < n.nRes; ++i) out[i] = mag[i] = 0;
    n.each(nops, [&](const long* off, long ro) {
        long double t = (long double)ops[0][off[0]];
        for (int p = 1; p < nops; ++p) t *= (long double)ops[p][off[p]];
        out[ro] += t; mag[ro] += t < 0 ? -t : t;
    });
}

// ---- the library call runs on a private stack that ends at a PROT_NONE page -----------------------------------------
// Several back ends were seen to write past a too-small result temporary that lives in the *callee's* frame (a local
// `out` inside einsum).  On the ordinary stack such a write destroys the frames of the harness itself (including the
// jmp_buf of the guard), after which neither the watchdog nor the signal guard can recover and the binary spins until
// the driver's time-out.  On this stack the callee's frame is the outermost one, so the overrun runs into the guard page,
// raises SIGSEGV on the alternate signal stack and is recorded as an ordinary guarded failure of the current point.
struct GuardedStack {
    unsigned char* map = nullptr; size_t usable = 1 << 18, page = 4096;
    ucontext_t main_ctx, call_ctx;
    void (*fn)(const void* const*, void*) = nullptr; const void* const* ops = nullptr; void* res = nullptr;
    std::exception_ptr ex;
    static GuardedStack& inst() { static GuardedStack g; return g; }
    void init() {
        page = (size_t)sysconf(_SC_PAGESIZE);
        map = (unsigned char*)mmap(nullptr, usable + 2 * page, PROT_READ | PROT_WRITE, MAP_PRIVATE | MAP_ANONYMOUS, -1, 0);
        if (map == (unsigned char*)MAP_FAILED) { perror("mmap"); _exit(97); }
        mprotect(map, page, PROT_NONE); mprotect(map + page + usable, page, PROT_NONE);
    }
    static void tramp() {
        GuardedStack& g = inst();
        try { g.fn(g.ops, g.res); } catch (...) { g.ex = std::current_exception(); }
    }
    void call(void (*f)(const void* const*, void*), const void* const* o, void* r) {
        if (!map) init();
        fn = f; ops = o; res = r; ex = nullptr;
        getcontext(&call_ctx);
        call_ctx.uc_stack.ss_sp = map + page; call_ctx.uc_stack.ss_size = usable; call_ctx.uc_link = &main_ctx;
        makecontext(&call_ctx, (void (*)())tramp, 0);
        swapcontext(&main_ctx, &call_ctx);
        if (ex) std::rethrow_exception(ex);
    }
};

template <class T> struct exact_limit { static double v() { return 9.0e15; } };                 // < 2^53
template <> struct exact_limit<float> { static double v() { return 1.6e7; } };                    // < 2^24
template <> struct exact_limit<int> { static double v() { return 2.0e9; } };                      // < 2^31
template <> struct exact_limit<std::complex<float>> { static double v() { return 4.0e6; } };
template <> struct exact_limit<std::complex<double>> { static double v() { return 2.0e15; } };

// ---- the driver ---------------------------------------------------------------------------------------------------------
template <class T> struct Driver {
    fx::Ctx& fx; const Job<T>& j; const Spec& s; Nest n;
    int nops;
    T* op[MAXOPS]; const void* opv[MAXOPS]; const T* opc[MAXOPS];
    unsigned char* cp; T* cd;
    std::vector<T> exp;
    std::vector<long double> e, bd, mg;
    long mod;         // magnitude bound of the integer-valued schemes so that every partial sum is exact in T
    bool comparable;  // observed element count == expected element count

    Driver(fx::Ctx& f, const Job<T>& jj) : fx(f), j(jj), s(*jj.s) {
        nops = s.nops; n.setup(s);
        fx.arena[0].paint(); fx.arena[1].paint(); fx.arena[2].paint();
        cp = fx.arena[0].place_mid(j.sizeofR, 64); cd = (T*)cp;
        // operands 0,1 in arena 1, operands 2,3 in arena 2 (64-byte aligned, canaries around each)
        for (int p = 0; p < nops; ++p) {
            fx::Arena& ar = fx.arena[1 + p / 2];
            unsigned char* q = (p % 2 == 0) ? ar.lo + 256 : ar.place_mid(j.sizeofOp[p], 64);
            if (p % 2 == 1 && (size_t)(q - (ar.lo + 256)) < j.sizeofOp[p - 1] + 128) { fprintf(stderr, "einsum: operands too large for the arena\n"); abort(); }
            if (q + j.sizeofOp[p] + 128 > ar.hi || j.sizeofOp[p] < sizeof(T) * (size_t)n.nOp[p]) { fprintf(stderr, "einsum: operand size inconsistent\n"); abort(); }
            op[p] = (T*)q; opv[p] = q; opc[p] = op[p];
            memset(q, 0, j.sizeofOp[p]);
        }
        if (j.sizeofR + 1024 > fx.arena[0].cap()) { fprintf(stderr, "einsum: result too large for the arena\n"); abort(); }
        exp.resize((size_t)n.nRes);
        comparable = (size_t)n.nRes == j.nres;
        double lim = exact_limit<T>::v() / (double)n.K;
        double m = std::floor(std::pow(lim, 1.0 / nops)) - 4;
        mod = (long)(m > 251 ? 251 : m); if (mod < 2) mod = 2;
    }
    std::string shape(int rank, const size_t* d) const {
        if (rank < 0) return "scalar T";
        std::string r = "Tensor<T"; for (int i = 0; i < rank; ++i) r += "," + std::to_string(d[i]); return r + ">";
    }
    // judged outcome 1: the declared result type
    void judge_type() {
        size_t ed[MAXOUT]; for (int i = 0; i < s.nout; ++i) { int u = 0; while (n.U[u] != s.outlab[i]) ++u; ed[i] = (size_t)n.E[u]; }
        fx.pt("scheme=type");
        uint64_t h = fx::hash_bytes(ed, sizeof(size_t) * (s.nout < 0 ? 0 : s.nout), 17);
        fx.verdict(j.type_ok, h, true, "result type is " + shape(j.rrank, j.rdims) + ", expected " + shape(s.nout, ed) +
                   " (free labels in order of first appearance)");
    }
    void finish() {
        fx.frame(0, cp, j.sizeofR, "write outside the result object");
        for (int p = 0; p < nops; ++p) {   // the operands are inputs: nothing around them may change either
            long d = fx.arena[1 + p / 2].first_damage((const unsigned char*)op[p], j.sizeofOp[p], 192);
            if (d != 0x7fffffffL) { fx.fail("write near operand " + std::to_string(p) + " at offset " + std::to_string(d)); fx.arena[1 + p / 2].paint(); }
        }
        memset(cp, fx::Arena::CAN, j.sizeofR);
    }
    bool call() {
        memset(cp, fx::Arena::CAN, j.sizeofR);
        if (!fx.run([&] { GuardedStack::inst().call(j.call, opv, cp); })) { memset(cp, fx::Arena::CAN, j.sizeofR); fx.arena[0].paint(); return false; }
        return true;
    }
    void eval_exact(const char* what) {
        ref_einsum<T>(n, nops, opc, exp.data());
        if (!call()) return;
        if (comparable) fx.eq(cd, exp.data(), (size_t)n.nRes, (const T*)nullptr, what);
        else fx.verdict(false, fx::hash_bytes(exp.data(), sizeof(T) * exp.size()), true,
                        std::string(what) + ": observed result has " + std::to_string(j.nres) + " elements, expected " + std::to_string(n.nRes));
        finish();
    }
    void fill_addr_all() {
        for (int p = 0; p < nops; ++p) fxv::fill_addr(op[p], (size_t)n.nOp[p], 1 + 2 * p, 7 + 4 * p, mod, true);
    }
    void zero_all() { for (int p = 0; p < nops; ++p) fxv::fill_const(op[p], (size_t)n.nOp[p], T(0)); }
    // complete basis probing: every tuple of basis elements, one per operand (determines the multilinear form)
    void basis_full(int p) {
        if (p == nops) {
            eval_exact("basis"); return;
        }
        for (long i = 0; i < n.nOp[p]; ++i) {
            op[p][i] = T(1); bidx[p] = i;
            if (p == nops - 1) fx.pt("scheme=basis,p0=%lld,p1=%lld,p2=%lld,p3=%lld", bidx[0], bidx[1], bidx[2], bidx[3]);
            basis_full(p + 1);
            op[p][i] = T(0);
        }
    }
    long bidx[MAXOPS] = {0, 0, 0, 0};
    // partial probing: e_i in one operand against address-coded data in the others (linearity in each operand)
    void basis_half() {
        for (int p = 0; p < nops; ++p) {
            fill_addr_all(); fxv::fill_const(op[p], (size_t)n.nOp[p], T(0));
            for (long i = 0; i < n.nOp[p]; ++i) {
                op[p][i] = T(1); fx.pt("scheme=halfbasis,operand=%lld,i=%lld", p, i);
                eval_exact("halfbasis");
                op[p][i] = T(0);
            }
        }
    }
    void frac() { frac_impl(std::integral_constant<bool, std::is_floating_point<T>::value>()); }
    void frac_impl(std::false_type) {}
    void frac_impl(std::true_type) {
        if (!comparable) return;
        e.resize((size_t)n.nRes); bd.resize((size_t)n.nRes); mg.resize((size_t)n.nRes);
        for (int p = 0; p < nops; ++p) fxv::fill_frac(op[p], (size_t)n.nOp[p], 1 + p);
        ref_einsum_ld<T>(n, nops, opc, e.data(), mg.data());
        // every elementary product passes through at most (nops-1) multiplications and K additions, whatever the
        // pairing order or intermediate tensors; two extra roundings of slack
        const long double u = fxv::unit_roundoff<T>::v();
        long double g = ((long double)n.K + nops + 2) * u; g = g / (1 - g);
        for (long i = 0; i < n.nRes; ++i) bd[i] = g * mg[i] + 1e-4900L;
        fx.pt("scheme=frac");
        if (!call()) return;
        fx.tol(cd, e.data(), bd.data(), (size_t)n.nRes, "frac");
        finish();
    }
    void run_all() {
        if (!n.consistent) { fx.verdict(false, 1, true, "harness: inconsistent case specification"); return; }
        if (s.route && *s.route) fx.route(s.route);
        judge_type();
        for (int k = 0; k < j.nlib; ++k) {
            fx.route(std::string(j.libname[k]) + "=" + std::to_string(j.lib[k]));
            if (s.pred[k] != j.lib[k]) {
                const std::string msg = std::string("enumerator predicted ") + j.libname[k] + "=" + std::to_string(s.pred[k]) +
                                        " but the library's constant is " + std::to_string(j.lib[k]);
                fx.route("model.mismatch");
                if (j.strict_model) { fx.pt("scheme=model"); fx.verdict(false, 2, true, "harness: " + msg); }
                else fx.note(msg);
            }
        }
        fill_addr_all(); fx.pt("scheme=addr"); eval_exact("addr");
        uint64_t sd = fx.seed ^ (uint64_t)(n.vol * 1000003ull + n.nRes * 10007ull + nops);
        for (int p = 0; p < nops; ++p) for (int i = 0; i < s.rank[p]; ++i) sd = fx::mix64(sd, (uint64_t)(s.lab[p][i] * 31 + s.ext[p][i]));
        fxv::Rng r(sd);
        for (int g = 0; g < 2; ++g) {
            for (int p = 0; p < nops; ++p) fxv::fill_generic(op[p], (size_t)n.nOp[p], r, mod < 255 ? mod : 255);
            fx.pt("scheme=generic,g=%lld", g); eval_exact("generic");
        }
        double tuples = 1; for (int p = 0; p < nops; ++p) tuples *= (double)n.nOp[p];
        if (tuples * (double)(n.vol + n.nRes + 64) <= s.basis_cap) { zero_all(); basis_full(0); fx.route("scheme.basis_full"); }
        else { basis_half(); fx.route("scheme.basis_half"); }
        frac();
    }
};

template <class T> static FX_NOINLINE void run_job(fx::Ctx& fx, const Job<T>& j) { Driver<T> d(fx, j); d.run_all(); }

// fill the type-derived part of a Job
template <class T, class R, class Exp> static inline void describe_result(Job<T>& j) {
    static_assert(std::is_trivially_destructible<R>::value, "result objects are placed in raw arenas");
    j.sizeofR = sizeof(R); j.nres = res_traits<R>::size; j.rrank = res_traits<R>::rank; res_traits<R>::dims(j.rdims);
    j.type_ok = std::is_same<R, Exp>::value;
}

} // namespace es
