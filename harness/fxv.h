// fxv.h - value schemes (DESIGN.md section 4) and small reference helpers shared by property headers.
#pragma once
#include "fx.h"

namespace fxv {

struct Rng {   // splitmix64: deterministic, seeded from VERIF_SEED; only used for the "generic points"
    uint64_t s;
    explicit Rng(uint64_t seed) : s(seed * 0x9e3779b97f4a7c15ull + 0x1234567ull) {}
    uint64_t next() { uint64_t z = (s += 0x9e3779b97f4a7c15ull); z = (z ^ (z >> 30)) * 0xbf58476d1ce4e5b9ull;
                      z = (z ^ (z >> 27)) * 0x94d049bb133111ebull; return z ^ (z >> 31); }
    long long in(long long lo, long long hi) { return lo + (long long)(next() % (uint64_t)(hi - lo + 1)); }
};

template <class T> struct mk {
    static T from(long long re, long long /*im*/) { return (T)re; }
    static T fromd(double re, double /*im*/) { return (T)re; }
};
template <class R> struct mk<std::complex<R>> {
    static std::complex<R> from(long long re, long long im) { return std::complex<R>((R)re, (R)im); }
    static std::complex<R> fromd(double re, double im) { return std::complex<R>((R)re, (R)im); }
};

// address-coded integer-valued data: pairwise distinct magnitudes (within a period), alternating signs.
// |value| <= mod+off ; choose mod so that exact sums stay representable.
template <class T> static inline void fill_addr(T* p, size_t n, long long off, long long mul, long long mod, bool signs) {
    for (size_t i = 0; i < n; ++i) {
        long long v = off + (long long)((i * (unsigned long long)mul) % (unsigned long long)mod);
        long long w = 1 + (long long)(((i + 3) * 5ull) % 7ull);
        if (signs && (i % 3 == 1)) v = -v;
        if (signs && (i % 4 == 2)) w = -w;
        p[i] = mk<T>::from(v, w);
    }
}
template <class T> static inline void fill_generic(T* p, size_t n, Rng& r, long long R, bool positive = false) {
    for (size_t i = 0; i < n; ++i) {
        long long a = positive ? r.in(1, R) : r.in(-R, R), b = positive ? r.in(1, R) : r.in(-R, R);
        p[i] = mk<T>::from(a, b);
    }
}
// non-integer values k/7 with mixed signs and magnitudes
template <class T> static inline void fill_frac(T* p, size_t n, unsigned salt) {
    for (size_t i = 0; i < n; ++i) {
        int k = (int)((i * 37u + salt * 11u) % 29u) - 14; if (k == 0) k = 5;
        int m = (int)((i * 13u + salt * 7u) % 23u) - 11;
        double sc = ((i + salt) % 5 == 0) ? 64.0 : (((i + salt) % 5 == 3) ? 1.0 / 32.0 : 1.0);
        p[i] = mk<T>::fromd(sc * k / 7.0, sc * m / 7.0);
    }
}
template <class T> static inline void fill_const(T* p, size_t n, T v) { for (size_t i = 0; i < n; ++i) p[i] = v; }

// sentinel: a value the schemes above never produce as an expected result
template <class T> struct sentinel { static T v() { return (T)0x5A5A5A5A5A5A5A5All; } };
template <> struct sentinel<int> { static int v() { return 0x5A5A5A5A; } };
template <> struct sentinel<float> { static float v() { return -7.7777e33f; } };
template <> struct sentinel<double> { static double v() { return -7.7777e133; } };
template <> struct sentinel<bool> { static bool v() { return true; } };
template <class R> struct sentinel<std::complex<R>> { static std::complex<R> v() { return std::complex<R>(sentinel<R>::v(), sentinel<R>::v()); } };

template <class T> struct unit_roundoff { static long double v() { return 0.0L; } };
template <> struct unit_roundoff<float> { static long double v() { return 5.9604644775390625e-8L; } };          // 2^-24
template <> struct unit_roundoff<double> { static long double v() { return 1.1102230246251565404e-16L; } };     // 2^-53
template <class R> struct unit_roundoff<std::complex<R>> { static long double v() { return unit_roundoff<R>::v(); } };

template <class T> static inline long double absl(const T& v) { return v < 0 ? -(long double)v : (long double)v; }
template <class R> static inline long double absl(const std::complex<R>& v) { return absl(v.real()) + absl(v.imag()); }

// ---- reference matrix product (plain loops, run-time shapes) -------------------------------------------------
template <class T> static inline void ref_matmul(const T* a, const T* b, T* c, size_t M, size_t K, size_t N) {
    for (size_t i = 0; i < M; ++i)
        for (size_t j = 0; j < N; ++j) {
            T s = T(0);
            for (size_t k = 0; k < K; ++k) s += a[i * K + k] * b[k * N + j];
            c[i * N + j] = s;
        }
}
// long-double reference + forward bound gamma_K * sum|a||b| (real types)
template <class T> static inline void ref_matmul_ld(const T* a, const T* b, long double* c, long double* bound, size_t M, size_t K,
                                                    size_t N, long double extra_roundings = 2.0L) {
    const long double u = unit_roundoff<T>::v();
    for (size_t i = 0; i < M; ++i)
        for (size_t j = 0; j < N; ++j) {
            long double s = 0, m = 0;
            for (size_t k = 0; k < K; ++k) {
                long double t = (long double)a[i * K + k] * (long double)b[k * N + j];
                s += t; m += t < 0 ? -t : t;
            }
            long double g = (K + extra_roundings) * u; g = g / (1 - g);
            c[i * N + j] = s; bound[i * N + j] = g * m + 1e-4900L;
        }
}

} // namespace fxv
