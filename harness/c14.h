// c14.h - permute / permutation / transpose / trans / ctrans cases (property C14)
// Thin thunks: only the library call (and the type it returns) is instantiated per compile-time case.  Shapes,
// permutations, reference positions and the judgement are run-time-shaped code instantiated once per element type.
#pragma once
#include "fxv.h"
#include <Fastor/Fastor.h>
#include <utility>

namespace c14 {
using namespace Fastor;

enum Entry { E_PERMUTE = 0, E_PERMUTATION = 1 };
enum Src { S_TENSOR = 0, S_ADD0 = 1, S_TWICE = 2, S_SLICE = 3, S_AAA = 4 };
static const int MAXR = 6;

// ---- compile-time helpers --------------------------------------------------------------------------------------
template <class X> struct TInfo { static constexpr bool is_tensor = false; static constexpr int rank = 0; static void ext(size_t*) {} };
template <class T, size_t... R> struct TInfo<Tensor<T, R...>> {
    static constexpr bool is_tensor = true; static constexpr int rank = (int)sizeof...(R);
    static void ext(size_t* d) { const size_t v[] = {R...}; for (int i = 0; i < rank; ++i) d[i] = v[i]; }
};
template <class T, class Sh> struct ToTensor;
template <class T, size_t... s> struct ToTensor<T, Index<s...>> { using type = Tensor<T, s...>; };
// the tensor type the statement demands: extents shape[p[n]]
template <class T, class Sh, class P> struct Permuted;
template <class T, size_t... s, size_t... p> struct Permuted<T, Index<s...>, Index<p...>> {
    static constexpr size_t sh[sizeof...(s)] = {s...};
    using type = Tensor<T, sh[p]...>;
};
// slice source: the operand is the interior block big(fseq<1,1+s0>, fall, ..., fseq<1,1+sk>) of a larger tensor
// (first extent +1, last extent +2), an unevaluated compile-time view
template <class T, class Sh, class Seq> struct Slice;
template <class T, size_t... s, size_t... k> struct Slice<T, Index<s...>, std::index_sequence<k...>> {
    static constexpr size_t R = sizeof...(s);
    static constexpr size_t off(size_t i) { return (i == 0 || i == R - 1) ? 1 : 0; }
    static constexpr size_t add(size_t i) { return i == R - 1 ? 2 : (i == 0 ? 1 : 0); }
    using Big = Tensor<T, (s + add(k))...>;
    static FASTOR_INLINE auto view(Big& b) -> decltype(b(fseq<(int)off(k), (int)(off(k) + s)>{}...)) { return b(fseq<(int)off(k), (int)(off(k) + s)>{}...); }
};

template <int ENTRY> struct Call;
template <> struct Call<E_PERMUTE> { template <class P, class X> static FASTOR_INLINE auto go(const X& x) -> decltype(permute<P>(x)) { return permute<P>(x); } };
template <> struct Call<E_PERMUTATION> { template <class P, class X> static FASTOR_INLINE auto go(const X& x) -> decltype(permutation<P>(x)) { return permutation<P>(x); } };

// source expression handed to the library (forward direction) and to the inverse permutation (backward direction)
template <int SRC, class T, class Sh> struct Mk {   // S_TENSOR
    using Operand = typename ToTensor<T, Sh>::type;
    static FASTOR_INLINE const Operand& go(Operand& a) { return a; }
    template <class R> static FASTOR_INLINE const R& back(R& r) { return r; }
};
template <class T, class Sh> struct Mk<S_ADD0, T, Sh> {
    using Operand = typename ToTensor<T, Sh>::type;
    static FASTOR_INLINE auto go(Operand& a) -> decltype(a + T(0)) { return a + T(0); }
    template <class R> static FASTOR_INLINE auto back(R& r) -> decltype(r + T(0)) { return r + T(0); }
};
template <class T, class Sh> struct Mk<S_TWICE, T, Sh> {
    using Operand = typename ToTensor<T, Sh>::type;
    static FASTOR_INLINE auto go(Operand& a) -> decltype(T(2) * a) { return T(2) * a; }
    template <class R> static FASTOR_INLINE const R& back(R& r) { return r; }
};
// (A+A)-A: an unevaluated expression without scalar operands (complex scalars are bound by reference inside expressions, so
// A+T(0) built in a helper would dangle for std::complex)
template <class T, class Sh> struct Mk<S_AAA, T, Sh> {
    using Operand = typename ToTensor<T, Sh>::type;
    static FASTOR_INLINE auto go(Operand& a) -> decltype((a + a) - a) { return (a + a) - a; }
    template <class R> static FASTOR_INLINE auto back(R& r) -> decltype((r + r) - r) { return (r + r) - r; }
};
template <class T, class Sh> struct Mk<S_SLICE, T, Sh> {
    using SL = Slice<T, Sh, std::make_index_sequence<Sh::Size>>;
    using Operand = typename SL::Big;
    static FASTOR_INLINE auto go(Operand& b) -> decltype(SL::view(b)) { return SL::view(b); }
    template <class R> static FASTOR_INLINE const R& back(R& r) { return r; }
};

struct PJob {
    int rank, entry, src;
    size_t shape[MAXR], perm[MAXR], pinv[MAXR];
    int rrank; size_t rext[MAXR];          // rank and extents of the RESULT TYPE
    int brank; size_t bext[MAXR];          // rank and extents of the type returned by the inverse permutation
    bool type_p, type_pinv, back_type_ok;  // std::is_same outcomes (judged at run time, not static_assert)
    size_t sizeofOp, sizeofR, sizeofA2;
    int oprank; size_t opext[MAXR];        // operand object (the big tensor for S_SLICE, the tensor itself otherwise)
    void (*fwd)(void* op, void* r);
    void (*back)(void* r, void* a2);
};

template <class T, class Sh, class P, class Pinv, int ENTRY, int SRC> struct PT {
    using A = typename ToTensor<T, Sh>::type;
    using M = Mk<SRC, T, Sh>;
    using Operand = typename M::Operand;
    using R = typename std::decay<decltype(Call<ENTRY>::template go<P>(M::go(std::declval<Operand&>())))>::type;
    using A2 = typename std::decay<decltype(Call<ENTRY>::template go<Pinv>(M::back(std::declval<R&>())))>::type;
    static FX_NOINLINE void fwd(void* op, void* r) {
        Operand& a = *static_cast<Operand*>(op); fx::escape(op); fx::escape(r);
        new (r) R(Call<ENTRY>::template go<P>(M::go(a)));
        fx::clobber();
    }
    static FX_NOINLINE void back(void* rv, void* a2) {
        R& r = *static_cast<R*>(rv); fx::escape(rv); fx::escape(a2);
        new (a2) A2(Call<ENTRY>::template go<Pinv>(M::back(r)));
        fx::clobber();
    }
};

// ---- run-time driver ----------------------------------------------------------------------------------------------
static inline size_t prod(const size_t* e, int r) { size_t n = 1; for (int i = 0; i < r; ++i) n *= e[i]; return n; }
static inline void strides(const size_t* e, int r, size_t* st) { size_t s = 1; for (int i = r - 1; i >= 0; --i) { st[i] = s; s *= e[i]; } }
template <class T> static inline T code(size_t flat) { return fxv::mk<T>::from((long long)flat + 1, -(long long)(flat + 2)); }

static inline std::string vec_str(const size_t* v, int r) { std::string s; for (int i = 0; i < r; ++i) { if (i) s += "x"; s += std::to_string(v[i]); } return s; }

template <class T> struct PDriver {
    fx::Ctx& fx; const PJob& j;
    size_t n;
    std::vector<T> aval, expP, expPinv, sent;
    PDriver(fx::Ctx& f, const PJob& jj) : fx(f), j(jj), n(prod(jj.shape, jj.rank)), aval(n), expP(n), expPinv(n), sent(n, fxv::sentinel<T>::v()) {}

    // flat result of "axis permutation by q": extents e[m] = shape[q[m]], out(i[q0],...,i[qk]) = A(i0,...,ik)
    void expected(const size_t* q, std::vector<T>& out) const {
        size_t e[MAXR], st[MAXR], idx[MAXR] = {0};
        for (int m = 0; m < j.rank; ++m) e[m] = j.shape[q[m]];
        strides(e, j.rank, st);
        for (size_t flat = 0; flat < n; ++flat) {
            size_t o = 0; for (int m = 0; m < j.rank; ++m) o += idx[q[m]] * st[m];
            out[o] = aval[flat];
            for (int d = j.rank - 1; d >= 0; --d) { if (++idx[d] < j.shape[d]) break; idx[d] = 0; }
        }
    }
    void pad_note(const unsigned char* obj, size_t sz, size_t used) {
        for (size_t i = used; i < sz; ++i) if (obj[i] != fx::Arena::CAN) { fx.route("info.own_padding_written"); break; }
    }
    void run() {
        fx.arena[0].paint(); fx.arena[1].paint(); fx.arena[2].paint();
        unsigned char* op = fx.arena[1].place_mid(j.sizeofOp, 64);
        unsigned char* r = fx.arena[0].place_mid(j.sizeofR, 64);
        unsigned char* a2 = fx.arena[2].place_mid(j.sizeofA2, 64);
        // operand: address-coded values (flat index + 1; imaginary part -(flat+2)); for the slice source the values
        // outside the selected block are distinct negative markers
        T* od = (T*)op;
        const T scale = j.src == S_TWICE ? T(2) : T(1);
        if (j.src == S_SLICE) {
            size_t bn = prod(j.opext, j.oprank), bst[MAXR], idx[MAXR] = {0};
            strides(j.opext, j.oprank, bst);
            for (size_t i = 0; i < bn; ++i) od[i] = fxv::mk<T>::from(-(long long)(100000 + i), 7);
            for (size_t flat = 0; flat < n; ++flat) {
                size_t o = 0;
                for (int d = 0; d < j.rank; ++d) o += (idx[d] + ((d == 0 || d == j.rank - 1) ? 1 : 0)) * bst[d];
                od[o] = code<T>(flat);
                for (int d = j.rank - 1; d >= 0; --d) { if (++idx[d] < j.shape[d]) break; idx[d] = 0; }
            }
        } else {
            for (size_t i = 0; i < n; ++i) od[i] = code<T>(i);
        }
        for (size_t i = 0; i < n; ++i) aval[i] = scale * code<T>(i);
        expected(j.perm, expP); expected(j.pinv, expPinv);

        T* rd = (T*)r;
        const size_t rn = prod(j.rext, j.rrank);
        for (size_t i = 0; i < j.sizeofR / sizeof(T); ++i) rd[i] = fxv::sentinel<T>::v();   // the object is overwritten by placement-new anyway
        memset(r, fx::Arena::CAN, j.sizeofR);
        fx.pt("dir=forward");
        if (!fx.run([&] { j.fwd(op, r); })) return;
        const std::string sh = vec_str(j.shape, j.rank), re = vec_str(j.rext, j.rrank);
        if (j.entry == E_PERMUTE) {
            fx.verdict(j.type_p, fx::hash_bytes(j.rext, sizeof(size_t) * j.rrank), true,
                       "result type has extents " + re + ", the statement demands shape[p[n]] for shape " + sh);
            if (rn == n) fx.eq(rd, expP.data(), n, sent.data(), "out(i[p0],..,i[pk]) = A(i0,..,ik)");
            else fx.verdict(false, 1, true, "result size differs from the operand's");
        } else {
            // legacy permutation<>: by p or by p^-1, but the same choice for the extents and for the elements
            const bool el_p = rn == n && memcmp(rd, expP.data(), n * sizeof(T)) == 0;
            const bool el_q = rn == n && memcmp(rd, expPinv.data(), n * sizeof(T)) == 0;
            const bool ok = (j.type_p && el_p) || (j.type_pinv && el_q);
            char b[256];
            snprintf(b, sizeof b, "extents %s follow p:%d p^-1:%d ; elements follow p:%d p^-1:%d (shape %s)", re.c_str(), (int)j.type_p, (int)j.type_pinv,
                     (int)el_p, (int)el_q, sh.c_str());
            fx.verdict(ok, fx::hash_bytes(expP.data(), n * sizeof(T)), true, b);
            if (ok) fx.route((j.type_p && el_p) ? ((j.type_pinv && el_q) ? "legacy.choice.indistinguishable" : "legacy.choice.p") : "legacy.choice.pinv");
        }
        fx.frame(0, r, j.sizeofR, "write outside the result object");
        pad_note(r, j.sizeofR, rn * sizeof(T));
        // operand unchanged
        if (j.src != S_SLICE) { bool same = true; for (size_t i = 0; i < n && same; ++i) same = fx::Ctx::same(od[i], code<T>(i)); if (!same) fx.verdict(false, 2, true, "operand modified"); }
        fx.frame(1, op, j.sizeofOp, "write outside the operand");

        // inverse permutation applied to the result returns the input bit for bit
        memset(a2, fx::Arena::CAN, j.sizeofA2);
        fx.pt("dir=inverse");
        if (!fx.run([&] { j.back(r, a2); })) return;
        const size_t bn = prod(j.bext, j.brank);
        fx.verdict(j.back_type_ok, fx::hash_bytes(j.bext, sizeof(size_t) * j.brank) ^ 3, true,
                   "inverse permutation returns extents " + vec_str(j.bext, j.brank) + " instead of " + sh);
        if (bn == n) fx.eq((T*)a2, aval.data(), n, sent.data(), "permute<p^-1>(permute<p>(A)) = A");
        else fx.verdict(false, 4, true, "size after the inverse permutation differs");
        fx.frame(2, a2, j.sizeofA2, "write outside the result object (inverse)");
    }
};
template <class T> static FX_NOINLINE void run_perm(fx::Ctx& fx, const PJob& j) { PDriver<T> d(fx, j); d.run(); }

template <size_t... v> static inline void fill_idx(size_t* d, Index<v...>) { const size_t a[] = {v...}; for (size_t i = 0; i < sizeof...(v); ++i) d[i] = a[i]; }

template <class T, class Sh, class P, class Pinv, int ENTRY, int SRC> static inline void perm(fx::Ctx& fx) {
    using X = PT<T, Sh, P, Pinv, ENTRY, SRC>;
    using R = typename X::R; using A2 = typename X::A2; using A = typename X::A; using Op = typename X::Operand;
    static_assert(TInfo<R>::is_tensor && TInfo<A2>::is_tensor, "the library returns a tensor");
    static_assert(std::is_trivially_destructible<R>::value, "tensor objects are placed in raw arenas");
    PJob j; memset(&j, 0, sizeof j);
    j.rank = (int)Sh::Size; j.entry = ENTRY; j.src = SRC;
    fill_idx(j.shape, Sh()); fill_idx(j.perm, P()); fill_idx(j.pinv, Pinv());
    j.rrank = TInfo<R>::rank; TInfo<R>::ext(j.rext);
    j.brank = TInfo<A2>::rank; TInfo<A2>::ext(j.bext);
    j.oprank = TInfo<Op>::rank; TInfo<Op>::ext(j.opext);
    j.type_p = std::is_same<R, typename Permuted<T, Sh, P>::type>::value;
    j.type_pinv = std::is_same<R, typename Permuted<T, Sh, Pinv>::type>::value;
    j.back_type_ok = std::is_same<A2, A>::value;
    j.sizeofOp = sizeof(Op); j.sizeofR = sizeof(R); j.sizeofA2 = sizeof(A2);
    j.fwd = &X::fwd; j.back = &X::back;
    run_perm<T>(fx, j);
}

// ---- transpose / trans / ctrans ---------------------------------------------------------------------------------
enum TEntry { T_TRANSPOSE = 0, T_TRANS_CTOR = 1, T_TRANS_ASSIGN = 2, T_CTRANS_CTOR = 3, T_CTRANS_ASSIGN = 4, T_TRANSPOSE_EXPR = 5, T_TRANS_EXPR = 6,
              T_CTRANSPOSE = 7, T_BATCH = 8, T_TRANS_ADD = 9, T_TRANS_SUB = 10, T_TRANS_MUL = 11, T_TRANS_DIV = 12, T_CTRANSPOSE_EXPR = 13, T_CTRANS_EXPR = 14 };
template <int E> struct TTag {};
// R = the type the library itself attaches to the result (function return type, or the expression's result_type)
template <class A> static FASTOR_INLINE auto tcall(TTag<T_TRANSPOSE>, const A& a) -> decltype(transpose(a)) { return transpose(a); }
template <class A> static FASTOR_INLINE auto tcall(TTag<T_BATCH>, const A& a) -> decltype(transpose(a)) { return transpose(a); }
template <class A> static FASTOR_INLINE auto tcall(TTag<T_CTRANSPOSE>, const A& a) -> decltype(ctranspose(a)) { return ctranspose(a); }
template <class A> static FASTOR_INLINE auto tcall(TTag<T_TRANSPOSE_EXPR>, const A& a) -> decltype(transpose(a + typename A::scalar_type(0))) { return transpose(a + typename A::scalar_type(0)); }
template <class A> static FASTOR_INLINE auto tcall(TTag<T_TRANS_CTOR>, const A& a) -> typename decltype(trans(a))::result_type { return typename decltype(trans(a))::result_type(trans(a)); }
template <class A> static FASTOR_INLINE auto tcall(TTag<T_TRANS_EXPR>, const A& a) -> typename decltype(trans(a + typename A::scalar_type(0)))::result_type {
    return typename decltype(trans(a + typename A::scalar_type(0)))::result_type(trans(a + typename A::scalar_type(0))); }
template <class A> static FASTOR_INLINE auto tcall(TTag<T_CTRANS_CTOR>, const A& a) -> typename decltype(ctrans(a))::result_type { return typename decltype(ctrans(a))::result_type(ctrans(a)); }
template <class A> static FASTOR_INLINE auto tcall(TTag<T_TRANS_ASSIGN>, const A& a) -> typename decltype(trans(a))::result_type {
    typename decltype(trans(a))::result_type r; r = trans(a); return r; }
template <class A> static FASTOR_INLINE auto tcall(TTag<T_CTRANS_ASSIGN>, const A& a) -> typename decltype(ctrans(a))::result_type {
    typename decltype(ctrans(a))::result_type r; r = ctrans(a); return r; }

template <class A> static FASTOR_INLINE auto tcall(TTag<T_CTRANSPOSE_EXPR>, const A& a) -> decltype(ctranspose(a + typename A::scalar_type(0))) { return ctranspose(a + typename A::scalar_type(0)); }
template <class A> static FASTOR_INLINE auto tcall(TTag<T_CTRANS_EXPR>, const A& a) -> typename decltype(ctrans(a + typename A::scalar_type(0)))::result_type {
    return typename decltype(ctrans(a + typename A::scalar_type(0)))::result_type(ctrans(a + typename A::scalar_type(0))); }
// trans() consumed by a compound assignment; the destination is prepared so that the result is again exactly the transpose
template <class A> static FASTOR_INLINE auto tcall(TTag<T_TRANS_ADD>, const A& a) -> typename decltype(trans(a))::result_type {
    typename decltype(trans(a))::result_type r; r.zeros(); r += trans(a); return r; }
template <class A> static FASTOR_INLINE auto tcall(TTag<T_TRANS_SUB>, const A& a) -> typename decltype(trans(a))::result_type {
    typename decltype(trans(a))::result_type r, s; r.zeros(); s.zeros(); r -= trans(a); s -= r; return s; }
template <class A> static FASTOR_INLINE auto tcall(TTag<T_TRANS_MUL>, const A& a) -> typename decltype(trans(a))::result_type {
    typename decltype(trans(a))::result_type r; r.ones(); r *= trans(a); return r; }
template <class A> static FASTOR_INLINE auto tcall(TTag<T_TRANS_DIV>, const A& a) -> typename decltype(trans(a))::result_type {
    typename decltype(trans(a))::result_type t(transpose(a)), q; q = t * t; q /= trans(a); return q; }

struct TJob {
    size_t B, M, N; int entry; bool conj;
    int rrank; size_t rext[MAXR]; int brank; size_t bext[MAXR];
    size_t sizeofA, sizeofR, sizeofA2;
    void (*fwd)(void* a, void* r);
    void (*back)(void* r, void* a2);
};
template <class A, int E> struct TT {
    using R = typename std::decay<decltype(tcall(TTag<E>(), std::declval<const A&>()))>::type;
    using A2 = typename std::decay<decltype(tcall(TTag<E>(), std::declval<const R&>()))>::type;
    static FX_NOINLINE void fwd(void* av, void* r) { const A& a = *static_cast<const A*>(av); fx::escape(av); fx::escape(r); new (r) R(tcall(TTag<E>(), a)); fx::clobber(); }
    static FX_NOINLINE void back(void* rv, void* a2) { const R& r = *static_cast<const R*>(rv); fx::escape(rv); fx::escape(a2); new (a2) A2(tcall(TTag<E>(), r)); fx::clobber(); }
};
template <class T> static inline T cj(const T& v) { return v; }
template <class R> static inline std::complex<R> cj(const std::complex<R>& v) { return std::conj(v); }

template <class T> static FX_NOINLINE void run_trans(fx::Ctx& fx, const TJob& j) {
    const size_t n = j.B * j.M * j.N;
    fx.arena[0].paint(); fx.arena[1].paint(); fx.arena[2].paint();
    unsigned char* a = fx.arena[1].place_mid(j.sizeofA, 64);
    unsigned char* r = fx.arena[0].place_mid(j.sizeofR, 64);
    unsigned char* a2 = fx.arena[2].place_mid(j.sizeofA2, 64);
    T* ad = (T*)a;
    std::vector<T> exp(n), orig(n), sent(n, fxv::sentinel<T>::v());
    for (size_t i = 0; i < n; ++i) orig[i] = ad[i] = code<T>(i);
    for (size_t b = 0; b < j.B; ++b)
        for (size_t i = 0; i < j.M; ++i)
            for (size_t k = 0; k < j.N; ++k) exp[b * j.M * j.N + k * j.M + i] = j.conj ? cj(ad[b * j.M * j.N + i * j.N + k]) : ad[b * j.M * j.N + i * j.N + k];
    memset(r, fx::Arena::CAN, j.sizeofR);
    fx.pt("dir=forward");
    if (!fx.run([&] { j.fwd(a, r); })) return;
    // extents from the result type: N x M (batch: B x N x M with N == M)
    bool ext_ok = j.B == 1 && j.entry != T_BATCH ? (j.rrank == 2 && j.rext[0] == j.N && j.rext[1] == j.M)
                                                 : (j.rrank == 3 && j.rext[0] == j.B && j.rext[1] == j.N && j.rext[2] == j.M);
    fx.verdict(ext_ok, fx::hash_bytes(j.rext, sizeof(size_t) * j.rrank), true, "result type has extents " + vec_str(j.rext, j.rrank));
    if (prod(j.rext, j.rrank) == n) fx.eq((T*)r, exp.data(), n, sent.data(), j.conj ? "out(j,i) = conj(A(i,j))" : "out(j,i) = A(i,j)");
    else fx.verdict(false, 1, true, "result size differs");
    fx.frame(0, r, j.sizeofR, "write outside the result object");
    for (size_t i = n * sizeof(T); i < j.sizeofR; ++i) if (r[i] != fx::Arena::CAN) { fx.route("info.own_padding_written"); break; }
    { bool same = true; for (size_t i = 0; i < n && same; ++i) same = fx::Ctx::same(ad[i], orig[i]); if (!same) fx.verdict(false, 2, true, "operand modified"); }
    fx.frame(1, a, j.sizeofA, "write outside the operand");
    memset(a2, fx::Arena::CAN, j.sizeofA2);
    fx.pt("dir=inverse");
    if (!fx.run([&] { j.back(r, a2); })) return;
    if (prod(j.bext, j.brank) == n) fx.eq((T*)a2, orig.data(), n, sent.data(), "transposing twice returns the input");
    else fx.verdict(false, 4, true, "size after transposing twice differs");
    fx.frame(2, a2, j.sizeofA2, "write outside the result object (inverse)");
}

template <class T, class A, int E> static inline void trans_any(fx::Ctx& fx, size_t B, size_t M, size_t N) {
    using X = TT<A, E>; using R = typename X::R; using A2 = typename X::A2;
    static_assert(TInfo<R>::is_tensor && TInfo<A2>::is_tensor, "the library returns a tensor");
    TJob j; memset(&j, 0, sizeof j);
    j.B = B; j.M = M; j.N = N; j.entry = E;
    j.conj = (E == T_CTRANS_CTOR || E == T_CTRANS_ASSIGN || E == T_CTRANSPOSE || E == T_CTRANSPOSE_EXPR || E == T_CTRANS_EXPR);
    j.rrank = TInfo<R>::rank; TInfo<R>::ext(j.rext); j.brank = TInfo<A2>::rank; TInfo<A2>::ext(j.bext);
    j.sizeofA = sizeof(A); j.sizeofR = sizeof(R); j.sizeofA2 = sizeof(A2);
    j.fwd = &X::fwd; j.back = &X::back;
    run_trans<T>(fx, j);
}
template <class T, size_t M, size_t N, int E> static inline void tr(fx::Ctx& fx) { trans_any<T, Tensor<T, M, N>, E>(fx, 1, M, N); }
template <class T, size_t B, size_t J> static inline void trb(fx::Ctx& fx) { trans_any<T, Tensor<T, B, J, J>, T_BATCH>(fx, B, J, J); }

} // namespace c14
