// c02.h - element-wise expression evaluation (property C02)
// A case is a local struct K { TT (operand tensor type), RT (result tensor type), static call(a,b,c,r), static ref(x,y,c,skip) }
// generated from one expression tree: `call` is the library statement, `ref` the same tree over scalars.  Everything
// else (alphabets, rotation of values through lanes and tail, expected values, judgement) is run-time code per type.
#pragma once
#include "fxv.h"
#include <Fastor/Fastor.h>
#include <memory>

namespace c02 {
using namespace Fastor;

enum Form { F_CTOR = 0, F_ASSIGN = 1, F_ADD = 2, F_SUB = 3, F_MUL = 4, F_DIV = 5 };
enum Cls { EXACT_SZ = 0 /* bit exact incl. the sign of zero */, EXACT = 1 /* exact, +0 == -0 */, RCP2 = 3 /* r /= scalar: two roundings */ };

static bool g_fatal = false;   // raised by integer division whose execution traps (x/0, min/-1): such lanes get benign operands instead
// ---- scalar operations of the reference; `s` is raised where the C++ scalar result is undefined ----------------
template <class T, bool INT = std::is_integral<T>::value> struct ops;
template <class T> struct ops<T, false> {
    static T add(T x, T y, bool&) { return x + y; }
    static T sub(T x, T y, bool&) { return x - y; }
    static T mul(T x, T y, bool&) { return x * y; }
    static T div(T x, T y, bool&) { return x / y; }
    static T neg(T x, bool&) { return -x; }
    static T abs(T x, bool&) { return std::abs(x); }
    static T sqrt(T x, bool&) { return std::sqrt(x); }
    static T min(T x, T y, bool& s) { if (x != x || y != y || (x == 0 && y == 0)) s = true; return std::min(x, y); }
    static T max(T x, T y, bool& s) { if (x != x || y != y || (x == 0 && y == 0)) s = true; return std::max(x, y); }
};
template <class T> struct ops<T, true> {
    static T add(T x, T y, bool& s) { T r; if (__builtin_add_overflow(x, y, &r)) s = true; return r; }
    static T sub(T x, T y, bool& s) { T r; if (__builtin_sub_overflow(x, y, &r)) s = true; return r; }
    static T mul(T x, T y, bool& s) { T r; if (__builtin_mul_overflow(x, y, &r)) s = true; return r; }
    static T div(T x, T y, bool& s) { if (y == 0 || (x == std::numeric_limits<T>::min() && y == T(-1))) { s = true; g_fatal = true; return 0; } return x / y; }
    static T neg(T x, bool& s) { if (x == std::numeric_limits<T>::min()) { s = true; return x; } return -x; }
    static T abs(T x, bool& s) { if (x == std::numeric_limits<T>::min()) { s = true; return x; } return x < 0 ? -x : x; }
    static T sqrt(T x, bool& s) { s = true; return x; }
    static T min(T x, T y, bool&) { return std::min(x, y); }
    static T max(T x, T y, bool&) { return std::max(x, y); }
};

template <class T> struct alphabet;
template <> struct alphabet<float> {
    static std::vector<float> get() {
        using L = std::numeric_limits<float>;
        std::vector<float> v = {0.0f, -0.0f, 1.0f, -1.0f, 0.5f, 1.5f, -2.25f, 3.0f, 7.0f, -10.0f, 100.125f, L::denorm_min(), -L::denorm_min(),
            L::min(), -L::min(), std::nextafter(1.0f, 2.0f), std::nextafter(1.0f, 0.0f), -std::nextafter(1.0f, 2.0f), 8388607.0f, 8388608.0f,
            8388609.0f, 16777215.0f, 16777216.0f, -16777216.0f, 16777218.0f, L::max(), -L::max(), L::infinity(), -L::infinity(), L::quiet_NaN(),
            1.0e-20f, -3.0e20f, 0.1f, 0.3333333f, -0.7f, 2.0f, 4.0f, 1024.0f};
        return v;
    }
    static std::vector<float> scalars() { return {2.0f, -3.0f, 0.5f, 1.75f}; }
};
template <> struct alphabet<double> {
    static std::vector<double> get() {
        using L = std::numeric_limits<double>;
        std::vector<double> v = {0.0, -0.0, 1.0, -1.0, 0.5, 1.5, -2.25, 3.0, 7.0, -10.0, 100.125, L::denorm_min(), -L::denorm_min(), L::min(), -L::min(),
            std::nextafter(1.0, 2.0), std::nextafter(1.0, 0.0), -std::nextafter(1.0, 2.0), 4503599627370495.0, 4503599627370496.0, 4503599627370497.0,
            9007199254740991.0, 9007199254740992.0, -9007199254740992.0, 9007199254740994.0, L::max(), -L::max(), L::infinity(), -L::infinity(),
            L::quiet_NaN(), 1.0e-200, -3.0e200, 0.1, 1.0 / 3.0, -0.7, 2.0, 4.0, 1024.0, 16777216.0, 8388609.0};
        return v;
    }
    static std::vector<double> scalars() { return {2.0, -3.0, 0.5, 1.75}; }
};
template <class T> static std::vector<T> int_alphabet() {
    using L = std::numeric_limits<T>;
    std::vector<T> v = {0, 1, -1, 2, -2, 3, 5, -7, 10, 100, 127, 128, -128, 255, 256, -256, 32767, 32768, -32768, 65534, 65535, 65536, -65536, 46340, 46341,
        L::max(), L::max() - 1, L::min(), L::min() + 1, (T)0x7fff0000, (T)0x12345678};
    if (sizeof(T) == 8) { T big[] = {(T)1 << 31, ((T)1 << 31) - 1, -((T)1 << 31), (T)1 << 32, ((T)1 << 32) - 1, -((T)1 << 32), (T)1 << 62, ((T)1 << 62) - 1,
        (T)3037000499ll, (T)3037000500ll, (T)0xfffe0001ll, (T)0x100000001ll}; v.insert(v.end(), big, big + 12); }
    return v;
}
template <class R> struct alphabet<std::complex<R>> {   // integer-valued parts: + - * are exact
    using Z = std::complex<R>;
    static std::vector<Z> get() { std::vector<Z> v; const int re[] = {0, 1, -1, 2, -3, 5, 7, -4, 12, 100}; const int im[] = {0, 1, -2, 3, 0, -5, 4, -1, 9, -64};
        for (int i = 0; i < 10; ++i) for (int k = 0; k < 10; k += 3) v.push_back(Z((R)re[i], (R)im[(k + i) % 10])); return v; }
    static std::vector<Z> scalars() { return {Z(2, 0), Z(-1, 2), Z(0, -3)}; }
};
template <> struct alphabet<int> { static std::vector<int> get() { return int_alphabet<int>(); } static std::vector<int> scalars() { return {2, -3, 7}; } };
template <> struct alphabet<int64_t> { static std::vector<int64_t> get() { return int_alphabet<int64_t>(); } static std::vector<int64_t> scalars() { return {2, -3, 7}; } };

template <class T, class R> struct Job {
    size_t n, sizeofA, sizeofR;
    int form, cls, nleaf;
    void (*call)(const void* a, const void* b, T c, void* r);
    R (*ref)(T x, T y, T c, bool& skip);
};

template <class T, class R, bool SAME = std::is_same<T, R>::value> struct Combine {   // R == T: all six forms
    static R go(int form, R r0, R e, bool& s) {
        using O = ops<T>;
        switch (form) { case F_ADD: return O::add(r0, e, s); case F_SUB: return O::sub(r0, e, s); case F_MUL: return O::mul(r0, e, s);
                        case F_DIV: return O::div(r0, e, s); default: return e; }
    }
};
template <class T, class R> struct Combine<T, R, false> { static R go(int, R, R e, bool&) { return e; } };

template <class T, class R> struct Driver {
    static FX_NOINLINE void go(fx::Ctx& fx, const Job<T, R>& j) {
        const size_t n = j.n;
        fx.arena[0].paint(); fx.arena[1].paint();
        unsigned char* rp = fx.arena[0].place_mid(j.sizeofR, 64); R* rd = (R*)rp;
        T* a = (T*)fx.arena[1].place_mid(j.sizeofA, 64);
        T* b = (T*)(fx.arena[1].lo + 256);
        const std::vector<T> al = alphabet<T>::get(); const std::vector<T> sc = alphabet<T>::scalars();
        const size_t L = al.size();
        std::unique_ptr<R[]> r0_(new R[n]), e_(new R[n]), obs_(new R[n]); R *r0 = r0_.get(), *e = e_.get(), *obs = obs_.get(); std::vector<char> skip(n);
        uint64_t judged = 0, skipped = 0, substituted = 0, calls_skipped = 0;
        for (size_t ci = 0; ci < sc.size(); ++ci) {
            const T c = sc[ci];
            for (size_t rot = 0; rot < L; ++rot) {
                for (size_t i = 0; i < n; ++i) { a[i] = al[(i + rot) % L]; b[i] = al[(i * 5 + rot * 3 + ci + 1) % L]; }
                const bool uses_r0 = j.form >= F_ADD;
                bool call_ok = true;
                for (size_t i = 0; i < n; ++i) {
                    r0[i] = uses_r0 ? (R)(T)(j.form == F_DIV ? (T)(12 + (long long)(i % 3) * 12) : (T)(2 + (long long)(i % 5))) : fxv::sentinel<R>::v();
                    bool s = false; g_fatal = false;
                    R v = j.ref(a[i], b[i], c, s);
                    e[i] = Combine<T, R>::go(j.form, r0[i], v, s);
                    if (g_fatal) {   // a trapping integer division in this lane: substitute benign operands (kept in the count of skipped lanes)
                        a[i] = (T)11; b[i] = (T)5; s = false; g_fatal = false;
                        v = j.ref(a[i], b[i], c, s); e[i] = Combine<T, R>::go(j.form, r0[i], v, s);
                        if (g_fatal) call_ok = false;
                        ++substituted;
                    }
                    skip[i] = s;
                }
                if (!call_ok) { ++calls_skipped; continue; }
                memcpy(rd, r0, sizeof(R) * n);
                fx.pt("c=%lld,rot=%lld", (long long)ci, (long long)rot);
                if (!fx.run([&] { j.call(a, b, c, rp); })) { memset(rp, fx::Arena::CAN, j.sizeofR); continue; }
                memcpy(obs, rd, sizeof(R) * n);
                // elements whose scalar result is undefined are not judged: copy the observation into the expectation
                // (both are blanked, so that the values dumped for the cross-configuration comparison of C06 carry no unjudged lanes either:
                // e.g. max(x, NaN) is x or NaN depending on the operand order of the instruction, which the statement leaves open)
                size_t sk = 0; for (size_t i = 0; i < n; ++i) if (skip[i]) { obs[i] = R(); e[i] = R(); ++sk; }
                skipped += sk; judged += n - sk;
                if (j.cls == RCP2) judge_rcp(fx, obs, e, r0, c, n);
                else fx.eq(obs, e, n, r0, "", j.cls == EXACT_SZ);
                fx.frame(0, rp, j.sizeofR, "write outside the result object");
                memset(rp, fx::Arena::CAN, j.sizeofR);
            }
        }
        if (substituted) fx.route("elements.trapping_division_substituted", substituted);
        if (calls_skipped) fx.route("calls.skipped_trapping_division", calls_skipped);
        fx.route("elements.judged", judged); fx.route("elements.skipped_undefined_scalar", skipped);
    }
    // r /= c is documented as r * (1/c): within one rounding of 1/c plus one of the product
    template <class U = T> static typename std::enable_if<std::is_floating_point<U>::value && std::is_same<U, R>::value>::type
    judge_rcp(fx::Ctx& fx, const R* obs, const R* /*e*/, const R* r0, T c, size_t n) {
        std::vector<long double> ex(n), bd(n);
        const long double u = fxv::unit_roundoff<T>::v();
        for (size_t i = 0; i < n; ++i) { ex[i] = (long double)r0[i] / (long double)c; bd[i] = 2.5L * u * fxv::absl(ex[i]) + (long double)std::numeric_limits<T>::denorm_min(); }
        fx.tol(obs, ex.data(), bd.data(), n, "div-by-scalar");
    }
    template <class U = T> static typename std::enable_if<!(std::is_floating_point<U>::value && std::is_same<U, R>::value)>::type
    judge_rcp(fx::Ctx& fx, const R* obs, const R* e, const R* r0, T, size_t n) { fx.eq(obs, e, n, r0, ""); }
};

template <class K> static FX_NOINLINE void tramp(const void* a, const void* b, typename K::T c, void* r) {
    fx::escape(a); fx::escape(b); fx::escape(r);
    K::call(*static_cast<const typename K::TT*>(a), *static_cast<const typename K::TT*>(b), c, *static_cast<typename K::RT*>(r));
    fx::clobber();
}
template <class K> static inline void run(fx::Ctx& fx, int form, int cls) {
    using T = typename K::T; using R = typename K::RT::scalar_type;
    Job<T, R> j{(size_t)K::TT::size(), sizeof(typename K::TT), sizeof(typename K::RT), form, cls, 2, &tramp<K>, &K::ref};
    Driver<T, R>::go(fx, j);
}

// assignment forms as overloads so that only the selected one is instantiated
template <int FORM> struct FT {};
template <class RT, class E> static inline void assign(FT<F_CTOR>, RT& r, const E& e) { new (&r) RT(e); }
template <class RT, class E> static inline void assign(FT<F_ASSIGN>, RT& r, const E& e) { r = e; }
template <class RT, class E> static inline void assign(FT<F_ADD>, RT& r, const E& e) { r += e; }
template <class RT, class E> static inline void assign(FT<F_SUB>, RT& r, const E& e) { r -= e; }
template <class RT, class E> static inline void assign(FT<F_MUL>, RT& r, const E& e) { r *= e; }
template <class RT, class E> static inline void assign(FT<F_DIV>, RT& r, const E& e) { r /= e; }

} // namespace c02
