// c16.h - reductions, predicates and scalar-valued functions (property C16)
// thunk = the library call on tensor objects living in an arena; everything else is run-time code per element type.
#pragma once
#include "fxv.h"
#include <Fastor/Fastor.h>

namespace c16 {
using namespace Fastor;

enum Func { SUM = 0, PRODUCT, MIN, MAX, NORM, INNER2, MSUM /* a.sum() */, MPRODUCT /* a.product() */, TRACE, INNER1 };
enum Arg { A_TENSOR = 0, A_ADD /* a+b */, A_NEG /* -a */, A_SCALE /* 2*a */, A_TAILVIEW /* a(fseq<1,N>) on 1-D */,
           A_TE /* inner(a, b+0): tensor, expression */, A_EE /* inner(a+0, b+0) */, A_TV /* inner(a, view of b) */ };

template <int F> struct FT {};
template <class X> static inline auto apply(FT<SUM>, const X& x) { return sum(x); }
template <class X> static inline auto apply(FT<PRODUCT>, const X& x) { return product(x); }
template <class X> static inline auto apply(FT<MIN>, const X& x) { return min(x); }
template <class X> static inline auto apply(FT<MAX>, const X& x) { return max(x); }
template <class X> static inline auto apply(FT<NORM>, const X& x) { return norm(x); }
template <class X> static inline auto apply(FT<TRACE>, const X& x) { return trace(x); }
template <class X> static inline auto apply(FT<INNER1>, const X& x) { return inner(x); }

template <class T> struct Job {
    size_t n, sizeofA, rows, cols;   // rows/cols for TRACE/INNER1 (square)
    int func, arg;
    T (*call)(const void* a, const void* b);
};

template <int F, int ARG, class TT> struct Thunk {
    using T = typename TT::scalar_type;
    static FX_NOINLINE T call(const void* ap, const void* bp) {
        const TT& a = *static_cast<const TT*>(ap); const TT& b = *static_cast<const TT*>(bp);
        fx::escape(ap); fx::escape(bp);
        return go(FT<F>(), std::integral_constant<int, ARG>(), a, b);
    }
    template <int G> static T go(FT<G>, std::integral_constant<int, A_TENSOR>, const TT& a, const TT&) { return apply(FT<G>(), a); }
    template <int G> static T go(FT<G>, std::integral_constant<int, A_ADD>, const TT& a, const TT& b) { return apply(FT<G>(), a + b); }
    template <int G> static T go(FT<G>, std::integral_constant<int, A_NEG>, const TT& a, const TT&) { return apply(FT<G>(), -a); }
    template <int G> static T go(FT<G>, std::integral_constant<int, A_SCALE>, const TT& a, const TT&) { return apply(FT<G>(), T(2) * a); }
    template <int G> static T go(FT<G>, std::integral_constant<int, A_TAILVIEW>, const TT& a, const TT&) { return apply(FT<G>(), a(fseq<1, TT::size()>())); }
    static T go(FT<INNER2>, std::integral_constant<int, A_TENSOR>, const TT& a, const TT& b) { return inner(a, b); }
    static T go(FT<INNER2>, std::integral_constant<int, A_ADD>, const TT& a, const TT& b) { return inner(a + b, b); }
    static T go(FT<INNER2>, std::integral_constant<int, A_TE>, const TT& a, const TT& b) { return inner(a, b + 0); }
    static T go(FT<INNER2>, std::integral_constant<int, A_EE>, const TT& a, const TT& b) { return inner(a + 0, b + 0); }
    static T go(FT<INNER2>, std::integral_constant<int, A_TV>, const TT& a, const TT& b) { return inner(a, T(1) * b); }
    static T go(FT<MSUM>, std::integral_constant<int, A_TENSOR>, const TT& a, const TT&) { return a.sum(); }
    static T go(FT<MPRODUCT>, std::integral_constant<int, A_TENSOR>, const TT& a, const TT&) { return a.product(); }
};

template <class T> struct Driver {
    fx::Ctx& fx; const Job<T>& j; T *a, *b; size_t n;
    std::vector<long double> x;   // transformed element values the fold runs over
    Driver(fx::Ctx& f, const Job<T>& jj) : fx(f), j(jj), n(jj.n) {
        fx.arena[1].paint();
        a = (T*)fx.arena[1].place_mid(j.sizeofA, 64); b = (T*)(fx.arena[1].lo + 256);
    }
    // element values entering the fold for the current a, b
    void transform() {
        x.clear();
        for (size_t i = 0; i < n; ++i) {
            long double v = (long double)a[i];
            switch (j.arg) { case A_ADD: v = (long double)(T)(a[i] + b[i]); break; case A_NEG: v = -(long double)a[i]; break; case A_SCALE: v = 2 * (long double)a[i]; break; default: break; }
            if (j.arg == A_TAILVIEW && i == 0) continue;
            x.push_back(v);
        }
    }
    void judge(bool exact_data) {
        transform();
        T got{}; if (!fx.run([&] { got = j.call(a, b); })) return;
        const long double u = fxv::unit_roundoff<T>::v();
        long double ex = 0, scale = 0; bool exact = exact_data;
        const size_t m = x.size();
        switch (j.func) {
            case SUM: case MSUM: for (auto v : x) { ex += v; scale += fabsl(v); } break;
            case PRODUCT: case MPRODUCT: { ex = 1; long double P = 1; for (auto v : x) { ex *= v; P *= fabsl(v) > 1 ? fabsl(v) : 1; } scale = P;
                // every partial product of every lane is an integer of magnitude <= P: exact while P fits the significand
                if (std::is_floating_point<T>::value && P >= (sizeof(T) == 4 ? 16777216.0L : 9007199254740992.0L)) exact = false;
                // some association of the factors may leave the finite range: then inf/nan is a correct answer too and nothing is judged
                if (std::is_floating_point<T>::value && P > (long double)std::numeric_limits<T>::max() / 4) { fx.route("skipped.fp_overflow"); return; } } break;
            case MIN: ex = x[0]; for (auto v : x) if (v < ex) ex = v; exact = true; break;
            case MAX: ex = x[0]; for (auto v : x) if (v > ex) ex = v; exact = true; break;
            case NORM: for (auto v : x) ex += v * v; ex = sqrtl(ex); scale = ex; exact = false; break;
            case INNER2: for (size_t i = 0; i < n; ++i) { long double l = j.arg == A_ADD ? (long double)(T)(a[i] + b[i]) : (long double)a[i]; ex += l * (long double)b[i]; scale += fabsl(l * (long double)b[i]); } break;
            case TRACE: for (size_t i = 0; i < j.rows; ++i) { ex += x[i * j.cols + i]; scale += fabsl(x[i * j.cols + i]); } break;
            case INNER1: for (size_t i = 0; i < j.rows; ++i) { ex += x[i * j.cols + i]; scale += fabsl(x[i * j.cols + i]); } break;
        }
        long double bound = 0;
        if (!exact || std::is_floating_point<T>::value) bound = exact ? 0 : (long double)(m + 3) * u * scale;
        if (std::is_integral<T>::value && (fabsl(ex) > 2.0e9L)) { fx.route("skipped.integer_overflow"); return; }   // undefined in scalar C++
        long double e1 = ex, b1 = bound;
        fx.tol(&got, &e1, &b1, 1, "");
    }
    void fill(long long (*gen)(size_t i, long long k), long long k) { for (size_t i = 0; i < n; ++i) { a[i] = (T)gen(i, k); b[i] = (T)(long long)(1 + (i * 3) % 4) * ((i % 3 == 1) ? -1 : 1); } }
    void run_all() {
        const bool prod = j.func == PRODUCT || j.func == MPRODUCT;
        auto P = [&](const char* name, long long k, long long (*gen)(size_t, long long)) { fill(gen, k); fx.pt(name, k); judge(true); };
        if (prod) {
            // magnitudes stay representable: +-1 everywhere, a few 2s and one 3
            P("prod_ones", 0, [](size_t, long long) { return 1LL; });
            P("prod_signs", 0, [](size_t i, long long) { return (i % 2) ? -1LL : 1LL; });
            for (size_t k = 0; k < n; ++k) P("prod_two_at=%lld", (long long)k, [](size_t i, long long kk) { return (long long)i == kk ? 2LL : ((i % 3 == 0) ? -1LL : 1LL); });
            for (size_t k = 0; k < n; ++k) P("prod_mix_at=%lld", (long long)k, [](size_t i, long long kk) { return (long long)i == kk ? -3LL : ((i % 5 == 0 && i < 40) ? 2LL : 1LL); });
            for (size_t k = 0; k < n; ++k) P("prod_zero_at=%lld", (long long)k, [](size_t i, long long kk) { return (long long)i == kk ? 0LL : 2LL - (long long)(i % 2); });
        } else {
            P("all_positive", 0, [](size_t i, long long) { return (long long)(i % 7) + 1; });
            P("all_negative", 0, [](size_t i, long long) { return -((long long)(i % 7) + 1); });
            P("alternating", 0, [](size_t i, long long) { return ((i % 2) ? -1LL : 1LL) * ((long long)(i % 5) + 2); });
            P("constant", 0, [](size_t, long long) { return 3LL; });
            for (size_t k = 0; k < n; ++k) {
                P("neg_with_min_at=%lld", (long long)k, [](size_t i, long long kk) { return (long long)i == kk ? -90LL : -(long long)(2 + i % 3); });
                P("neg_with_max_at=%lld", (long long)k, [](size_t i, long long kk) { return (long long)i == kk ? -1LL : -(long long)(2 + i % 3); });
                P("pos_with_min_at=%lld", (long long)k, [](size_t i, long long kk) { return (long long)i == kk ? 1LL : (long long)(2 + i % 3); });
                P("pos_with_max_at=%lld", (long long)k, [](size_t i, long long kk) { return (long long)i == kk ? 90LL : (long long)(2 + i % 3); });
                P("single_negative_at=%lld", (long long)k, [](size_t i, long long kk) { return (long long)i == kk ? -5LL : (long long)(2 + i % 3); });
                P("single_positive_at=%lld", (long long)k, [](size_t i, long long kk) { return (long long)i == kk ? 5LL : -(long long)(2 + i % 3); });
            }
        }
        frac();
    }
    void frac() { frac_impl(std::integral_constant<bool, std::is_floating_point<T>::value>()); }
    void frac_impl(std::false_type) {}
    void frac_impl(std::true_type) {   // non-integer data: judged with the n*u*sum|x| style bound
        if (j.func == MIN || j.func == MAX) { fxv::fill_frac(a, n, 3); fxv::fill_frac(b, n, 5); fx.pt("frac"); judge(true); return; }
        if (j.func == PRODUCT || j.func == MPRODUCT) { for (size_t i = 0; i < n; ++i) { a[i] = (T)(1.0 + ((int)(i % 7) - 3) / 16.0); b[i] = (T)0.125; } fx.pt("frac"); judge(false); return; }
        fxv::fill_frac(a, n, 3); fxv::fill_frac(b, n, 5); fx.pt("frac"); judge(false);
    }
};
template <class T> static FX_NOINLINE void run_job(fx::Ctx& fx, const Job<T>& j) { Driver<T> d(fx, j); d.run_all(); }

template <int F, int ARG, class TT> static inline void red(fx::Ctx& fx, size_t rows = 0, size_t cols = 0) {
    using T = typename TT::scalar_type;
    Job<T> j{(size_t)TT::size(), sizeof(TT), rows, cols, F, ARG, &Thunk<F, ARG, TT>::call};
    run_job<T>(fx, j);
}

// ---------------------------------------------------------------------------------------------------------------
// predicates on boolean tensors and on comparison expressions: all 2^n truth patterns
// ---------------------------------------------------------------------------------------------------------------
struct PJob { size_t n, sizeofB, sizeofA, esz; int (*call)(const void* mask, const void* a, int which); };
template <size_t N, class T> struct PThunk {
    static FX_NOINLINE int call(const void* mp, const void* ap, int which) {
        const Tensor<bool, N>& m = *static_cast<const Tensor<bool, N>*>(mp); const Tensor<T, N>& a = *static_cast<const Tensor<T, N>*>(ap);
        fx::escape(mp); fx::escape(ap);
        switch (which) {
            case 0: return all_of(m);          case 1: return any_of(m);          case 2: return none_of(m);
            case 3: return all_of(a > T(0));   case 4: return any_of(a > T(0));   case 5: return none_of(a > T(0));
            case 6: return all_of(!(a > T(0))); case 7: return any_of((a > T(0)) && (a < T(5))); default: return none_of((a > T(0)) || (a < T(-5)));
        }
    }
};
static FX_NOINLINE void run_pred(fx::Ctx& fx, const PJob& j, int which_set) {
    fx.arena[1].paint();
    bool* m = (bool*)fx.arena[1].place_mid(j.sizeofB, 64);
    unsigned char* ap = fx.arena[1].lo + 256;
    const size_t n = j.n;
    for (unsigned long long bits = 0; bits < (1ull << n); ++bits) {
        size_t cnt = 0;
        for (size_t i = 0; i < n; ++i) { m[i] = bits >> i & 1; cnt += m[i]; }
        // a > 0 has exactly the truth pattern `bits`; values stay in (-5,5)
        for (size_t i = 0; i < n; ++i) { double v = m[i] ? 1 + (double)(i % 3) : -(double)(i % 4); if (j.esz == 8) ((double*)ap)[i] = v; else ((float*)ap)[i] = (float)v; }
        const bool all = cnt == n, any = cnt > 0;
        const int expect[9] = {all, any, !any, all, any, !any, cnt == 0, any, !any};
        for (int w = 0; w < 9; ++w) {
            const bool is_none_of = (w == 2 || w == 5 || w == 8);
            if ((which_set == 1) != is_none_of) continue;     // none_of has its own case identities
            fx.pt("mask=%lld,pred=%lld", (long long)bits, (long long)w);
            int got = -1; if (!fx.run([&] { got = j.call(m, ap, w); })) continue;
            static const char* nm[9] = {"all_of(mask)", "any_of(mask)", "none_of(mask)", "all_of(a>0)", "any_of(a>0)", "none_of(a>0)", "all_of(!(a>0))", "any_of(a>0&&a<5)", "none_of(a>0||a<-5)"};
            fx.verdict(got == expect[w], bits * 16 + w, true, std::string(nm[w]) + " returned " + std::to_string(got) + " expected " + std::to_string(expect[w]));
        }
    }
}
template <size_t N, class T> static inline void pred(fx::Ctx& fx, int which_set) { PJob j{N, sizeof(Tensor<bool, N>), sizeof(Tensor<T, N>), sizeof(T), &PThunk<N, T>::call}; run_pred(fx, j, which_set); }

// ---------------------------------------------------------------------------------------------------------------
// tolerance predicates: data whose relevant differences are exactly 0 or >= 1
// ---------------------------------------------------------------------------------------------------------------
template <class T, size_t N> static FX_NOINLINE void tolpred(fx::Ctx& fx) {
    using M = Tensor<T, N, N>;
    fx.arena[1].paint();
    M& A = *new (fx.arena[1].place_mid(sizeof(M), 64)) M; M& B = *new (fx.arena[1].lo + 256) M;
    auto sym = [&]() { for (size_t i = 0; i < N; ++i) for (size_t k = 0; k < N; ++k) A(i, k) = (T)(long long)(1 + (i + 1) * (k + 1) + (i * k) % 3 * ((i + k) % 2 ? -1 : 1)); for (size_t i = 0; i < N; ++i) for (size_t k = 0; k < i; ++k) A(i, k) = A(k, i); };
    // isequal / issymmetric: identical, then one perturbed entry at every position
    sym(); B = A;
    fx.pt("equal"); { bool g = false; if (fx.run([&] { g = isequal(A, B); })) fx.verdict(g, 1, true, "isequal(A,A copy) returned false"); }
    fx.pt("symmetric"); { bool g = false; if (fx.run([&] { g = issymmetric(A); })) fx.verdict(g, 2, true, "issymmetric(symmetric A) returned false"); }
    fx.pt("equal_expr"); { bool g = false; if (fx.run([&] { g = isequal(A + B, T(2) * A); })) fx.verdict(g, 3, true, "isequal(A+B,2*A) returned false"); }
    for (size_t i = 0; i < N; ++i) for (size_t k = 0; k < N; ++k) {
        sym(); B = A; B(i, k) += T(1);
        fx.pt("perturbed=%lld,%lld", (long long)i, (long long)k);
        { bool g = true; if (fx.run([&] { g = isequal(A, B); })) fx.verdict(!g, 10 + i * N + k, true, "isequal ignored a difference of 1"); }
        if (i != k) { bool g = true; if (fx.run([&] { g = issymmetric(B); })) fx.verdict(!g, 1000 + i * N + k, true, "issymmetric ignored an asymmetry of 1"); }
    }
    // isorthogonal: signed permutation matrices (exactly orthogonal), then one entry set to 1 more
    for (size_t rot = 0; rot < N; ++rot) {
        for (size_t i = 0; i < N; ++i) for (size_t k = 0; k < N; ++k) A(i, k) = T(0);
        for (size_t i = 0; i < N; ++i) A(i, (i + rot) % N) = (i % 2) ? T(-1) : T(1);
        fx.pt("perm_rot=%lld", (long long)rot);
        { bool g = false; if (fx.run([&] { g = isorthogonal(A); })) fx.verdict(g, 5000 + rot, true, "isorthogonal(signed permutation) returned false"); }
        for (size_t i = 0; i < N; ++i) { B = A; B(i, (i + rot + 1) % N) = T(1); if (N == 1) B(0, 0) = T(2);
            fx.pt("perm_rot=%lld,spoiled_row=%lld", (long long)rot, (long long)i);
            bool g = true; if (fx.run([&] { g = isorthogonal(B); })) fx.verdict(!g, 6000 + rot * N + i, true, "isorthogonal accepted a non-orthogonal matrix"); }
    }
}

// ---------------------------------------------------------------------------------------------------------------
// determinant: integer-valued, diagonally dominant matrices and their row-swapped variants against fraction-free
// (Bareiss) elimination in __int128 - exact
// ---------------------------------------------------------------------------------------------------------------
static inline long double exact_det(const std::vector<long long>& m, size_t n) {
    std::vector<__int128> a(m.begin(), m.end()); __int128 prev = 1; int sign = 1;
    for (size_t k = 0; k + 1 < n; ++k) {
        if (a[k * n + k] == 0) { size_t p = k + 1; for (; p < n; ++p) if (a[p * n + k] != 0) break; if (p == n) return 0; for (size_t c = 0; c < n; ++c) std::swap(a[k * n + c], a[p * n + c]); sign = -sign; }
        for (size_t i = k + 1; i < n; ++i) for (size_t c = k + 1; c < n; ++c) a[i * n + c] = (a[i * n + c] * a[k * n + k] - a[i * n + k] * a[k * n + c]) / prev;
        prev = a[k * n + k];
    }
    return (long double)sign * (long double)a[n * n - 1];
}
template <class T> struct DJob { size_t n, sizeofA; T (*call)(const void* a); };
template <class T, size_t N, int KIND> struct DThunk {
    static FX_NOINLINE T call(const void* ap) {
        const Tensor<T, N, N>& a = *static_cast<const Tensor<T, N, N>*>(ap); fx::escape(ap);
        switch (KIND) { case 0: return determinant(a); case 1: return determinant<DetCompType::LU>(a); case 2: return determinant<DetCompType::QR>(a);
                        case 3: return det(a + a - a); default: return determinant<DetCompType::Simple>(a); }
    }
};
template <class T> static FX_NOINLINE void run_det(fx::Ctx& fx, const DJob<T>& j, bool pivot_free_only, int sign_mode) {
    const size_t n = j.n; fx.arena[1].paint();
    T* a = (T*)fx.arena[1].place_mid(j.sizeofA, 64);
    std::vector<long long> m(n * n);
    const long double u = fxv::unit_roundoff<T>::v();
    for (int fam = 0; fam < 4; ++fam) for (size_t var = 0; var < (fam == 3 ? n : 1); ++var) {
        // families: 0 diagonally dominant, 1 upper triangular, 2 diag. dominant with negative diagonal, 3 dominant with rows (var, var+1) swapped
        for (size_t i = 0; i < n; ++i) for (size_t k = 0; k < n; ++k) {
            long long off = (long long)((i * 3 + k * 5 + fam) % 5) - 2;
            long long v = (i == k) ? (long long)(2 * n + 3 + (i % 3)) * (fam == 2 && i % 2 ? -1 : 1) : off;
            if (fam == 1 && k < i) v = 0;
            m[i * n + k] = v;
        }
        if (fam == 3) { if (n < 2 || pivot_free_only) continue; size_t r2 = (var + 1) % n; for (size_t c = 0; c < n; ++c) std::swap(m[var * n + c], m[r2 * n + c]); }
        for (size_t i = 0; i < n * n; ++i) a[i] = (T)m[i];
        long double ex = exact_det(m, n), had = 1;
        for (size_t i = 0; i < n; ++i) { long double r = 0; for (size_t k = 0; k < n; ++k) r += (long double)m[i * n + k] * (long double)m[i * n + k]; had *= sqrtl(r); }
        if ((sign_mode > 0 && !(ex > 0)) || (sign_mode < 0 && !(ex < 0))) continue;   // sign_mode: +1 only positive, -1 only negative determinants
        fx.pt("family=%lld,variant=%lld", (long long)fam, (long long)var);
        T got{}; if (!fx.run([&] { got = j.call(a); })) continue;
        long double bound = 8.0L * n * n * u * had;
        fx.tol(&got, &ex, &bound, 1, "determinant");
    }
}
template <class T, size_t N, int KIND> static inline void detcase(fx::Ctx& fx, bool pivot_free_only, int sign_mode = 0) { DJob<T> j{N, sizeof(Tensor<T, N, N>), &DThunk<T, N, KIND>::call}; run_det<T>(fx, j, pivot_free_only, sign_mode); }

} // namespace c16
