// linalg_common.h - shared run-time-shaped code of the conditioned linear-algebra checks (C10 - C13, DESIGN.md 4.3).
//   * deterministic matrix families generated at run time for the case's n (nothing is random)
//   * long double reference: products, norms, singular values (one-sided Jacobi), condition numbers of the matrix and
//     of all its leading blocks, Gauss-Jordan inverse; exact fraction-free (Bareiss) elimination in __int128 for the
//     integer families (exact adjugate / determinant for n <= 12)
//   * permutation sets (all permutations for n <= 4, generating set for larger n)
// No Fastor dependency here: every quantity is measured from public data (matrix entries as stored in T, returned
// factors / permutation vectors).
#pragma once
#include "fxv.h"
#include <algorithm>
#include <numeric>

namespace la {
typedef long double ld;
typedef std::vector<ld> Mat;   // row-major
static const ld CONST_C = 8.0L;   // the explicit constant of the textbook bounds (DESIGN.md 4.3)

template <class T> static inline ld U() { return fxv::unit_roundoff<T>::v(); }
// "well conditioned leading blocks": kappa_2 of every leading block below 1e3 (f32) / 1e6 (f64); the 10 % allowance
// covers rounding the generated entries to T (the kappa = 1e3 family is meant to be inside the f32 domain).
//
// Strategies that eliminate through an EXPLICITLY INVERTED pivot block (the Schur-complement recursion behind SimpleInv, SimpleInvPiv and
// inv() for n > 4) are only conditionally stable: their error carries kappa(pivot block) once per recursion level on top of kappa(A)
// (Demmel/Higham/Schreiber 1995; Higham ASNA Thm 13.6), so the bound c n u kappa(A) growth can only hold where the leading blocks are well
// conditioned in absolute terms.  Measured on the pinned tree (all families, n <= 33, f32 and f64): max residual / bound = 0.08 for max
// leading-block kappa_2 < 1e3, but up to 7e3 at kappa_2 >= 1e3.  Their domain threshold is therefore 5e2 for both element types; members
// between 5e2 and the general threshold are run, counted (dom.out.*, ood.would_*) and not judged for these strategies.
template <class T> static inline ld dom_threshold(bool explicit_block = false) { return explicit_block ? 5.0e2L : (sizeof(T) == 4 ? 1.1e3L : 1.1e6L); }
// growth || |L||U| ||_F / ||A||_F above which C11's numerical part is counted, not judged
template <class T> static inline ld growth_threshold() { return sizeof(T) == 4 ? 1.0e3L : 1.0e6L; }

static inline ld absl(ld v) { return v < 0 ? -v : v; }
static inline bool finite_all(const ld* a, size_t cnt) { for (size_t i = 0; i < cnt; ++i) if (!(absl(a[i]) <= 1.0e4000L)) return false; return true; }
template <class T> static inline void to_ld(const T* a, size_t cnt, Mat& out) { out.resize(cnt); for (size_t i = 0; i < cnt; ++i) out[i] = (ld)a[i]; }

// C(m x n) = A(m x k) * B(k x n); absval: |A|*|B|
static inline void mul(const ld* A, const ld* B, ld* C, size_t m, size_t k, size_t n, bool absval = false) {
    for (size_t i = 0; i < m; ++i)
        for (size_t j = 0; j < n; ++j) {
            ld s = 0;
            if (absval) for (size_t l = 0; l < k; ++l) s += absl(A[i * k + l]) * absl(B[l * n + j]);
            else        for (size_t l = 0; l < k; ++l) s += A[i * k + l] * B[l * n + j];
            C[i * n + j] = s;
        }
}
static inline ld fro(const ld* A, size_t cnt) { ld s = 0; for (size_t i = 0; i < cnt; ++i) s += A[i] * A[i]; return sqrtl(s); }
static inline ld fro_diff(const ld* A, const ld* B, size_t cnt) { ld s = 0; for (size_t i = 0; i < cnt; ++i) { ld d = A[i] - B[i]; s += d * d; } return sqrtl(s); }
static inline ld fro_minus_eye(const ld* A, size_t n) { ld s = 0; for (size_t i = 0; i < n; ++i) for (size_t j = 0; j < n; ++j) { ld d = A[i * n + j] - (i == j ? 1.0L : 0.0L); s += d * d; } return sqrtl(s); }
static inline ld col_norm2(const ld* A, size_t m, size_t n, size_t j) { ld s = 0; for (size_t i = 0; i < m; ++i) s += A[i * n + j] * A[i * n + j]; return sqrtl(s); }

// extreme singular values of the leading k x k block of a (leading dimension lda): one-sided Jacobi (Hestenes)
static inline void sv_extremes(const ld* a, size_t lda, size_t k, ld& smax, ld& smin) {
    std::vector<ld> g(k * k);   // column-major copy: g[j*k+i] = a(i,j)
    for (size_t i = 0; i < k; ++i) for (size_t j = 0; j < k; ++j) g[j * k + i] = a[i * lda + j];
    const ld eps = 1.0e-19L;
    for (int sweep = 0; sweep < 80; ++sweep) {
        bool rotated = false;
        for (size_t p = 0; p + 1 < k; ++p)
            for (size_t q = p + 1; q < k; ++q) {
                ld* gp = &g[p * k]; ld* gq = &g[q * k];
                ld al = 0, be = 0, ga = 0;
                for (size_t i = 0; i < k; ++i) { al += gp[i] * gp[i]; be += gq[i] * gq[i]; ga += gp[i] * gq[i]; }
                if (ga == 0 || absl(ga) <= eps * sqrtl(al * be)) continue;
                rotated = true;
                ld zeta = (be - al) / (2 * ga);
                ld t = (zeta >= 0 ? 1.0L : -1.0L) / (absl(zeta) + sqrtl(1 + zeta * zeta));
                ld c = 1 / sqrtl(1 + t * t), s = c * t;
                for (size_t i = 0; i < k; ++i) { ld x = gp[i], y = gq[i]; gp[i] = c * x - s * y; gq[i] = s * x + c * y; }
            }
        if (!rotated) break;
    }
    smax = 0; smin = -1;
    for (size_t j = 0; j < k; ++j) { ld s = 0; for (size_t i = 0; i < k; ++i) s += g[j * k + i] * g[j * k + i]; s = sqrtl(s); if (s > smax) smax = s; if (smin < 0 || s < smin) smin = s; }
    if (smin < 0) smin = 0;
}
static inline ld cond_from(ld smax, ld smin) { return (smin > 0 && smax < 1.0e4000L) ? smax / smin : 1.0e4900L; }
static inline ld cond2(const ld* a, size_t n) { ld x, y; sv_extremes(a, n, n, x, y); return cond_from(x, y); }
// max over k = 1..n of kappa_2 of the leading k x k block; argk = the k attaining it
static inline ld lead_cond(const ld* a, size_t n, size_t* argk = nullptr) {
    ld worst = 0; size_t wk = 0;
    for (size_t k = 1; k <= n; ++k) { ld x, y; sv_extremes(a, n, k, x, y); ld c = cond_from(x, y); if (c > worst || wk == 0) { worst = c; wk = k; } }
    if (argk) *argk = wk;
    return worst;
}

// Gauss-Jordan inverse with partial pivoting in long double; false when numerically singular
static inline bool inverse_ld(const ld* A, ld* X, size_t n) {
    std::vector<ld> m(n * 2 * n);
    for (size_t i = 0; i < n; ++i) for (size_t j = 0; j < n; ++j) { m[i * 2 * n + j] = A[i * n + j]; m[i * 2 * n + n + j] = (i == j); }
    for (size_t k = 0; k < n; ++k) {
        size_t p = k; for (size_t i = k + 1; i < n; ++i) if (absl(m[i * 2 * n + k]) > absl(m[p * 2 * n + k])) p = i;
        if (m[p * 2 * n + k] == 0) return false;
        if (p != k) for (size_t j = 0; j < 2 * n; ++j) std::swap(m[p * 2 * n + j], m[k * 2 * n + j]);
        ld d = m[k * 2 * n + k];
        for (size_t j = 0; j < 2 * n; ++j) m[k * 2 * n + j] /= d;
        for (size_t i = 0; i < n; ++i) if (i != k) { ld f = m[i * 2 * n + k]; if (f != 0) for (size_t j = 0; j < 2 * n; ++j) m[i * 2 * n + j] -= f * m[k * 2 * n + j]; }
    }
    for (size_t i = 0; i < n; ++i) for (size_t j = 0; j < n; ++j) X[i * n + j] = m[i * 2 * n + n + j];
    return true;
}

// exact fraction-free Gauss-Jordan (Bareiss) on an integer matrix: adj(A) and det(A) as exact integers.
// Every intermediate is a minor of [A | I]; with |entries| <= 40 and n <= 12 Hadamard's bound keeps them below 2^63,
// products below 2^127.
typedef __int128 i128;
struct Exact { bool ok = false; size_t n = 0; std::vector<i128> adj; i128 det = 0; };
static inline Exact exact_adjugate(const std::vector<long long>& A, size_t n) {
    Exact e; e.n = n;
    if (n == 0 || n > 12) return e;
    const size_t w = 2 * n;
    std::vector<i128> m(n * w, 0);
    for (size_t i = 0; i < n; ++i) { for (size_t j = 0; j < n; ++j) m[i * w + j] = A[i * n + j]; m[i * w + n + i] = 1; }
    i128 prev = 1; int sign = 1;
    for (size_t k = 0; k < n; ++k) {
        size_t p = k; while (p < n && m[p * w + k] == 0) ++p;
        if (p == n) return e;   // singular
        if (p != k) { for (size_t j = 0; j < w; ++j) std::swap(m[p * w + j], m[k * w + j]); sign = -sign; }
        const i128 piv = m[k * w + k];
        for (size_t i = 0; i < n; ++i) {
            if (i == k) continue;
            const i128 f = m[i * w + k];
            for (size_t j = 0; j < w; ++j) m[i * w + j] = (piv * m[i * w + j] - f * m[k * w + j]) / prev;
        }
        prev = piv;
    }
    // now m = [d I | d A^-1 P'] with d = prev; a row swap permuted the rows of [A|I] alike, so the right block is
    // d * (PA)^-1 * P = d * A^-1 already (the swaps were applied to the identity block too).
    e.det = prev * sign; e.adj.resize(n * n);
    for (size_t i = 0; i < n; ++i) for (size_t j = 0; j < n; ++j) e.adj[i * n + j] = m[i * w + n + j] * sign;
    e.ok = true;
    return e;
}
// Doolittle LU without pivoting in long double: growth rho = || |L||U| ||_F / ||M||_F (>= 1 up to rounding; 1e4900 on a zero pivot).
// Optionally returns the factors.
static inline ld lu_growth(const ld* M, size_t n, Mat* Lout = nullptr, Mat* Uout = nullptr) {
    Mat L(n * n, 0), Um(n * n, 0);
    bool broke = false;
    for (size_t i = 0; i < n && !broke; ++i) {
        L[i * n + i] = 1;
        for (size_t j = i; j < n; ++j) { ld s = M[i * n + j]; for (size_t k = 0; k < i; ++k) s -= L[i * n + k] * Um[k * n + j]; Um[i * n + j] = s; }
        if (Um[i * n + i] == 0) { if (i + 1 < n) broke = true; continue; }
        for (size_t r = i + 1; r < n; ++r) { ld s = M[r * n + i]; for (size_t k = 0; k < i; ++k) s -= L[r * n + k] * Um[k * n + i]; L[r * n + i] = s / Um[i * n + i]; }
    }
    if (Lout) *Lout = L; if (Uout) *Uout = Um;
    if (broke) return 1.0e4900L;
    Mat P(n * n); mul(L.data(), Um.data(), P.data(), n, n, n, true);
    const ld nm = fro(M, n * n), np = fro(P.data(), n * n);
    if (!(np <= 1.0e4000L)) return 1.0e4900L;
    return nm > 0 ? np / nm : 1.0L;
}
static inline ld i128_to_ld(i128 v) { bool neg = v < 0; unsigned __int128 u = neg ? (unsigned __int128)(-v) : (unsigned __int128)v;
    ld r = (ld)(unsigned long long)(u >> 64) * 18446744073709551616.0L + (ld)(unsigned long long)u; return neg ? -r : r; }

// ---------------------------------------------------------------------------------------------------------------
// permutations
// ---------------------------------------------------------------------------------------------------------------
typedef std::vector<size_t> Perm;
static inline bool is_identity(const Perm& p) { for (size_t i = 0; i < p.size(); ++i) if (p[i] != i) return false; return true; }
static inline bool is_bijection(const size_t* p, size_t n) { std::vector<char> seen(n, 0); for (size_t i = 0; i < n; ++i) { if (p[i] >= n || seen[p[i]]) return false; seen[p[i]] = 1; } return true; }
// n <= 4: every non-identity permutation (lexicographic).  n > 4: the generating set - reversal, rotation by one in
// both directions, adjacent transpositions (all of them for n <= 12; positions 0, 3|4, 7|8, 15|16, 31|32, middle and
// n-2 for larger n, i.e. at the recursion split points).
static inline std::vector<Perm> perm_set(size_t n) {
    std::vector<Perm> out;
    if (n < 2) return out;
    Perm id(n); std::iota(id.begin(), id.end(), (size_t)0);
    if (n <= 4) { Perm p = id; while (std::next_permutation(p.begin(), p.end())) out.push_back(p); return out; }
    Perm r = id; std::reverse(r.begin(), r.end()); out.push_back(r);
    Perm rl(n), rr(n); for (size_t i = 0; i < n; ++i) { rl[i] = (i + 1) % n; rr[i] = (i + n - 1) % n; } out.push_back(rl); out.push_back(rr);
    std::vector<size_t> pos;
    if (n <= 12) for (size_t i = 0; i + 1 < n; ++i) pos.push_back(i);
    else { const size_t cand[] = {0, 3, 7, 15, 31, n / 2 - 1, n - 2}; for (size_t c : cand) if (c + 1 < n && std::find(pos.begin(), pos.end(), c) == pos.end()) pos.push_back(c); }
    for (size_t i : pos) { Perm t = id; std::swap(t[i], t[i + 1]); out.push_back(t); }
    return out;
}
// B(i,:) = A(p(i),:)
static inline void permute_rows(const Mat& A, const size_t* p, size_t n, size_t cols, Mat& B) { B.resize(n * cols); for (size_t i = 0; i < n; ++i) for (size_t j = 0; j < cols; ++j) B[i * cols + j] = A[p[i] * cols + j]; }

// ---------------------------------------------------------------------------------------------------------------
// matrix families
// ---------------------------------------------------------------------------------------------------------------
enum Fam {
    F_DD = 0,      // integer, strictly row- and column-diagonally dominant, small mixed off-diagonals
    F_CD,          // integer, strictly column-dominant diagonal, off-diagonals of equal magnitude per column
    F_SPD10, F_SPD1E3, F_SPD1E5,      // Q D Q^T, D > 0 geometrically graded, kappa_2 = 10 / 1e3 / 1e5
    F_ORTH,                           // Q1 Q2^T (kappa_2 = 1)
    F_GEN10, F_GEN1E3, F_GEN1E5,      // Q1 D Q2^T (non-symmetric), kappa_2 = 10 / 1e3 / 1e5
    F_CD_PERM, F_DD_PERM, F_SPD10_PERM,   // rows of F_CD / F_DD / F_SPD10 permuted by perm_set(n)[perm]
    F_UL_FRAC, F_UL_INT,              // unit lower triangular: small fractions / entries in {-1,0,1}
    F_UP_FRAC, F_UP_GRADED,           // upper triangular: well conditioned / diagonal graded over two decades
    F_COUNT
};
static const char* const FAM_NAME[F_COUNT] = {"dd", "cd", "spd10", "spd1e3", "spd1e5", "orth", "gen10", "gen1e3", "gen1e5",
                                              "cd.perm", "dd.perm", "spd10.perm", "ul.frac", "ul.int", "up.frac", "up.graded"};
// run-time point formats (fx.pt): perm = index into perm_set(n) or -1, pivid = 1 when the library's pivot of this matrix
// is the identity, 0 when it is not, -1 when no pivot is involved; aux = rhs variant / batch slot etc.
static const char* const FAM_PT[F_COUNT] = {
    "fam=dd,perm=%lld,pivid=%lld,aux=%lld", "fam=cd,perm=%lld,pivid=%lld,aux=%lld", "fam=spd10,perm=%lld,pivid=%lld,aux=%lld",
    "fam=spd1e3,perm=%lld,pivid=%lld,aux=%lld", "fam=spd1e5,perm=%lld,pivid=%lld,aux=%lld", "fam=orth,perm=%lld,pivid=%lld,aux=%lld",
    "fam=gen10,perm=%lld,pivid=%lld,aux=%lld", "fam=gen1e3,perm=%lld,pivid=%lld,aux=%lld", "fam=gen1e5,perm=%lld,pivid=%lld,aux=%lld",
    "fam=cd.perm,perm=%lld,pivid=%lld,aux=%lld", "fam=dd.perm,perm=%lld,pivid=%lld,aux=%lld", "fam=spd10.perm,perm=%lld,pivid=%lld,aux=%lld",
    "fam=ul.frac,perm=%lld,pivid=%lld,aux=%lld", "fam=ul.int,perm=%lld,pivid=%lld,aux=%lld", "fam=up.frac,perm=%lld,pivid=%lld,aux=%lld",
    "fam=up.graded,perm=%lld,pivid=%lld,aux=%lld"};
static inline bool fam_is_integer(int f) { return f == F_DD || f == F_CD || f == F_CD_PERM || f == F_DD_PERM || f == F_UL_INT; }
static inline int fam_base(int f) { return f == F_CD_PERM ? F_CD : f == F_DD_PERM ? F_DD : f == F_SPD10_PERM ? F_SPD10 : f; }

static inline void gen_dd(size_t n, Mat& A) {
    A.assign(n * n, 0);
    for (size_t i = 0; i < n; ++i) for (size_t j = 0; j < n; ++j) if (i != j) A[i * n + j] = (ld)((long long)((i * 7 + j * 13 + (i * j) % 5) % 5) - 2);
    for (size_t i = 0; i < n; ++i) {
        ld rs = 0, cs = 0; for (size_t j = 0; j < n; ++j) if (j != i) { rs += absl(A[i * n + j]); cs += absl(A[j * n + i]); }
        ld d = (rs > cs ? rs : cs) + 1 + (ld)(i % 3);
        A[i * n + i] = (i % 4 == 3) ? -d : d;
    }
}
static inline void gen_cd(size_t n, Mat& A) {
    A.assign(n * n, 0);
    for (size_t j = 0; j < n; ++j) {
        const ld c = (ld)(1 + (j % 2));
        for (size_t i = 0; i < n; ++i) if (i != j) A[i * n + j] = (((i * 3 + j * 5) % 4) < 2) ? c : -c;
        ld d = (ld)(n - 1) * c + 1 + (ld)(j % 3);
        A[j * n + j] = (j % 5 == 2) ? -d : d;
    }
}
// product of three Householder reflectors with dense deterministic vectors
static inline void gen_orth(size_t n, unsigned salt, Mat& Q) {
    Q.assign(n * n, 0); for (size_t i = 0; i < n; ++i) Q[i * n + i] = 1;
    std::vector<ld> v(n), w(n);
    for (unsigned r = 0; r < 3; ++r) {
        for (size_t i = 0; i < n; ++i) {
            const unsigned s = salt * 3 + r;
            switch (s % 3) {
                case 0: v[i] = 1.0L + (ld)((i * 7 + 3 + s) % 11) / 11.0L; break;
                case 1: v[i] = (ld)((i * 5 + 1 + s) % 7) - 3.25L; break;
                default: v[i] = ((i + s) % 2 ? 1.0L : -1.0L) * (0.5L + (ld)((i * 3 + s) % 5) / 5.0L); break;
            }
        }
        ld vv = 0; for (size_t i = 0; i < n; ++i) vv += v[i] * v[i];
        for (size_t i = 0; i < n; ++i) { ld s = 0; for (size_t j = 0; j < n; ++j) s += Q[i * n + j] * v[j]; w[i] = s; }   // w = Q v
        for (size_t i = 0; i < n; ++i) for (size_t j = 0; j < n; ++j) Q[i * n + j] -= 2 * w[i] * v[j] / vv;
    }
}
// Q1 * diag(kappa^(-k/(n-1))) * Q2^T ; symmetric: Q2 = Q1 (symmetric positive definite)
static inline void gen_qdq(size_t n, ld kappa, bool symmetric, Mat& A) {
    Mat Q1, Q2; gen_orth(n, 1, Q1); if (symmetric) Q2 = Q1; else gen_orth(n, 2, Q2);
    std::vector<ld> sg(n, 1.0L);
    if (n > 1) for (size_t k = 0; k < n; ++k) sg[k] = powl(kappa, -(ld)k / (ld)(n - 1));
    A.assign(n * n, 0);
    for (size_t i = 0; i < n; ++i) for (size_t j = 0; j < n; ++j) { ld s = 0; for (size_t k = 0; k < n; ++k) s += Q1[i * n + k] * sg[k] * Q2[j * n + k]; A[i * n + j] = s; }
}
static inline void gen_tri(int fam, size_t n, Mat& A) {
    A.assign(n * n, 0);
    const ld sc = 2.0L * (ld)(n < 2 ? 2 : n);
    for (size_t i = 0; i < n; ++i) for (size_t j = 0; j < n; ++j) {
        ld v = 0;
        switch (fam) {
            case F_UL_FRAC: v = i == j ? 1.0L : (j < i ? (ld)((long long)((i * 5 + j * 3) % 7) - 3) / sc : 0.0L); break;
            case F_UL_INT:  v = i == j ? 1.0L : (j < i ? (ld)((long long)((i + 2 * j) % 3) - 1) : 0.0L); break;
            case F_UP_FRAC: v = i == j ? (1.0L + (ld)(i % 3) / 2.0L) * (i % 4 == 1 ? -1.0L : 1.0L) : (j > i ? (ld)((long long)((i * 3 + j * 5) % 7) - 3) / sc : 0.0L); break;
            default:        v = i == j ? (n > 1 ? powl(100.0L, -(ld)i / (ld)(n - 1)) : 1.0L) * (i % 3 == 2 ? -1.0L : 1.0L)
                                       : (j > i ? (ld)((long long)((i * 3 + j * 5) % 7) - 3) / (sc * 8) : 0.0L); break;
        }
        A[i * n + j] = v;
    }
}
// the (unpermuted) member of a family in long double
static inline void gen_base(int fam, size_t n, Mat& A) {
    switch (fam_base(fam)) {
        case F_DD: gen_dd(n, A); break;
        case F_CD: gen_cd(n, A); break;
        case F_SPD10: gen_qdq(n, 10.0L, true, A); break;
        case F_SPD1E3: gen_qdq(n, 1.0e3L, true, A); break;
        case F_SPD1E5: gen_qdq(n, 1.0e5L, true, A); break;
        case F_ORTH: gen_qdq(n, 1.0L, false, A); break;
        case F_GEN10: gen_qdq(n, 10.0L, false, A); break;
        case F_GEN1E3: gen_qdq(n, 1.0e3L, false, A); break;
        case F_GEN1E5: gen_qdq(n, 1.0e5L, false, A); break;
        default: gen_tri(fam, n, A); break;
    }
}

struct Member { int fam; int perm; };   // perm: index into perm_set(n) or -1
// groups of members: dom = {dd, cd}; perm = row-permuted members; ul / up = triangular; 100 + f = the single family f
// (the conditioned families get one case identity each, so that a family-specific finding stays narrowly named)
enum Group { G_DOM = 0, G_COND = 1, G_PERM = 2, G_TRI_UL = 3, G_TRI_UP = 4, G_FAM = 100 };   // cond = every conditioned family

// The members of a group for size n and element type T - enumerated completely, in a fixed order.
template <class T> static inline std::vector<Member> members(int group, size_t n) {
    std::vector<Member> out;
    const bool dbl = sizeof(T) == 8;
    if (group == G_COND) { for (int f = F_SPD10; f <= F_GEN1E5; ++f) { std::vector<Member> m = members<T>(G_FAM + f, n); out.insert(out.end(), m.begin(), m.end()); } return out; }
    if (group >= G_FAM) {
        const int f = group - G_FAM;
        if ((f == F_SPD1E5 || f == F_GEN1E5) && !dbl) return out;   // kappa_2 = 1e5: double only
        out.push_back({f, -1});
        return out;
    }
    switch (group) {
        case G_DOM: out.push_back({F_DD, -1}); out.push_back({F_CD, -1}); break;
        case G_PERM: {
            const std::vector<Perm> ps = perm_set(n);
            for (size_t i = 0; i < ps.size(); ++i) out.push_back({F_CD_PERM, (int)i});
            const size_t few = n <= 4 ? ps.size() : std::min<size_t>(ps.size(), 4);   // reversal, both rotations, first transposition
            for (size_t i = 0; i < few; ++i) out.push_back({F_DD_PERM, (int)i});
            for (size_t i = 0; i < few; ++i) out.push_back({F_SPD10_PERM, (int)i});
            break;
        }
        case G_TRI_UL: out.push_back({F_UL_FRAC, -1}); if (n <= 8) out.push_back({F_UL_INT, -1}); break;
        case G_TRI_UP: out.push_back({F_UP_FRAC, -1}); out.push_back({F_UP_GRADED, -1}); break;
    }
    return out;
}
// every conditioned family available for T (used where one call consumes several matrices)
template <class T> static inline std::vector<Member> cond_members(size_t n) { return members<T>(G_COND, n); }
// write member m (size n) into a (row-major, element type T) and return the stored values in long double
template <class T> static inline void make_member(const Member& m, size_t n, T* a, Mat& Ald) {
    Mat B; gen_base(m.fam, n, B);
    if (m.perm >= 0) { const std::vector<Perm> ps = perm_set(n); Mat C; permute_rows(B, ps[(size_t)m.perm].data(), n, n, C); B.swap(C); }
    for (size_t i = 0; i < n * n; ++i) a[i] = (T)B[i];
    to_ld(a, n * n, Ald);
}
// deterministic right-hand sides: integer-valued (exact solution available for the integer families) or fractions
template <class T> static inline void make_rhs(size_t n, size_t cols, unsigned salt, T* b) {
    for (size_t i = 0; i < n; ++i) for (size_t j = 0; j < cols; ++j) {
        long long v = (long long)((i * 5 + j * 11 + salt * 3) % 13) - 6; if (v == 0) v = 7;
        b[i * cols + j] = (salt % 2) ? (T)((double)v / 8.0) : (T)v;
    }
}

// ---------------------------------------------------------------------------------------------------------------
// measured quantities of one input matrix
// ---------------------------------------------------------------------------------------------------------------
struct Measured {
    size_t n = 0;
    Mat A;                 // as stored in T
    ld normF = 0, smax = 0, smin = 0, kappa = 0;   // kappa_2(A)
    ld lead = 0; size_t lead_k = 0;                // max leading-block kappa_2 of the (pre-pivoted) matrix
    ld growth = 1;                                 // || |L||U| ||_F / ||A||_F of the unpivoted LU of the (pre-pivoted) matrix, long double
    bool in_domain = false;
    // amplification of the textbook bound c n u kappa_2(A) by the measured growth: |A X - I| <= c n u |L||U||X| for elimination methods
    ld amp() const { return growth > 1 ? growth : 1.0L; }
};
template <class T> static inline void measure(Measured& m, size_t n, bool want_lead, const size_t* piv = nullptr, bool explicit_block = false) {
    m.n = n; m.normF = fro(m.A.data(), n * n);
    sv_extremes(m.A.data(), n, n, m.smax, m.smin); m.kappa = cond_from(m.smax, m.smin);
    if (want_lead) {
        if (piv) { Mat PA; permute_rows(m.A, piv, n, n, PA); m.lead = lead_cond(PA.data(), n, &m.lead_k); m.growth = lu_growth(PA.data(), n); }
        else { m.lead = lead_cond(m.A.data(), n, &m.lead_k); m.growth = lu_growth(m.A.data(), n); }
        m.in_domain = m.lead <= dom_threshold<T>(explicit_block);
    } else { m.lead = m.kappa; m.lead_k = n; m.growth = 1; m.in_domain = true; }
}
static inline std::string sci(ld v) { char b[64]; snprintf(b, sizeof b, "%.3Lg", v); return b; }

} // namespace la
