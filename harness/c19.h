// c19.h - index-tensor and boolean-mask views (property C19, exploration)
//
//   reads    r <- A(it...)           in four contexts (construct, r += view, inside an expression, const parent)
//   writes   A(it...) op= rhs        op in {=,+=,-=,*=,/=}, rhs in {scalar, tensor, expression 2*B+1, another random view B2(jt...), (2I) % B}
//   forms    A(it) | A(it0,it1) | A(it,k) | A(k,it) | A(it,fseq) | A(fseq,it) | A(flat n-D index tensor) | A(mask)
//   oracle   gather / scatter by a reference loop over flat positions; the whole parent is compared, so the written set is
//            exactly the indexed / true positions; canary frames round parent and result objects
//
// Thin thunks rd<P,CTX> / wr<P,OP,RHS>; the enumeration of index vectors and masks, the reference and the judgement are
// run-time code instantiated once per element type.
#pragma once
#include "alias_common.h"

namespace c19 {
using namespace Fastor;
using namespace alias;

template <int F, int L, int S = 1> using FS = fseq<F, L, S>;

struct Args {
    const void* it[2];     // index tensors (or the mask) of the view on A
    const void* jt[2];     // index tensors of the right-hand-side view on B2
    long long k, k2;       // fixed integer of the A(it,k) / A(k,it) forms (for A and for B2)
    const void* B;         // right-hand-side tensor of the view's extent
    void* B2;              // second parent (same type as A) for the "another random view" right-hand side
    double c;              // scalar right-hand side
};

// ---- forms ---------------------------------------------------------------------------------------------------------------
template <class T, size_t N, size_t K, class I> struct P1 {                         // A(it)
    using scalar = T; using A = Tensor<T, N>; using R = Tensor<T, K>;
    template <class AA> static decltype(auto) view(AA& a, const void* const* it, long long) { return a(*static_cast<const Tensor<I, K>*>(it[0])); }
};
template <class T, size_t M, size_t N, size_t K0, size_t K1, class I0, class I1> struct P2 {   // A(it0,it1)
    using scalar = T; using A = Tensor<T, M, N>; using R = Tensor<T, K0, K1>;
    template <class AA> static decltype(auto) view(AA& a, const void* const* it, long long) {
        return a(*static_cast<const Tensor<I0, K0>*>(it[0]), *static_cast<const Tensor<I1, K1>*>(it[1]));
    }
};
template <class T, size_t M, size_t N, size_t K, class I> struct P3 {               // A(it,k)
    using scalar = T; using A = Tensor<T, M, N>; using R = Tensor<T, K, 1>;
    template <class AA> static decltype(auto) view(AA& a, const void* const* it, long long k) { return a(*static_cast<const Tensor<I, K>*>(it[0]), (int)k); }
};
template <class T, size_t M, size_t N, size_t K, class I> struct P4 {               // A(k,it)
    using scalar = T; using A = Tensor<T, M, N>; using R = Tensor<T, K, 1>;
    template <class AA> static decltype(auto) view(AA& a, const void* const* it, long long k) { return a((int)k, *static_cast<const Tensor<I, K>*>(it[0])); }
};
template <class T, size_t M, size_t N, size_t K, class I, class Q> struct P5 {      // A(it,fseq)
    using scalar = T; using A = Tensor<T, M, N>; using R = Tensor<T, K, Q::Size>;
    template <class AA> static decltype(auto) view(AA& a, const void* const* it, long long) { return a(*static_cast<const Tensor<I, K>*>(it[0]), Q()); }
};
template <class T, size_t M, size_t N, size_t K, class I, class Q> struct P6 {      // A(fseq,it)
    using scalar = T; using A = Tensor<T, M, N>; using R = Tensor<T, Q::Size, K>;
    template <class AA> static decltype(auto) view(AA& a, const void* const* it, long long) { return a(Q(), *static_cast<const Tensor<I, K>*>(it[0])); }
};
template <class T, size_t M, size_t N, size_t K0, size_t K1, class I> struct P7 {   // A(flat-index tensor of the parent's rank)
    using scalar = T; using A = Tensor<T, M, N>; using R = Tensor<T, K0, K1>;
    template <class AA> static decltype(auto) view(AA& a, const void* const* it, long long) { return a(*static_cast<const Tensor<I, K0, K1>*>(it[0])); }
};
template <class T, size_t... D> struct PM {                                          // A(mask); rhs view = B2(flat index tensor of A's shape)
    using scalar = T; using A = Tensor<T, D...>; using R = A;
    template <class AA> static decltype(auto) view(AA& a, const void* const* it, long long) { return a(*static_cast<const Tensor<bool, D...>*>(it[0])); }
};
// right-hand-side view: the same form on B2 with the jt tensors, except for masks (a full-extent index view)
template <class P> struct RV {
    template <class AA> static decltype(auto) view(AA& b2, const Args* g) { return P::view(b2, g->jt, g->k2); }
};
template <class T, size_t N> struct RV<PM<T, N>> {
    template <class AA> static decltype(auto) view(AA& b2, const Args* g) { return b2(*static_cast<const Tensor<int, N>*>(g->jt[0])); }
};
template <class T, size_t M, size_t N> struct RV<PM<T, M, N>> {
    template <class AA> static decltype(auto) view(AA& b2, const Args* g) { return b2(*static_cast<const Tensor<int, M, N>*>(g->jt[0])); }
};

enum Ctx { C_CONSTRUCT = 0, C_COMPOUND = 1, C_EXPR = 2, C_CONST = 3, C_ASSIGN = 4 };
enum Rhs { R_SCALAR = 0, R_TENSOR = 1, R_EXPR = 2, R_VIEW = 3, R_EVAL = 4 /* a right-hand side that has to be evaluated first: (2I) % B */ };
template <class R> struct Lead;
template <class T, size_t K, size_t... Rest> struct Lead<Tensor<T, K, Rest...>> { static constexpr size_t value = K; };
template <int C> struct CTag {};
template <int R> struct RTag {};

template <class P> static inline void rd_(CTag<C_CONSTRUCT>, typename P::A& a, const Args* g, typename P::R* r) { new (r) typename P::R(P::view(a, g->it, g->k)); }
template <class P> static inline void rd_(CTag<C_COMPOUND>, typename P::A& a, const Args* g, typename P::R* r) { *r += P::view(a, g->it, g->k); }
template <class P> static inline void rd_(CTag<C_EXPR>, typename P::A& a, const Args* g, typename P::R* r) {
    using T = typename P::scalar; *r = T(2) * P::view(a, g->it, g->k) + T(1);
}
template <class P> static inline void rd_(CTag<C_CONST>, typename P::A& a, const Args* g, typename P::R* r) {
    const typename P::A& ca = a; new (r) typename P::R(P::view(ca, g->it, g->k));
}
template <class P> static inline void rd_(CTag<C_ASSIGN>, typename P::A& a, const Args* g, typename P::R* r) { *r = P::view(a, g->it, g->k); }

template <class P, int CTX> static FX_NOINLINE void rd(void* ap, const Args* g, void* rp) {
    using A = typename P::A; using R = typename P::R;
    static_assert(std::is_trivially_destructible<A>::value && std::is_trivially_destructible<R>::value, "tensor objects are placed in raw arenas");
    fx::escape(ap); fx::escape(rp); fx::escape(g);
    rd_<P>(CTag<CTX>(), *static_cast<A*>(ap), g, static_cast<R*>(rp));
    fx::clobber();
}

template <class P, int OP> static inline void wr_(RTag<R_SCALAR>, typename P::A& a, const Args* g) {
    assign_op(OpTag<OP>(), P::view(a, g->it, g->k), (typename P::scalar)g->c);
}
template <class P, int OP> static inline void wr_(RTag<R_TENSOR>, typename P::A& a, const Args* g) {
    assign_op(OpTag<OP>(), P::view(a, g->it, g->k), *static_cast<const typename P::R*>(g->B));
}
template <class P, int OP> static inline void wr_(RTag<R_EXPR>, typename P::A& a, const Args* g) {
    using T = typename P::scalar; const typename P::R& b = *static_cast<const typename P::R*>(g->B);
    assign_op(OpTag<OP>(), P::view(a, g->it, g->k), T(2) * b + T(1));
}
template <class P, int OP> static inline void wr_(RTag<R_VIEW>, typename P::A& a, const Args* g) {
    typename P::A& b2 = *static_cast<typename P::A*>(g->B2);
    assign_op(OpTag<OP>(), P::view(a, g->it, g->k), RV<P>::view(b2, g));
}
template <class P, int OP> static inline void wr_(RTag<R_EVAL>, typename P::A& a, const Args* g) {
    using T = typename P::scalar; const typename P::R& b = *static_cast<const typename P::R*>(g->B);
    constexpr size_t L = Lead<typename P::R>::value;
    Tensor<T, L, L> e; e.zeros(); for (size_t i = 0; i < L; ++i) e(i, i) = T(2);
    fx::escape(e.data());
    assign_op(OpTag<OP>(), P::view(a, g->it, g->k), e % b);
}
template <class P, int OP, int RHS> static FX_NOINLINE void wr(void* ap, const Args* g) {
    using A = typename P::A;
    fx::escape(ap); fx::escape(g);
    wr_<P, OP>(RTag<RHS>(), *static_cast<A*>(ap), g);
    fx::clobber();
}

// ---- run-time side ---------------------------------------------------------------------------------------------------------
typedef void (*rd_fn)(void*, const Args*, void*);
typedef void (*wr_fn)(void*, const Args*);

struct Form {
    int form = 1;            // 1..7 as above, 8 = mask
    int M = 1, NC = 1;       // parent extents (1-D: M = 1, NC = N)
    int K0 = 0, K1 = 0;      // index tensor lengths (form 7: extents of the flat-index tensor)
    int F = 0, S = 1, Q = 0; // fseq first, step, count (forms 5, 6)
    int isz0 = 4, isz1 = 4;  // sizeof of the index element types
};

template <class T> struct Job {
    Form fm; size_t sizeofA = 0, sizeofR = 0; int total = 0, rn = 0;
    rd_fn rdf[5] = {}; wr_fn wrf[5][5] = {};
};
template <class T, class P> static inline Job<T> job_of(const Form& fm) {
    Job<T> j; j.fm = fm; j.sizeofA = sizeof(typename P::A); j.sizeofR = sizeof(typename P::R);
    j.total = (int)P::A::size(); j.rn = (int)P::R::size(); return j;
}

template <class T> struct Drv {
    fx::Ctx& fx; Job<T> j; Form f;
    unsigned char *ap, *rp, *bp, *b2p, *itp[2], *jtp[2];
    T *ad, *rdat, *bd, *b2d;
    Args g;
    std::vector<T> A0, B0, B20, exp, r0;
    std::vector<int> pos, pos2;
    uint64_t c_reads = 0, c_writes = 0, c_points = 0, c_skipped = 0, since_frame = 0;

    Drv(fx::Ctx& fx_, const Job<T>& jj) : fx(fx_), j(jj), f(jj.fm), A0(jj.total), B0(jj.rn), B20(jj.total), exp(std::max(jj.total, jj.rn)), r0(jj.rn),
                                           pos(jj.rn), pos2(jj.rn) {
        if (fx.seen && fx.seen->bucket_count() < FX_DISTINCT_CAP) fx.seen->reserve(FX_DISTINCT_CAP);   // no rehash pauses under the watchdog
        fx.arena[0].paint(); fx.arena[2].paint();
        ap = fx.arena[0].place_mid(j.sizeofA, 64); ad = (T*)ap;
        rp = fx.arena[2].place_mid(j.sizeofR, 64); rdat = (T*)rp;
        unsigned char* base = fx.arena[1].lo + 4096;
        bp = base; b2p = base + 16384; itp[0] = base + 32768; itp[1] = base + 36864; jtp[0] = base + 40960; jtp[1] = base + 45056;
        bd = (T*)bp; b2d = (T*)b2p;
        if (j.sizeofR > 16384 || j.sizeofA > 16384) { fprintf(stderr, "c19: tensors too large\n"); abort(); }
        memset(&g, 0, sizeof g);
        g.it[0] = itp[0]; g.it[1] = itp[1]; g.jt[0] = jtp[0]; g.jt[1] = jtp[1]; g.B = bp; g.B2 = b2p; g.c = 2.0;
        for (int i = 0; i < j.total; ++i) { A0[i] = (T)(3 + 2 * i); B20[i] = (T)(5 + 3 * i); }
        for (int i = 0; i < j.rn; ++i) B0[i] = (T)(2 + ((i * 5) % 7) + i / 7 * 7);
        memcpy(bd, B0.data(), sizeof(T) * j.rn); memcpy(b2d, B20.data(), sizeof(T) * j.total); memcpy(ad, A0.data(), sizeof(T) * j.total);
    }
    static void put(unsigned char* dst, int isz, const int* v, int n) {
        if (isz == 4) { int* p = (int*)dst; for (int i = 0; i < n; ++i) p[i] = v[i]; }
        else { int64_t* p = (int64_t*)dst; for (int i = 0; i < n; ++i) p[i] = v[i]; }    // int64_t and size_t share the representation of small values
    }
    // flat positions (row-major order of the view) for index vectors v0, v1 and the fixed integer k
    int positions(const int* v0, const int* v1, int k, int* out) const {
        int n = 0;
        switch (f.form) {
            case 1: for (int i = 0; i < f.K0; ++i) out[n++] = v0[i]; break;
            case 2: for (int i = 0; i < f.K0; ++i) for (int q = 0; q < f.K1; ++q) out[n++] = v0[i] * f.NC + v1[q]; break;
            case 3: for (int i = 0; i < f.K0; ++i) out[n++] = v0[i] * f.NC + k; break;
            case 4: for (int i = 0; i < f.K0; ++i) out[n++] = k * f.NC + v0[i]; break;
            case 5: for (int i = 0; i < f.K0; ++i) for (int q = 0; q < f.Q; ++q) out[n++] = v0[i] * f.NC + f.S * q + f.F; break;
            case 6: for (int q = 0; q < f.Q; ++q) for (int i = 0; i < f.K0; ++i) out[n++] = (f.S * q + f.F) * f.NC + v0[i]; break;
            case 7: for (int i = 0; i < f.K0 * f.K1; ++i) out[n++] = v0[i]; break;
        }
        return n;
    }
    int len0() const { return f.form == 7 ? f.K0 * f.K1 : f.K0; }
    int range0() const { return f.form == 1 ? f.NC : f.form == 7 ? f.M * f.NC : (f.form == 4 || f.form == 6) ? f.NC : f.M; }
    int krange() const { return f.form == 3 ? f.NC : f.form == 4 ? f.M : 1; }

    // every vector of length L over [0,R) when L <= 4 (and the count is affordable), else the structured family
    static std::vector<std::vector<int>> vectors(int L, int R, bool dupfree_only, bool* exhaustive) {
        std::vector<std::vector<int>> out;
        double cnt = 1; for (int i = 0; i < L; ++i) cnt *= R;
        if (L <= 4 && cnt <= 200000) {
            *exhaustive = true;
            std::vector<int> v(L, 0);
            do { if (!dupfree_only || dupfree_arr(v.data(), L)) out.push_back(v); } while (next_vec(v.data(), L, R));
        } else {
            *exhaustive = false;
            for (auto& iv : index_family(L, R)) if (!dupfree_only || iv.dupfree) out.push_back(iv.v);
        }
        return out;
    }
    void frames(bool force) {
        bool near = fx.arena[0].first_damage(ap, j.sizeofA, 64) != 0x7fffffffL || fx.arena[2].first_damage(rp, j.sizeofR, 64) != 0x7fffffffL;
        if (near || force || ++since_frame >= 512) {
            since_frame = 0;
            fx.frame(0, ap, j.sizeofA, "write outside the parent tensor object");
            fx.frame(2, rp, j.sizeofR, "write outside the result tensor object");
            if (memcmp(bd, B0.data(), sizeof(T) * j.rn) || memcmp(b2d, B20.data(), sizeof(T) * j.total))
                fx.verdict(false, 0, true, "a right-hand-side operand was modified");
        }
    }

    // ---- reads -----------------------------------------------------------------------------------------------------------
    void read_point(int n) {
        for (int c = 0; c < 5; ++c) {
            if (!j.rdf[c]) continue;
            const bool uses_r0 = c == C_COMPOUND;
            for (int i = 0; i < n; ++i) r0[i] = uses_r0 ? (T)(1 + i % 4) : fxv::sentinel<T>::v();
            for (int i = 0; i < n; ++i) {
                T v = A0[pos[i]];
                exp[i] = c == C_COMPOUND ? (T)(r0[i] + v) : c == C_EXPR ? (T)(T(2) * v + T(1)) : v;
            }
            memcpy(rdat, r0.data(), sizeof(T) * n);
            fx.pa[3] = c;    // context is the last point argument
            if (!fx.run([&] { j.rdf[c](ap, &g, rp); })) { memset(rp, fx::Arena::CAN, j.sizeofR); continue; }
            fx.eq(rdat, exp.data(), (size_t)n, r0.data(), "read");
            if (memcmp(ad, A0.data(), sizeof(T) * j.total)) { fx.verdict(false, 0, true, "reading through the view modified the parent"); memcpy(ad, A0.data(), sizeof(T) * j.total); }
            frames(false);
            memset(rp, fx::Arena::CAN, j.sizeofR);
            ++c_reads;
        }
    }
    void reads() {
        bool ex0 = true, ex1 = true;
        std::vector<std::vector<int>> L0 = vectors(len0(), range0(), false, &ex0), L1;
        if (f.form == 2) L1 = vectors(f.K1, f.NC, false, &ex1); else L1.push_back(std::vector<int>(1, 0));
        const int KR = krange();
        for (size_t a = 0; a < L0.size(); ++a) for (size_t b = 0; b < L1.size(); ++b) for (int k = 0; k < KR; ++k) {
            put(itp[0], f.isz0, L0[a].data(), (int)L0[a].size());
            if (f.form == 2) put(itp[1], f.isz1, L1[b].data(), f.K1);
            g.k = k;
            int n = positions(L0[a].data(), L1[b].data(), k, pos.data());
            long long c0 = 0, c1 = 0;
            if (ex0) for (int x : L0[a]) c0 = c0 * 100 + x; else c0 = (long long)a;
            if (f.form == 2) { if (ex1) for (int x : L1[b]) c1 = c1 * 100 + x; else c1 = (long long)b; }
            fx.pt("it0=%lld,it1=%lld,k=%lld,ctx=%lld", c0, c1, (long long)k, 0);
            read_point(n);
            ++c_points;
        }
        if (!ex0 || !ex1) fx.note("it0/it1 of non-exhaustive slots are indices into alias::index_family(len,range)");
        finish();
    }

    // ---- writes ----------------------------------------------------------------------------------------------------------
    void write_point(int op, int n, bool have_view_rhs) {
        for (int r = 0; r < 5; ++r) {
            if (!j.wrf[op][r]) continue;
            if (r == R_VIEW && !have_view_rhs) continue;
            memcpy(exp.data(), A0.data(), sizeof(T) * j.total);
            for (int i = 0; i < n; ++i) {
                T rv = r == R_SCALAR ? (T)g.c : r == R_TENSOR ? B0[i] : r == R_EXPR ? (T)(T(2) * B0[i] + T(1)) : r == R_EVAL ? (T)(T(2) * B0[i]) : B20[pos2[i]];
                exp[pos[i]] = ref_op<T>(op, A0[pos[i]], rv);
            }
            memcpy(ad, A0.data(), sizeof(T) * j.total);
            fx.pa[3] = r;
            if (!fx.run([&] { j.wrf[op][r](ap, &g); })) { memcpy(ad, A0.data(), sizeof(T) * j.total); continue; }
            fx.eq(ad, exp.data(), (size_t)j.total, A0.data(), "write");
            frames(false);
            ++c_writes;
        }
    }
    void writes(int op) {
        bool ex0 = true, ex1 = true;
        std::vector<std::vector<int>> L0 = vectors(len0(), range0(), true, &ex0), L1;
        if (f.form == 2) L1 = vectors(f.K1, f.NC, true, &ex1); else L1.push_back(std::vector<int>(1, 0));
        const int KR = krange();
        std::vector<int> w0, w1;
        uint64_t counter = 0;
        for (size_t a = 0; a < L0.size(); ++a) for (size_t b = 0; b < L1.size(); ++b) for (int k = 0; k < KR; ++k) {
            put(itp[0], f.isz0, L0[a].data(), (int)L0[a].size());
            if (f.form == 2) put(itp[1], f.isz1, L1[b].data(), f.K1);
            g.k = k;
            int n = positions(L0[a].data(), L1[b].data(), k, pos.data());
            // right-hand-side view on B2: the index vectors reversed (odd points) or all equal to their first element (even points: repeats)
            w0 = L0[a]; w1 = L1[b];
            if (counter & 1) { std::reverse(w0.begin(), w0.end()); std::reverse(w1.begin(), w1.end()); }
            else { for (auto& x : w0) x = L0[a][0]; if (counter & 2) for (auto& x : w1) x = L1[b][0]; }
            put(jtp[0], f.isz0, w0.data(), (int)w0.size());
            if (f.form == 2) put(jtp[1], f.isz1, w1.data(), f.K1);
            g.k2 = (k + 1) % KR;
            positions(w0.data(), w1.data(), (int)g.k2, pos2.data());
            long long c0 = 0, c1 = 0;
            if (ex0) for (int x : L0[a]) c0 = c0 * 100 + x; else c0 = (long long)a;
            if (f.form == 2) { if (ex1) for (int x : L1[b]) c1 = c1 * 100 + x; else c1 = (long long)b; }
            fx.pt("it0=%lld,it1=%lld,k=%lld,rhs=%lld", c0, c1, (long long)k, 0);
            write_point(op, n, true);
            ++counter; ++c_points;
        }
        if (!ex0 || !ex1) fx.note("it0/it1 of non-exhaustive slots are indices into alias::index_family(len,range) restricted to duplicate-free vectors");
        finish();
    }

    // ---- masks -----------------------------------------------------------------------------------------------------------
    std::vector<uint64_t> mask_list(bool* exhaustive) const {
        std::vector<uint64_t> out; const int N = j.total;
        if (N <= 12) { *exhaustive = true; for (uint64_t m = 0; m < (1ull << N); ++m) out.push_back(m); return out; }
        *exhaustive = false;
        const uint64_t all = N >= 64 ? ~0ull : ((1ull << N) - 1);
        auto add = [&](uint64_t m) { m &= all; for (auto x : out) if (x == m) return; out.push_back(m); };
        add(0); add(all); add(0x5555555555555555ull); add(0xAAAAAAAAAAAAAAAAull); add(0x3333333333333333ull); add(0x9249249249249249ull);
        for (int i = 0; i < N; ++i) { add(1ull << i); add(~(1ull << i)); add((1ull << i) - 1); add(~((1ull << i) - 1)); }
        for (int i = 0; i + 1 < N; ++i) add(3ull << i);
        return out;
    }
    void mask_writes(int op) {
        const int N = j.total;
        bool ex = true;
        std::vector<uint64_t> ML = mask_list(&ex);
        bool* mk = (bool*)itp[0];
        std::vector<int> map(N);
        uint64_t counter = 0;
        for (uint64_t m : ML) {
            int n = 0;
            for (int i = 0; i < N; ++i) { mk[i] = (m >> i) & 1; }
            // right-hand-side view B2(map): reversal / rotation by one / identity by turns
            for (int i = 0; i < N; ++i) map[i] = counter % 3 == 0 ? N - 1 - i : counter % 3 == 1 ? (i + 1) % N : i;
            put(jtp[0], 4, map.data(), N);
            fx.pt("mask=%lld,map=%lld,rhs=%lld", (long long)m, (long long)(counter % 3), 0);
            // a mask view has the parent's extent: position i takes rhs element i
            for (int r = 0; r < 5; ++r) {
                if (!j.wrf[op][r]) continue;
                memcpy(exp.data(), A0.data(), sizeof(T) * N);
                for (int i = 0; i < N; ++i) if (mk[i]) {
                    T rv = r == R_SCALAR ? (T)g.c : r == R_TENSOR ? B0[i] : r == R_EXPR ? (T)(T(2) * B0[i] + T(1)) : r == R_EVAL ? (T)(T(2) * B0[i]) : B20[map[i]];
                    exp[i] = ref_op<T>(op, A0[i], rv);
                }
                memcpy(ad, A0.data(), sizeof(T) * N);
                fx.pa[2] = r;
                if (!fx.run([&] { j.wrf[op][r](ap, &g); })) { memcpy(ad, A0.data(), sizeof(T) * N); continue; }
                fx.eq(ad, exp.data(), (size_t)N, A0.data(), "mask write");
                frames(false);
                ++c_writes;
            }
            (void)n; ++counter; ++c_points;
        }
        if (!ex) fx.note("structured masks: none, all, alternating (periods 2,3,4), single bit, all but one, prefixes, suffixes, adjacent pairs");
        finish();
    }
    void finish() {
        frames(true);
        fx.route("points", c_points);
        if (c_reads) fx.route("evaluations.read", c_reads);
        if (c_writes) fx.route("evaluations.write", c_writes);
    }
};

template <class T> static FX_NOINLINE void run_reads(fx::Ctx& fx, const Job<T>& j) { Drv<T> d(fx, j); d.reads(); }
template <class T> static FX_NOINLINE void run_writes(fx::Ctx& fx, const Job<T>& j, int op) { Drv<T> d(fx, j); d.writes(op); }
template <class T> static FX_NOINLINE void run_mask(fx::Ctx& fx, const Job<T>& j, int op) { Drv<T> d(fx, j); d.mask_writes(op); }

static inline Form form(int id, int M, int NC, int K0, int K1, int F, int S, int Q, int isz0, int isz1) {
    Form f; f.form = id; f.M = M; f.NC = NC; f.K0 = K0; f.K1 = K1; f.F = F; f.S = S; f.Q = Q; f.isz0 = isz0; f.isz1 = isz1; return f;
}

} // namespace c19
