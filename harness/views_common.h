// views_common.h - shared by c04.h (reading through views) and c05.h (writing through views).
// Reference model of slicing: per axis a normalised range (first,last,step) selects first + j*step, j < ceil((last-first)/step);
// a slice of a rank-k tensor is the row-major product of the per-axis selections.  Nothing here uses Fastor's own
// normalisation code; `decode` / `cx_*` restate the documented encoding (DESIGN.md C04, "semantics confirmed by probing").
#pragma once
#include "fxv.h"
#include <Fastor/Fastor.h>
#include <utility>
#include <array>
#include <vector>
#include <initializer_list>

namespace vw {
using namespace Fastor;

constexpr int MAXR = 5;

struct Ax { int f, l, s; };
static inline int ext_of(const Ax& a) { return (a.l - a.f + a.s - 1) / a.s; }
static inline bool admissible(const Ax& a, int N) { return a.s >= 1 && a.f >= 0 && a.f < a.l && a.l <= N; }
static inline bool same_ax(const Ax& a, const Ax& b) { return a.f == b.f && a.l == b.l && a.s == b.s; }

// documented encoding of a (first,last) pair given as a slice argument on an axis of extent N:
//   last < 0 <= first      : last counts from the end, -1 (= `last`) standing for N
//   (first,last) = (-1,0)  : what seq(-1) / the integer `last` produces: the last element
//   first < 0 and last < 0 : both count from the end (first -> N+1+first)
constexpr int cx_first(int F, int L, int N) { return (L == 0 && F == -1) ? N - 1 : ((L < 0 && F < 0) ? F + N + 1 : F); }
constexpr int cx_last(int F, int L, int N) { return (L == 0 && F == -1) ? N : (L < 0 ? L + N + 1 : L); }
constexpr int cx_ext(int F, int L, int S, int N) { return (cx_last(F, L, N) - cx_first(F, L, N) + S - 1) / S; }
static inline Ax decode(int f, int l, int s, int N) { return Ax{cx_first(f, l, N), cx_last(f, l, N), s}; }

enum Enc { E_PLAIN = 0, E_LASTREL = 1, E_BOTHREL = 2, E_LASTELEM = 3, E_NENC = 4 };
// the seq argument that denotes the normalised range `a` in encoding `enc`; false if the encoding does not apply
static inline bool encode(const Ax& a, int N, int enc, seq& out) {
    switch (enc) {
        case E_PLAIN:    out = seq(a.f, a.l, a.s); return true;
        case E_LASTREL:  out = seq(a.f, a.l - N - 1, a.s); return true;              // e.g. seq(f, last-k)
        case E_BOTHREL:  out = seq(a.f - N - 1, a.l - N - 1, a.s); return true;      // e.g. seq(last-2, last)
        case E_LASTELEM: if (a.f == N - 1 && a.l == N && a.s == 1) { out = seq(-1); return true; } return false;
    }
    return false;
}

struct Shape {
    int rank = 0, d[MAXR] = {1, 1, 1, 1, 1}, st[MAXR] = {0, 0, 0, 0, 0}, size = 1;
    void finish() { size = 1; for (int i = rank - 1; i >= 0; --i) { st[i] = size; size *= d[i]; } }
};
template <size_t... D> struct Dims {
    static constexpr int rank = (int)sizeof...(D);
    template <class T> using tensor = Tensor<T, D...>;
    static Shape shape() { Shape s; s.rank = rank; int k = 0; for (size_t v : {D...}) s.d[k++] = (int)v; s.finish(); return s; }
};

// ---- kinds of slice argument (types used as template arguments of the thunks) ------------------------------------
enum KindCode { K_SEQ = 0, K_SEQE = 1, K_FSEQ = 2, K_INT = 3, K_ISEQ = 4 };
struct KindInfo { int code, F, L, S, E; };
struct KS { static KindInfo info() { return {K_SEQ, 0, 0, 0, 0}; } };                                   // run-time seq
template <int E> struct KSE { static KindInfo info() { return {K_SEQE, 0, 0, 0, E}; } };               // run-time seq of extent E
template <int F, int L, int S = 1> struct KF { static KindInfo info() { return {K_FSEQ, F, L, S, 0}; } };  // fseq<F,L,S>
struct KI { static KindInfo info() { return {K_INT, 0, 0, 0, 1}; } };                                   // run-time integer
struct KFL { static KindInfo info() { return {K_FSEQ, -1, 0, 1, 0}; } };                               // the constant `flast` (meant: the last element)
template <int F, int L, int S = 1> struct KQ { static KindInfo info() { return {K_ISEQ, F, L, S, 0}; } };  // iseq<F,L,S>

static inline seq mk(KS, const seq& s, int) { return s; }
template <int E> static inline seq mk(KSE<E>, const seq& s, int) { return s; }
template <int F, int L, int S> static inline fseq<F, L, S> mk(KF<F, L, S>, const seq&, int) { return fseq<F, L, S>(); }
static inline int mk(KI, const seq&, int i) { return i; }
static inline decltype(flast) mk(KFL, const seq&, int) { return flast; }
template <int F, int L, int S> static inline iseq<F, L, S> mk(KQ<F, L, S>, const seq&, int) { return iseq<F, L, S>(); }

// compile-time extent of an argument kind on an axis of extent N (kinds whose extent is a run-time quantity have none)
template <class K, int N> struct KExt;
template <int E, int N> struct KExt<KSE<E>, N> { static constexpr int value = E; };
template <int N> struct KExt<KI, N> { static constexpr int value = 1; };
template <int N> struct KExt<KFL, N> { static constexpr int value = 1; };
template <int F, int L, int S, int N> struct KExt<KF<F, L, S>, N> { static constexpr int value = cx_ext(F, L, S, N); };
template <int F, int L, int S, int N> struct KExt<KQ<F, L, S>, N> { static constexpr int value = (L - F + S - 1) / S; };

// ---- selections ----------------------------------------------------------------------------------------------------
struct Sel {
    int ext[MAXR] = {1, 1, 1, 1, 1}; int n = 0; std::vector<int> idx;
};
// flat row-major indices selected by the per-axis ranges, in the order the slice enumerates them
static inline void select(const Shape& sh, const Ax* ax, Sel& out) {
    out.n = 1;
    for (int i = 0; i < sh.rank; ++i) { out.ext[i] = ext_of(ax[i]); out.n *= out.ext[i]; }
    out.idx.resize((size_t)out.n);
    int j[MAXR] = {0, 0, 0, 0, 0};
    for (int k = 0; k < out.n; ++k) {
        int p = 0;
        for (int i = 0; i < sh.rank; ++i) p += sh.st[i] * (ax[i].f + j[i] * ax[i].s);
        out.idx[(size_t)k] = p;
        for (int i = sh.rank - 1; i >= 0; --i) { if (++j[i] < out.ext[i]) break; j[i] = 0; }
    }
}

// ---- per-axis option lists -------------------------------------------------------------------------------------------
struct Opt { Ax a; seq s; int iv; int enc; Opt(Ax a_, seq s_, int iv_, int enc_) : a(a_), s(s_), iv(iv_), enc(enc_) {} };

enum RangeSet { RS_FULL = 0,    // every 0 <= f < l <= N, 1 <= s <= N
                RS_FULLQ = 1,   // every 0 <= f < l <= N, 1 <= s <= max(1,l-f): all steps >= l-f select {f} and are represented by s = l-f
                RS_THIN = 2,    // all, singles (first, middle, last), a prefix, a suffix, every stride 2..N-1 with one offset
                RS_ONE = 3 };   // the whole axis only
static inline void ranges(int N, int set, std::vector<Ax>& out) {
    out.clear();
    auto push = [&](int f, int l, int s) {
        Ax a{f, l, s}; if (!admissible(a, N)) return;
        for (auto& b : out) if (same_ax(a, b)) return;
        out.push_back(a);
    };
    if (set == RS_ONE) { push(0, N, 1); return; }
    if (set == RS_THIN) {
        push(0, N, 1); push(0, 1, 1); push(N - 1, N, 1); push(N / 2, N / 2 + 1, 1);
        push(0, (N + 1) / 2, 1); push(N / 2, N, 1);
        for (int s = 2; s < N; ++s) push(s % 2, N, s);
        if (N >= 2) push(0, N, N);     // a step that reaches past the range: extent 1
        return;
    }
    for (int f = 0; f < N; ++f)
        for (int l = f + 1; l <= N; ++l) {
            int smax = set == RS_FULL ? N : (l - f > 1 ? l - f : 1);
            for (int s = 1; s <= smax; ++s) out.push_back(Ax{f, l, s});
        }
}

// options of one axis.  encs = bit mask of encodings offered for run-time seq arguments; neg_ints: replace the integer /
// single-element options by the bare negative integers -N..-2 (outside the documented encoding; explored, not judged)
static inline void axis_options(const KindInfo& k, int N, int set, unsigned encs, bool neg_ints, std::vector<Opt>& out) {
    out.clear();
    std::vector<Ax> rs;
    switch (k.code) {
        case K_SEQ: case K_SEQE: {
            if (neg_ints) { for (int v = -N; v <= -2; ++v) out.emplace_back(Ax{N + v, N + v + 1, 1}, seq(v), v, E_PLAIN); return; }
            ranges(N, set, rs);
            for (auto& a : rs) {
                if (k.code == K_SEQE && ext_of(a) != k.E) continue;
                for (int e = 0; e < E_NENC; ++e) {
                    if (!((encs >> e) & 1u)) continue;
                    seq s(0, 1); if (encode(a, N, e, s)) out.emplace_back(a, s, 0, e);
                }
            }
            return;
        }
        case K_FSEQ: out.emplace_back(decode(k.F, k.L, k.S, N), seq(0, 1), 0, E_PLAIN); return;
        case K_ISEQ: out.emplace_back(Ax{k.F, k.L, k.S}, seq(0, 1), 0, E_PLAIN); return;
        case K_INT:
            if (neg_ints) { for (int v = -N; v <= -2; ++v) out.emplace_back(Ax{N + v, N + v + 1, 1}, seq(0, 1), v, E_PLAIN); return; }
            for (int v = 0; v < N; ++v) out.emplace_back(Ax{v, v + 1, 1}, seq(0, 1), v, E_PLAIN);
            out.emplace_back(Ax{N - 1, N, 1}, seq(0, 1), -1, E_LASTELEM);     // the integer `last`
            return;
    }
}

// ---- data ------------------------------------------------------------------------------------------------------------
// index-coded contents: element p holds +-(p+1) (sign negative when p % 3 == 1), so a value identifies its flat index
template <class T> static inline void fill_index_coded(T* p, int n, int offset = 0) {
    for (int i = 0; i < n; ++i) p[i] = (T)((i % 3 == 1) ? -(long long)(i + 1 + offset) : (long long)(i + 1 + offset));
}
// small operand values 2..8 with mixed signs, never 0 (second operands of + and *, divisors for integer types)
template <class T> static inline void fill_small(T* p, int n, int salt = 0) {
    for (int i = 0; i < n; ++i) { long long v = 2 + ((i * 5 + salt) % 7); if ((i + salt) % 4 == 2) v = -v; p[i] = (T)v; }
}
// +-2^k, k = 0..3: divisors for which x/y and x*(1/y) are both exact in binary floating point
template <class T> static inline void fill_pow2(T* p, int n, int salt = 0) {
    for (int i = 0; i < n; ++i) { long long v = 1ll << ((i + salt) % 4); if ((i + salt) % 3 == 1) v = -v; p[i] = (T)v; }
}

// model of the load/store route a slice takes, from public quantities only: step and extent of the last axis against the native
// vector width W.  unit/strided x {whole vectors, vectors + scalar tail, shorter than a vector}; W = 1 -> scalar
struct RouteCount {
    uint64_t n[7] = {0, 0, 0, 0, 0, 0, 0};
    void add(const Ax& last, int W) {
        if (W <= 1) { ++n[6]; return; }
        const int e = ext_of(last); const int c = e % W == 0 ? 0 : (e > W ? 1 : 2);
        ++n[(last.s != 1 ? 3 : 0) + c];
    }
    template <class Ctx> void flush(Ctx& fx, const char* prefix) const {
        static const char* nm[] = {"unit.fullvec", "unit.vec+tail", "unit.subvec", "strided.fullvec", "strided.vec+tail", "strided.subvec", "scalar"};
        for (int i = 0; i < 7; ++i) if (n[i]) fx.route(std::string(prefix) + nm[i], n[i]);
    }
};

// encode one axis range in a single integer for point labels of rank > 2: f*10000 + l*100 + s
static inline long long ax_code(const Ax& a) { return (long long)a.f * 10000 + (long long)a.l * 100 + a.s; }

} // namespace vw
