// c18.h - overlapping slice assignment with noalias() (property C18, model checking)
//
//   statement      A(r1)[.noalias()] op= f(A(r2)[, A(r3)])        op in {=,+=,-=,*=,/=},  f in {x, x+1, 2*x, x+y}
//   state          contents of the one tensor A + the (one-shot) noalias flag of a *retained* view object v = A(r1)
//   invariant      noalias():        A' = reference(op, f) applied to a snapshot of A, unselected elements unchanged
//                  plain, every source slice coincides with r1 exactly (or is disjoint from it): same result
//                  plain, partial overlap: explored (the implementation's result becomes the next state), NOT judged
//
// Thin thunks (th<K,OP,F,LIT>) hold just the Fastor statement; everything else (range / index-vector / mask
// enumeration, reference, domain guard, classification, BFS with history replay) is run-time code per element type.
#pragma once
#include "alias_common.h"

namespace c18 {
using namespace Fastor;
using namespace alias;

template <int F, int L, int S = 1> using FS = fseq<F, L, S>;

struct Args {
    int r[4][3][3];          // r[which][axis][first,last,step]   which = 1 (dst), 2 (src), 3 (second src)
    const void* it[4][2];    // index-tensor / mask objects of the idx and mask kinds
};
typedef void (*make_fn)(void* vobj, void* a, const Args* g);
typedef void (*apply_fn)(void* vobj, void* a, const Args* g, int na);
template <int W> struct Which {};

// ---- view kinds ---------------------------------------------------------------------------------------------------
template <class T, size_t N> struct KSeq1 {
    using A = Tensor<T, N>; using scalar = T;
    template <int W> static decltype(auto) view(A& a, const Args* g) { return a(seq(g->r[W][0][0], g->r[W][0][1], g->r[W][0][2])); }
};
template <class T, size_t M, size_t N> struct KSeq2 {
    using A = Tensor<T, M, N>; using scalar = T;
    template <int W> static decltype(auto) view(A& a, const Args* g) {
        return a(seq(g->r[W][0][0], g->r[W][0][1], g->r[W][0][2]), seq(g->r[W][1][0], g->r[W][1][1], g->r[W][1][2]));
    }
};
template <class T, size_t L, size_t M, size_t N> struct KSeq3 {
    using A = Tensor<T, L, M, N>; using scalar = T;
    template <int W> static decltype(auto) view(A& a, const Args* g) {
        return a(seq(g->r[W][0][0], g->r[W][0][1], g->r[W][0][2]), seq(g->r[W][1][0], g->r[W][1][1], g->r[W][1][2]),
                 seq(g->r[W][2][0], g->r[W][2][1], g->r[W][2][2]));
    }
};
// compile-time ranges: D* = destination, S* = source, U* = second source (per axis)
template <class T, size_t N, class D0, class S0, class U0> struct KFseq1 {
    using A = Tensor<T, N>; using scalar = T; static constexpr int rank = 1;
    static decltype(auto) v(A& a, Which<1>) { return a(D0()); }
    static decltype(auto) v(A& a, Which<2>) { return a(S0()); }
    static decltype(auto) v(A& a, Which<3>) { return a(U0()); }
    template <int W> static decltype(auto) view(A& a, const Args*) { return v(a, Which<W>()); }
    static void ranges(Args& g) { put<D0>(g, 1, 0); put<S0>(g, 2, 0); put<U0>(g, 3, 0); }
    template <class Q> static void put(Args& g, int w, int ax) { g.r[w][ax][0] = Q::_first; g.r[w][ax][1] = Q::_last; g.r[w][ax][2] = Q::_step; }
};
template <class T, size_t M, size_t N, class D0, class D1, class S0, class S1, class U0, class U1> struct KFseq2 {
    using A = Tensor<T, M, N>; using scalar = T; static constexpr int rank = 2;
    static decltype(auto) v(A& a, Which<1>) { return a(D0(), D1()); }
    static decltype(auto) v(A& a, Which<2>) { return a(S0(), S1()); }
    static decltype(auto) v(A& a, Which<3>) { return a(U0(), U1()); }
    template <int W> static decltype(auto) view(A& a, const Args*) { return v(a, Which<W>()); }
    template <class Q> static void put(Args& g, int w, int ax) { g.r[w][ax][0] = Q::_first; g.r[w][ax][1] = Q::_last; g.r[w][ax][2] = Q::_step; }
    static void ranges(Args& g) { put<D0>(g, 1, 0); put<D1>(g, 1, 1); put<S0>(g, 2, 0); put<S1>(g, 2, 1); put<U0>(g, 3, 0); put<U1>(g, 3, 1); }
};
template <class T, size_t L, size_t M, size_t N, class D0, class D1, class D2, class S0, class S1, class S2, class U0, class U1, class U2> struct KFseq3 {
    using A = Tensor<T, L, M, N>; using scalar = T; static constexpr int rank = 3;
    static decltype(auto) v(A& a, Which<1>) { return a(D0(), D1(), D2()); }
    static decltype(auto) v(A& a, Which<2>) { return a(S0(), S1(), S2()); }
    static decltype(auto) v(A& a, Which<3>) { return a(U0(), U1(), U2()); }
    template <int W> static decltype(auto) view(A& a, const Args*) { return v(a, Which<W>()); }
    template <class Q> static void put(Args& g, int w, int ax) { g.r[w][ax][0] = Q::_first; g.r[w][ax][1] = Q::_last; g.r[w][ax][2] = Q::_step; }
    static void ranges(Args& g) {
        put<D0>(g, 1, 0); put<D1>(g, 1, 1); put<D2>(g, 1, 2); put<S0>(g, 2, 0); put<S1>(g, 2, 1); put<S2>(g, 2, 2);
        put<U0>(g, 3, 0); put<U1>(g, 3, 1); put<U2>(g, 3, 2);
    }
};
// index-tensor views: the index tensors are harness-owned objects (the 1-D view keeps a reference to them)
template <class T, size_t N, size_t K> struct KIdx1 {
    using A = Tensor<T, N>; using scalar = T; using IT = Tensor<int, K>;
    template <int W> static decltype(auto) view(A& a, const Args* g) { return a(*static_cast<const IT*>(g->it[W][0])); }
};
template <class T, size_t M, size_t N, size_t K0, size_t K1> struct KIdx2 {
    using A = Tensor<T, M, N>; using scalar = T; using IT0 = Tensor<int, K0>; using IT1 = Tensor<int, K1>;
    template <int W> static decltype(auto) view(A& a, const Args* g) {
        return a(*static_cast<const IT0*>(g->it[W][0]), *static_cast<const IT1*>(g->it[W][1]));
    }
};
// mask destination, index-tensor sources of full length (a filter view has the extent of its parent)
template <class T, size_t N> struct KMask1 {
    using A = Tensor<T, N>; using scalar = T; using MT = Tensor<bool, N>; using IT = Tensor<int, N>;
    static decltype(auto) v(A& a, const Args* g, Which<1>) { return a(*static_cast<const MT*>(g->it[1][0])); }
    static decltype(auto) v(A& a, const Args* g, Which<2>) { return a(*static_cast<const IT*>(g->it[2][0])); }
    static decltype(auto) v(A& a, const Args* g, Which<3>) { return a(*static_cast<const IT*>(g->it[3][0])); }
    template <int W> static decltype(auto) view(A& a, const Args* g) { return v(a, g, Which<W>()); }
};

// ---- the statement --------------------------------------------------------------------------------------------------
template <int F> struct FTag {};
template <class K, int OP, class Dst, class X> static inline void exec2(FTag<F_ID>, Dst&& dst, const X& x, typename K::A&, const Args*) {
    assign_op(OpTag<OP>(), dst, x);
}
template <class K, int OP, class Dst, class X> static inline void exec2(FTag<F_P1>, Dst&& dst, const X& x, typename K::A&, const Args*) {
    assign_op(OpTag<OP>(), dst, x + typename K::scalar(1));
}
template <class K, int OP, class Dst, class X> static inline void exec2(FTag<F_X2>, Dst&& dst, const X& x, typename K::A&, const Args*) {
    assign_op(OpTag<OP>(), dst, typename K::scalar(2) * x);
}
template <class K, int OP, class Dst, class X> static inline void exec2(FTag<F_SUM>, Dst&& dst, const X& x, typename K::A& a, const Args* g) {
    auto&& y = K::template view<3>(a, g);
    assign_op(OpTag<OP>(), dst, x + y);
}
template <class K, int OP, int F, class Dst> static inline void exec(Dst&& dst, typename K::A& a, const Args* g) {
    auto&& x = K::template view<2>(a, g);
    exec2<K, OP>(FTag<F>(), dst, x, a, g);
}
template <class K> struct ViewOf { using type = typename std::decay<decltype(K::template view<1>(std::declval<typename K::A&>(), (const Args*)nullptr))>::type; };

// LIT = 1: the literal one-statement form on a temporary view;  LIT = 0: the retained view object at vobj
template <class K, int OP, int F, int LIT> static FX_NOINLINE void th(void* vobj, void* ap, const Args* g, int na) {
    using A = typename K::A; using V = typename ViewOf<K>::type;
    A& a = *static_cast<A*>(ap);
    fx::escape(ap); fx::escape(vobj); fx::escape(g);
    if (LIT) {
        if (na) exec<K, OP, F>(K::template view<1>(a, g).noalias(), a, g);
        else exec<K, OP, F>(K::template view<1>(a, g), a, g);
    } else {
        V& v = *static_cast<V*>(vobj);
        if (na) v.noalias();
        exec<K, OP, F>(v, a, g);
    }
    fx::clobber();
}
template <class K> static FX_NOINLINE void mk(void* vobj, void* ap, const Args* g) {
    using A = typename K::A; using V = typename ViewOf<K>::type;
    static_assert(std::is_trivially_destructible<V>::value, "view objects are placed in raw storage");
    static_assert(sizeof(V) <= 1024, "view buffer");
    A& a = *static_cast<A*>(ap);
    fx::escape(ap); fx::escape(vobj); fx::escape(g);
    new (vobj) V(K::template view<1>(a, g));
    fx::clobber();
}

// ---- run-time side ----------------------------------------------------------------------------------------------------
enum Outcome { O_PASS = 0, O_FAIL = 1, O_UNJUDGED = 2, O_EXCLUDED = 3, O_CRASH = 4 };

template <class T> struct Job {
    const char* kind = ""; int rank = 1; int dims[3] = {1, 1, 1}; int total = 0; size_t sizeofA = 0;
    make_fn make = nullptr; apply_fn ap[5][4] = {}; apply_fn lit[5][4] = {};
    template <class K> void shape() {
        using A = typename K::A; static_assert(std::is_trivially_destructible<A>::value, "tensor objects are placed in raw arenas");
        sizeofA = sizeof(A); total = (int)(A::size()); make = &mk<K>;
    }
};
template <class T, class K> static inline Job<T> job_of(const char* kind, int rank, int d0, int d1 = 1, int d2 = 1) {
    Job<T> j; j.kind = kind; j.rank = rank; j.dims[0] = d0; j.dims[1] = d1; j.dims[2] = d2; j.template shape<K>(); return j;
}

struct Action {          // one BFS alphabet letter
    apply_fn fn; int op, f, na, code; Args g; int n; std::vector<int> d, s, t;
};

template <class T> struct Drv {
    fx::Ctx& fx; Job<T> j;
    unsigned char* ap; T* ad;
    alignas(64) unsigned char vbuf[1024];
    Args g;
    int n = 0; int d[128], s[128], t[128];
    std::vector<T> snap, exp, sim, init;
    HashSet states;
    uint64_t c_trans = 0, c_judged = 0, c_unj = 0, c_excl = 0, c_crash = 0, c_hazard_na = 0, c_unj_snap = 0, c_unj_inplace = 0, c_unj_other = 0,
             c_unj_skip = 0, c_plain_same = 0, c_plain_disj = 0, c_fail = 0, c_evals_since_frame = 0, c_unj_sig = 0, c_lit = 0;
    int depth_max = 0, na_from = 0, na_to = 1;
    // harness-owned index tensors / mask (idx and mask kinds): [which][axis]
    unsigned char* itbuf[4][2];

    Drv(fx::Ctx& f, const Job<T>& jj, unsigned log2states = 21) : fx(f), j(jj), snap(jj.total), exp(jj.total), sim(jj.total), init(jj.total), states(log2states) {
        // the engine's distinct-point set grows to millions of entries in these cases: size its bucket array once, so that no
        // rehash pause (seconds on a loaded machine) can be mistaken for a hang by the 2 s watchdog
        if (fx.seen && fx.seen->bucket_count() < FX_DISTINCT_CAP) fx.seen->reserve(FX_DISTINCT_CAP);
        fx.arena[0].paint();
        ap = fx.arena[0].place_mid(j.sizeofA, 64); ad = (T*)ap;
        memset(&g, 0, sizeof g);
        for (int w = 0; w < 4; ++w) for (int a = 0; a < 2; ++a) { itbuf[w][a] = fx.arena[1].lo + 4096 + (w * 2 + a) * 1024; g.it[w][a] = itbuf[w][a]; }
        if (j.total > 128) { fprintf(stderr, "c18: tensor too large\n"); abort(); }
    }
    void set_init(int scheme) { fill_init(init.data(), j.total, scheme); }
    void load(const T* src) { memcpy(ad, src, sizeof(T) * j.total); }

    // positions of a range tuple (row-major view order); returns count
    int positions(const R1* r, int* out) const {
        int cnt = 0;
        if (j.rank == 1) { for (int i = 0; i < r[0].n; ++i) out[cnt++] = r[0].f + i * r[0].s; }
        else if (j.rank == 2) { for (int i = 0; i < r[0].n; ++i) for (int k = 0; k < r[1].n; ++k) out[cnt++] = (r[0].f + i * r[0].s) * j.dims[1] + r[1].f + k * r[1].s; }
        else { for (int i = 0; i < r[0].n; ++i) for (int k = 0; k < r[1].n; ++k) for (int l = 0; l < r[2].n; ++l)
                   out[cnt++] = ((r[0].f + i * r[0].s) * j.dims[1] + r[1].f + k * r[1].s) * j.dims[2] + r[2].f + l * r[2].s; }
        return cnt;
    }
    void set_range(int which, const R1* r, int variant) {
        for (int a = 0; a < j.rank; ++a) { g.r[which][a][0] = r[a].f; g.r[which][a][1] = r_last_arg(r[a], j.dims[a], variant); g.r[which][a][2] = r[a].s; }
    }
    static long long pack(const int (*r)[3], int rank) {   // first/last/step of up to three axes in one decimal number
        long long v = 0; for (int a = 0; a < rank; ++a) v = v * 1000000 + r[a][0] * 10000 + r[a][1] * 100 + r[a][2]; return v;
    }

    void frame_check(bool force) {
        if (fx.arena[0].first_damage(ap, j.sizeofA, 64) != 0x7fffffffL || force || ++c_evals_since_frame >= 512) {
            c_evals_since_frame = 0;
            fx.frame(0, ap, j.sizeofA, "write outside the tensor object");
        }
    }

    // magnitude relaxation: could *any* evaluation order of the statement leave the exactly-representable range or divide by zero?
    // (used for explored-but-not-judged statements only; judged ones use the exact snapshot guard)
    bool any_order_safe(int op, int f) {
        if (!std::is_integral<T>::value) return true;
        if (op == OP_DIV) {
            if (f != F_P1) return false;
            for (int i = 0; i < j.total; ++i) if (snap[i] < 0) return false;
            return true;
        }
        const long double lim = (long double)(std::numeric_limits<T>::max() / 8);
        long double M[128];
        for (int i = 0; i < j.total; ++i) M[i] = fxv::absl(snap[i]);
        for (int pass = 0; pass <= n; ++pass) {
            bool grew = false;
            for (int k = 0; k < n; ++k) {
                long double ms = M[s[k]], mt = M[t[k]], own = fxv::absl(snap[d[k]]);
                long double fm = f == F_P1 ? ms + 1 : f == F_X2 ? 2 * ms : f == F_SUM ? ms + mt : ms;
                long double nm = op == OP_MUL ? own * fm : op == OP_ASSIGN ? fm : own + fm;
                if (nm > lim) return false;
                if (nm > M[d[k]]) { M[d[k]] = nm; grew = true; }
            }
            if (!grew) break;
        }
        return true;
    }

    // one statement from the *current* contents of A.  d/s/t/n and g must describe it.  The view object in vbuf is the
    // retained one (the caller constructs a fresh one for depth-1 statements).  fn = thunk to call.
    int step(apply_fn fn, int op, int f, int na) {
        memcpy(snap.data(), ad, sizeof(T) * j.total);
        const int rel2 = relation(d, s, n);
        const int rel3 = f == F_SUM ? relation(d, t, n) : REL_SAME;
        const bool clean = rel2 != REL_PARTIAL && rel3 != REL_PARTIAL;
        const bool judged = na || clean;
        // exact guard on the snapshot semantics
        bool dom = true;
        for (int k = 0; k < n && dom; ++k) dom = Dom<T>::ok(op, f, snap[d[k]], snap[s[k]], snap[t[k]]);
        if (!dom) { ++c_excl; return O_EXCLUDED; }
        if (!judged && !any_order_safe(op, f)) { ++c_unj_skip; return O_EXCLUDED; }
        // reference on the snapshot
        memcpy(exp.data(), snap.data(), sizeof(T) * j.total);
        for (int k = 0; k < n; ++k) exp[d[k]] = ref_op<T>(op, snap[d[k]], ref_f<T>(f, snap[s[k]], snap[t[k]]));
        // would a naive in-order, in-place evaluation differ?  (non-vacuity of the noalias cases / classification of the unjudged ones)
        bool hazard = false;
        if (!clean) {
            memcpy(sim.data(), snap.data(), sizeof(T) * j.total);
            bool simok = true;
            for (int k = 0; k < n && simok; ++k) {
                simok = Dom<T>::ok(op, f, sim[d[k]], sim[s[k]], sim[t[k]]);
                if (simok) sim[d[k]] = ref_op<T>(op, sim[d[k]], ref_f<T>(f, sim[s[k]], sim[t[k]]));
            }
            hazard = !simok || memcmp(sim.data(), exp.data(), sizeof(T) * j.total) != 0;
        }
        ++c_trans;
        if (judged) {
            ++c_judged;
            if (na && hazard) ++c_hazard_na;
            if (!na) { if (rel2 == REL_SAME && rel3 == REL_SAME) ++c_plain_same; else ++c_plain_disj; }
            if (!fx.run([&] { fn(vbuf, ap, &g, na); })) { ++c_crash; frame_check(true); return O_CRASH; }
            bool ok = fx.eq(ad, exp.data(), (size_t)j.total, snap.data(), na ? "noalias" : (rel2 == REL_SAME && rel3 == REL_SAME ? "plain,coincident" : "plain,disjoint"));
            frame_check(false);
            if (!ok) ++c_fail;
            return ok ? O_PASS : O_FAIL;
        }
        // explored, not judged: the implementation's result is simply observed
        ++c_unj;
        bool threw = false;
        int sg = fx::guarded([&] { try { fn(vbuf, ap, &g, na); } catch (...) { threw = true; } });
        ++fx::g_guard.progress;
        if (sg || threw) { ++c_unj_sig; return O_CRASH; }
        if (hazard) {
            if (!memcmp(ad, exp.data(), sizeof(T) * j.total)) ++c_unj_snap;
            else if (!memcmp(ad, sim.data(), sizeof(T) * j.total)) ++c_unj_inplace;
            else ++c_unj_other;
        }
        frame_check(false);
        return O_UNJUDGED;
    }
    void note_state() { states.insert(fx::hash_bytes(ad, sizeof(T) * j.total)); }

    void finish() {
        frame_check(true);
        fx.route("mc.transitions", c_trans); fx.route("mc.states", states.n + 1); fx.route("mc.depth.max", (uint64_t)depth_max);
        auto r = [&](const char* nm, uint64_t v) { if (v) fx.route(std::string(j.kind) + "." + nm, v); };
        r("judged", c_judged); r("judged.noalias_hazardous", c_hazard_na); r("judged.plain_coincident", c_plain_same); r("judged.plain_disjoint", c_plain_disj);
        r("unjudged.partial_overlap", c_unj); r("unjudged.behaved_like_snapshot", c_unj_snap); r("unjudged.behaved_in_place", c_unj_inplace);
        r("unjudged.behaved_otherwise", c_unj_other); r("unjudged.signal", c_unj_sig); r("excluded.domain", c_excl); r("excluded.any_order_guard", c_unj_skip);
        r("literal_form", c_lit);
        if (states.full) fx.note("state hash set full: mc.states is a lower bound");
    }

    // ---------------------------------------------------------------------------------------------------------------
    // depth 1, sequence kinds: every pair of equal-extent range tuples with per-axis steps <= smax[axis]
    // ---------------------------------------------------------------------------------------------------------------
    void depth1_seq(int op, int f, const int* smax, int thin_outer) {
        depth_max = 1;
        apply_fn fn = j.ap[op][f], fl = j.lit[op][f];
        std::vector<std::pair<R1, R1>> PL[3];
        for (int a = 0; a < j.rank; ++a) {
            std::vector<R1> rs = all_ranges(j.dims[a], smax[a]);
            for (auto& x : rs) for (auto& y : rs) if (x.n == y.n) PL[a].push_back({x, y});
            if (a + 1 < j.rank && thin_outer > 1) {   // keep every thin_outer-th pair of the outer axes, always keeping the aligned pair families
                std::vector<std::pair<R1, R1>> keep; size_t c = 0;
                for (auto& p : PL[a]) { bool aligned = p.first.f == p.second.f && p.first.s == p.second.s; if (aligned || (c++ % thin_outer) == 0) keep.push_back(p); }
                PL[a].swap(keep);
            }
        }
        set_init(0);
        size_t idx[3] = {0, 0, 0}; uint64_t counter = 0;
        R1 r1[3], r2[3], r3[3];
        for (;;) {
            for (int a = 0; a < j.rank; ++a) { r1[a] = PL[a][idx[a]].first; r2[a] = PL[a][idx[a]].second; }
            const int variant = (int)(counter & 1), la = j.rank - 1;
            // second source: alternately the destination itself and the source moved by one along the last axis
            for (int a = 0; a < j.rank; ++a) r3[a] = r1[a];
            int r3sel = 0;
            if (f == F_SUM && (counter >> 1 & 1)) {
                for (int a = 0; a < j.rank; ++a) r3[a] = r2[a];
                if (r_last_tight(r2[la]) < j.dims[la]) { r3[la].f += 1; r3sel = 1; } else if (r2[la].f > 0) { r3[la].f -= 1; r3sel = 2; } else r3sel = 3;
            }
            set_range(1, r1, variant); set_range(2, r2, !variant); set_range(3, r3, variant);
            n = positions(r1, d); positions(r2, s); positions(r3, t);
            for (int na = na_from; na <= na_to; ++na) {
                const bool lit = fl && (counter % 5 == 0);
                fx.pt("init=0,na=%lld,lit=%lld,dst=%lld,src=%lld,src2=%lld", na, (int)lit, pack(g.r[1], j.rank), pack(g.r[2], j.rank), pack(g.r[3], j.rank));
                load(init.data());
                if (!lit) j.make(vbuf, ap, &g); else ++c_lit;
                int o = step(lit ? fl : fn, op, f, na);
                if (o != O_EXCLUDED && o != O_CRASH) note_state();
            }
            (void)r3sel;
            ++counter;
            int a = j.rank - 1;
            for (; a >= 0; --a) { if (++idx[a] < PL[a].size()) break; idx[a] = 0; }
            if (a < 0) break;
        }
        // second initial contents on the pairs whose extent along the last axis straddles a vector boundary
        set_init(1);
        idx[0] = idx[1] = idx[2] = 0; counter = 0;
        for (;;) {
            for (int a = 0; a < j.rank; ++a) { r1[a] = PL[a][idx[a]].first; r2[a] = PL[a][idx[a]].second; r3[a] = r2[a]; }
            const int la = j.rank - 1;
            const bool pick = (counter % 7 == 0);
            if (pick) {
                if (r2[la].f > 0) r3[la].f -= 1;
                set_range(1, r1, 0); set_range(2, r2, 0); set_range(3, r3, 0);
                n = positions(r1, d); positions(r2, s); positions(r3, t);
                fx.pt("init=1,na=1,lit=0,dst=%lld,src=%lld,src2=%lld", pack(g.r[1], j.rank), pack(g.r[2], j.rank), pack(g.r[3], j.rank));
                load(init.data()); j.make(vbuf, ap, &g);
                int o = step(fn, op, f, 1);
                if (o != O_EXCLUDED && o != O_CRASH) note_state();
            }
            ++counter;
            int a = j.rank - 1;
            for (; a >= 0; --a) { if (++idx[a] < PL[a].size()) break; idx[a] = 0; }
            if (a < 0) break;
        }
        finish();
    }

    // ---------------------------------------------------------------------------------------------------------------
    // fixed (compile-time) ranges: the statement is one point; both forms, both initial contents
    // ---------------------------------------------------------------------------------------------------------------
    void fixed_positions() {
        R1 r[3][3];
        for (int w = 1; w <= 3; ++w) for (int a = 0; a < j.rank; ++a) {
            int F = g.r[w][a][0], L = g.r[w][a][1], S = g.r[w][a][2];
            r[w - 1][a] = R1{F, S, (L - F + S - 1) / S};
        }
        n = positions(r[0], d); positions(r[1], s); positions(r[2], t);
    }
    void depth1_fixed(int op, int f, int na) {
        depth_max = 1;
        fixed_positions();
        for (int sc = 0; sc < 2; ++sc) for (int lit = 0; lit < 2; ++lit) {
            apply_fn fn = lit ? j.lit[op][f] : j.ap[op][f];
            if (!fn) continue;
            set_init(sc); load(init.data());
            fx.pt("init=%lld,na=%lld,lit=%lld", sc, na, lit);
            if (!lit) j.make(vbuf, ap, &g); else ++c_lit;
            int o = step(fn, op, f, na);
            if (o != O_EXCLUDED && o != O_CRASH) note_state();
        }
        finish();
    }

    // ---------------------------------------------------------------------------------------------------------------
    // index-tensor kinds
    // ---------------------------------------------------------------------------------------------------------------
    void put_index(int which, int axis, const int* v, int K) {
        // Tensor<int,K> is a plain aligned array of K ints: the object was placement-constructed by the case; write its data
        int* p = (int*)itbuf[which][axis];
        for (int i = 0; i < K; ++i) p[i] = v[i];
    }
    // 1-D: destination every duplicate-free K-vector, source every K-vector over [0,N)   (exhaustive = true)
    // or both from the structured family (exhaustive = false; long vectors)
    void depth1_idx1(int op, int f, int K, bool exhaustive) {
        depth_max = 1;
        const int N = j.total;
        apply_fn fn = j.ap[op][f], fl = j.lit[op][f];
        set_init(0);
        uint64_t counter = 0;
        auto one = [&](const int* dv, const int* sv, const int* tv, long long dcode, long long scode) {
            for (int k = 0; k < K; ++k) { d[k] = dv[k]; s[k] = sv[k]; t[k] = tv[k]; }
            n = K; put_index(1, 0, dv, K); put_index(2, 0, sv, K); put_index(3, 0, tv, K);
            for (int na = na_from; na <= na_to; ++na) {
                const bool lit = fl && (counter % 5 == 0);
                fx.pt("na=%lld,lit=%lld,dst=%lld,src=%lld,src2sel=%lld", na, (int)lit, dcode, scode, (long long)(counter & 1));
                load(init.data());
                if (!lit) j.make(vbuf, ap, &g); else ++c_lit;
                int o = step(lit ? fl : fn, op, f, na);
                if (o != O_EXCLUDED && o != O_CRASH) note_state();
            }
            ++counter;
        };
        if (exhaustive) {
            std::vector<int> dv(K, 0), sv(K, 0), tv(K, 0);
            do {
                if (!dupfree_arr(dv.data(), K)) continue;
                std::fill(sv.begin(), sv.end(), 0);
                do {
                    // second source: alternately the destination itself and the source reversed
                    for (int k = 0; k < K; ++k) tv[k] = (counter & 1) ? sv[K - 1 - k] : dv[k];
                    long long dc = 0, sc = 0; for (int k = 0; k < K; ++k) { dc = dc * 100 + dv[k]; sc = sc * 100 + sv[k]; }
                    one(dv.data(), sv.data(), tv.data(), dc, sc);
                } while (next_vec(sv.data(), K, N));
            } while (next_vec(dv.data(), K, N));
        } else {
            std::vector<IVec> fam = index_family(K, N);
            for (size_t a = 0; a < fam.size(); ++a) {
                if (!fam[a].dupfree) continue;
                for (size_t b = 0; b < fam.size(); ++b) {
                    const std::vector<int>& tv = (counter & 1) ? fam[(b + 1) % fam.size()].v : fam[a].v;
                    one(fam[a].v.data(), fam[b].v.data(), tv.data(), (long long)a, (long long)b);
                }
            }
            fx.note("dst/src in the point are indices into alias::index_family(K,N) (ident/rev/stride/rot/walk/swap_pairs/all_same/pair_repeat/alt_two)");
        }
        finish();
    }
    // 2-D: A(it0,it1): destination every duplicate-free row vector x duplicate-free column vector, source every vector pair
    void depth1_idx2(int op, int f, int K0, int K1) {
        depth_max = 1;
        const int M = j.dims[0], N = j.dims[1];
        apply_fn fn = j.ap[op][f], fl = j.lit[op][f];
        set_init(0);
        uint64_t counter = 0;
        std::vector<int> dr(K0, 0), dc(K1, 0), sr(K0, 0), sc(K1, 0), tr(K0), tc(K1);
        do { if (!dupfree_arr(dr.data(), K0)) continue;
          std::fill(dc.begin(), dc.end(), 0);
          do { if (!dupfree_arr(dc.data(), K1)) continue;
            std::fill(sr.begin(), sr.end(), 0);
            do { std::fill(sc.begin(), sc.end(), 0);
              do {
                for (int i = 0; i < K0; ++i) tr[i] = (counter & 1) ? sr[K0 - 1 - i] : dr[i];
                for (int k = 0; k < K1; ++k) tc[k] = (counter & 1) ? sc[K1 - 1 - k] : dc[k];
                n = 0;
                for (int i = 0; i < K0; ++i) for (int k = 0; k < K1; ++k) { d[n] = dr[i] * N + dc[k]; s[n] = sr[i] * N + sc[k]; t[n] = tr[i] * N + tc[k]; ++n; }
                put_index(1, 0, dr.data(), K0); put_index(1, 1, dc.data(), K1); put_index(2, 0, sr.data(), K0); put_index(2, 1, sc.data(), K1);
                put_index(3, 0, tr.data(), K0); put_index(3, 1, tc.data(), K1);
                long long c1 = 0, c2 = 0;
                for (int i = 0; i < K0; ++i) { c1 = c1 * 10 + dr[i]; c2 = c2 * 10 + sr[i]; }
                for (int k = 0; k < K1; ++k) { c1 = c1 * 10 + dc[k]; c2 = c2 * 10 + sc[k]; }
                for (int na = na_from; na <= na_to; ++na) {
                    const bool lit = fl && (counter % 5 == 0);
                    fx.pt("na=%lld,lit=%lld,dst_rows_cols=%lld,src_rows_cols=%lld,src2sel=%lld", na, (int)lit, c1, c2, (long long)(counter & 1));
                    load(init.data());
                    if (!lit) j.make(vbuf, ap, &g); else ++c_lit;
                    int o = step(lit ? fl : fn, op, f, na);
                    if (o != O_EXCLUDED && o != O_CRASH) note_state();
                }
                ++counter;
              } while (next_vec(sc.data(), K1, N));
            } while (next_vec(sr.data(), K0, M));
          } while (next_vec(dc.data(), K1, N));
        } while (next_vec(dr.data(), K0, M));
        finish();
    }
    // mask destination (every mask over N positions), sources = index views over a family of maps [0,N) -> [0,N)
    std::vector<IVec> mask_maps(int N) {
        std::vector<IVec> fam = index_family(N, N), out;
        for (auto& m : fam) {   // identity, reversal, rotations, stride permutations, swap pairs, all-same, pair-repeat
            out.push_back(m);
        }
        return out;
    }
    void depth1_mask1(int op, int f) {
        depth_max = 1;
        const int N = j.total;
        apply_fn fn = j.ap[op][f], fl = j.lit[op][f];
        set_init(0);
        std::vector<IVec> maps = mask_maps(N);
        uint64_t counter = 0;
        bool* mk_ = (bool*)itbuf[1][0];
        for (unsigned m = 1; m < (1u << N); ++m) {
            for (int i = 0; i < N; ++i) mk_[i] = (m >> i) & 1;
            for (size_t b = 0; b < maps.size(); ++b) {
                const std::vector<int>& sv = maps[b].v;
                const std::vector<int>& tv = (counter & 1) ? maps[(b + 1) % maps.size()].v : maps[0].v;   // maps[0] = identity
                n = 0;
                for (int i = 0; i < N; ++i) if (mk_[i]) { d[n] = i; s[n] = sv[i]; t[n] = tv[i]; ++n; }
                put_index(2, 0, sv.data(), N); put_index(3, 0, tv.data(), N);
                for (int na = na_from; na <= na_to; ++na) {
                    const bool lit = fl && (counter % 5 == 0);
                    fx.pt("na=%lld,lit=%lld,mask=%lld,srcmap=%lld,src2sel=%lld", na, (int)lit, (long long)m, (long long)b, (long long)(counter & 1));
                    load(init.data());
                    if (!lit) j.make(vbuf, ap, &g); else ++c_lit;
                    int o = step(lit ? fl : fn, op, f, na);
                    if (o != O_EXCLUDED && o != O_CRASH) note_state();
                }
                ++counter;
            }
        }
        fx.note("srcmap in the point indexes alias::index_family(N,N): 0 = identity (source coincides with the destination)");
        finish();
    }

    // ---------------------------------------------------------------------------------------------------------------
    // depth <= maxdepth BFS over an alphabet of actions on ONE retained view object; every path is executed on the
    // real code by replaying its history on a freshly constructed view (so the flag really is the object's own)
    // ---------------------------------------------------------------------------------------------------------------
    struct Node { std::vector<T> contents; std::vector<uint16_t> hist; };
    void load_action(const Action& a) {
        g = a.g; n = a.n;
        for (int k = 0; k < n; ++k) { d[k] = a.d[k]; s[k] = a.s[k]; t[k] = a.t[k]; }
    }
    // index tensors / masks referenced by an action live in itbuf; `bind` re-writes them for the action (idx / mask kinds)
    void bfs(const std::vector<Action>& acts, const Args& root, int maxdepth, int scheme, int root_id,
             void (*bind)(Drv<T>&, const Action&) = nullptr) {
        set_init(scheme);
        std::vector<Node> frontier(1), next;
        frontier[0].contents = init;
        states.insert(fx::mix64(fx::hash_bytes(init.data(), sizeof(T) * j.total), (uint64_t)root_id));
        for (int depth = 1; depth <= maxdepth; ++depth) {
            next.clear();
            for (const Node& nd : frontier) {
                for (size_t ai = 0; ai < acts.size(); ++ai) {
                    // replay the history on a fresh view object
                    load(init.data());
                    g = root; j.make(vbuf, ap, &g);
                    bool replay_ok = true;
                    for (uint16_t h : nd.hist) {
                        const Action& pa = acts[h];
                        if (bind) bind(*this, pa);
                        int sg = fx::guarded([&] { try { pa.fn(vbuf, ap, &pa.g, pa.na); } catch (...) {} });
                        if (sg) { replay_ok = false; break; }
                    }
                    long long hc[3] = {-1, -1, -1};
                    for (size_t q = 0; q < nd.hist.size() && q < 3; ++q) hc[q] = acts[nd.hist[q]].code;
                    fx.pt("root=%lld,init=%lld,depth=%lld,hist=%lld;%lld,then=%lld", root_id, scheme, depth, hc[0], hc[1], (long long)acts[ai].code);
                    if (!replay_ok || memcmp(ad, nd.contents.data(), sizeof(T) * j.total)) {
                        fx.verdict(false, 0, true, "history replay did not reproduce the recorded state (non-deterministic or flag-dependent behaviour)");
                        continue;
                    }
                    const Action& a = acts[ai];
                    load_action(a);
                    if (bind) bind(*this, a);
                    int o = step(a.fn, a.op, a.f, a.na);
                    if (o == O_EXCLUDED || o == O_CRASH || o == O_FAIL) continue;     // a failed transition is reported, not expanded
                    if (depth > depth_max) depth_max = depth;
                    uint64_t h = fx::mix64(fx::hash_bytes(ad, sizeof(T) * j.total), (uint64_t)root_id);
                    if (states.insert(h) && depth < maxdepth) {
                        Node c; c.contents.assign(ad, ad + j.total); c.hist = nd.hist; c.hist.push_back((uint16_t)ai); next.push_back(std::move(c));
                    }
                }
            }
            frontier.swap(next);
        }
    }
};

// ---- case entry points (called from the generated case bodies) ----------------------------------------------------------
template <class T> static FX_NOINLINE void run_seq(fx::Ctx& fx, const Job<T>& j, int op, int f, int s0, int s1, int s2, int thin) {
    Drv<T> d(fx, j); int sm[3] = {s0, s1, s2}; d.depth1_seq(op, f, sm, thin);
}
template <class T> static FX_NOINLINE void run_fixed(fx::Ctx& fx, const Job<T>& j, const Args& g, int op, int f, int na) {
    Drv<T> d(fx, j, 8); d.g = g; for (int w = 0; w < 4; ++w) for (int a = 0; a < 2; ++a) d.g.it[w][a] = d.itbuf[w][a];
    d.depth1_fixed(op, f, na);
}
template <class T> static FX_NOINLINE void run_idx1(fx::Ctx& fx, const Job<T>& j, int op, int f, int K, int exhaustive) {
    Drv<T> d(fx, j); d.depth1_idx1(op, f, K, exhaustive != 0);
}
template <class T> static FX_NOINLINE void run_idx2(fx::Ctx& fx, const Job<T>& j, int op, int f, int K0, int K1) {
    Drv<T> d(fx, j); d.depth1_idx2(op, f, K0, K1);
}
template <class T> static FX_NOINLINE void run_mask1(fx::Ctx& fx, const Job<T>& j, int op, int f, int na) {
    Drv<T> d(fx, j); d.na_from = d.na_to = na; d.depth1_mask1(op, f);
}

// BFS, sequence kinds: roots and relative source selections are generated here (run time)
template <class T> static FX_NOINLINE void run_bfs_seq(fx::Ctx& fx, const Job<T>& j, int W, int maxdepth, unsigned opmask, unsigned fmask, int srcmax) {
    Drv<T> d(fx, j, 20);
    const int la = j.rank - 1, NL = j.dims[la];
    // roots: a contiguous and a strided destination along the last axis, all of the outer axes / one outer index
    struct Root { R1 r[3]; };
    std::vector<Root> roots;
    {
        Root a; for (int x = 0; x < la; ++x) a.r[x] = R1{0, 1, j.dims[x]};
        int nn = std::min(W + 1, NL - 2); if (nn < 1) nn = 1;
        a.r[la] = R1{1, 1, nn}; roots.push_back(a);
        Root b = a; for (int x = 0; x < la; ++x) b.r[x] = R1{j.dims[x] - 1, 1, 1};
        int ns = std::min(W + 1, (NL - 1) / 2); if (ns >= 2) { b.r[la] = R1{1, 2, ns}; roots.push_back(b); }
    }
    int rid = 0;
    for (auto& rt : roots) {
        // source selections relative to the root: same, +1, -1, +2 along the last axis; other stride; disjoint; moved along axis 0
        std::vector<Root> srcs;
        auto fits = [&](const Root& q) { for (int x = 0; x < j.rank; ++x) if (q.r[x].f < 0 || r_last_tight(q.r[x]) > j.dims[x]) return false; return true; };
        auto add = [&](Root q) { if (fits(q)) srcs.push_back(q); };
        add(rt);
        { Root q = rt; q.r[la].f += 1; add(q); } { Root q = rt; q.r[la].f -= 1; add(q); } { Root q = rt; q.r[la].f += 2; add(q); }
        { Root q = rt; q.r[la].s = rt.r[la].s == 1 ? 2 : 1; q.r[la].f = 0; add(q); }
        { Root q = rt; q.r[la].f = r_last_tight(rt.r[la]); add(q); }
        if (la > 0) { Root q = rt; if (rt.r[0].n < j.dims[0]) { q.r[0].f = (rt.r[0].f + 1) % j.dims[0]; add(q); } }
        if ((int)srcs.size() > srcmax) srcs.resize(srcmax);
        std::vector<Action> acts;
        Drv<T>& D = d;
        D.set_range(1, rt.r, 0);
        Args rootargs = D.g;
        for (int na = 0; na < 2; ++na) for (int op = 0; op < 5; ++op) for (int f = 0; f < 4; ++f) {
            if (!(opmask >> op & 1) || !(fmask >> f & 1) || !j.ap[op][f]) continue;
            for (size_t si = 0; si < srcs.size(); ++si) {
                Action a; a.fn = j.ap[op][f]; a.op = op; a.f = f; a.na = na; a.code = na * 1000 + op * 100 + f * 10 + (int)si;
                D.set_range(1, rt.r, 0); D.set_range(2, srcs[si].r, 0);
                const Root& third = srcs[(si + 1) % srcs.size()];
                D.set_range(3, f == F_SUM ? third.r : srcs[si].r, 0);
                a.g = D.g; a.d.resize(128); a.s.resize(128); a.t.resize(128);
                a.n = D.positions(rt.r, a.d.data()); D.positions(srcs[si].r, a.s.data()); D.positions(f == F_SUM ? third.r : srcs[si].r, a.t.data());
                acts.push_back(a);
            }
        }
        D.g = rootargs;
        D.bfs(acts, rootargs, maxdepth, 0, rid);
        ++rid;
    }
    fx.note("bfs action code = na*1000 + op*100 + f*10 + srcsel; srcsel: 0 same, 1..3 shifted +1/-1/+2 along the last axis, then other-stride, disjoint-adjacent, next outer index (those that fit)");
    d.finish();
}
// BFS, fixed ranges: the alphabet is the list of thunks of the case (each with its own compile-time sources), x noalias on/off
template <class T> struct FixedAlphabet { std::vector<Action> acts; Args root; bool have_root = false; };
template <class T, class K, int OP, int F> static inline void add_fixed(FixedAlphabet<T>& fa, Drv<T>& d) {
    Args g; memset(&g, 0, sizeof g); K::ranges(g);
    for (int w = 0; w < 4; ++w) for (int a = 0; a < 2; ++a) g.it[w][a] = d.itbuf[w][a];
    if (!fa.have_root) { fa.root = g; fa.have_root = true; }
    for (int na = 0; na < 2; ++na) {
        Action a; a.fn = &th<K, OP, F, 0>; a.op = OP; a.f = F; a.na = na; a.g = g; a.code = na * 1000 + (int)(fa.acts.size() / 2);
        d.g = g; d.fixed_positions();
        a.n = d.n; a.d.assign(d.d, d.d + 128); a.s.assign(d.s, d.s + 128); a.t.assign(d.t, d.t + 128);
        fa.acts.push_back(a);
    }
}
template <class T> static FX_NOINLINE void run_bfs_fixed(fx::Ctx& fx, Drv<T>& d, FixedAlphabet<T>& fa, int maxdepth) {
    d.bfs(fa.acts, fa.root, maxdepth, 0, 0);
    d.bfs(fa.acts, fa.root, maxdepth > 2 ? 2 : maxdepth, 1, 1);
    fx.note("bfs action code = na*1000 + index of the statement in the case's list");
    d.finish();
}
// BFS, index-tensor (1-D) and mask kinds
template <class T> static void bind_idx(Drv<T>& d, const Action& a) {
    // the action carries its index vectors in d/s/t (1-D: positions ARE the index values)
    d.put_index(1, 0, a.d.data(), a.n); d.put_index(2, 0, a.s.data(), a.n); d.put_index(3, 0, a.t.data(), a.n);
}
template <class T> static FX_NOINLINE void run_bfs_idx1(fx::Ctx& fx, const Job<T>& j, int K, int maxdepth, unsigned opmask, unsigned fmask) {
    Drv<T> d(fx, j, 20);
    const int N = j.total;
    std::vector<IVec> fam = index_family(K, N);
    int rid = 0;
    for (size_t ri = 0; ri < fam.size() && rid < 2; ++ri) {
        if (!fam[ri].dupfree || (rid == 1 && std::string(fam[ri].name) != "stride" && std::string(fam[ri].name) != "rev")) continue;
        std::vector<Action> acts;
        for (int na = 0; na < 2; ++na) for (int op = 0; op < 5; ++op) for (int f = 0; f < 4; ++f) {
            if (!(opmask >> op & 1) || !(fmask >> f & 1) || !j.ap[op][f]) continue;
            int cnt = 0;
            for (size_t si = 0; si < fam.size() && cnt < 6; ++si) {
                if (si % 3 == 2 && si != ri) continue;
                Action a; a.fn = j.ap[op][f]; a.op = op; a.f = f; a.na = na; a.code = na * 10000 + op * 1000 + f * 100 + (int)si; a.g = d.g; a.n = K;
                a.d = fam[ri].v; a.s = fam[si].v; a.t = f == F_SUM ? fam[(si + 1) % fam.size()].v : fam[si].v;
                acts.push_back(a); ++cnt;
            }
        }
        d.put_index(1, 0, fam[ri].v.data(), K);
        d.bfs(acts, d.g, maxdepth, 0, rid, &bind_idx<T>);
        ++rid;
    }
    fx.note("bfs action code = na*10000 + op*1000 + f*100 + source index into alias::index_family(K,N)");
    d.finish();
}
template <class T> static void bind_mask(Drv<T>& d, const Action& a) {
    // a.g.r[1][0][0] carries the mask bits, a.g.r[2][0][0] / r[3][0][0] the map indices; the maps are regenerated (cheap, N <= 12)
    const int N = d.j.total; unsigned m = (unsigned)a.g.r[1][0][0];
    bool* mk_ = (bool*)d.itbuf[1][0]; for (int i = 0; i < N; ++i) mk_[i] = (m >> i) & 1;
    static std::vector<IVec> maps; static int mapsN = -1;
    if (mapsN != N) { maps = index_family(N, N); mapsN = N; }
    d.put_index(2, 0, maps[a.g.r[2][0][0]].v.data(), N); d.put_index(3, 0, maps[a.g.r[3][0][0]].v.data(), N);
}
template <class T> static FX_NOINLINE void run_bfs_mask1(fx::Ctx& fx, const Job<T>& j, int maxdepth, unsigned opmask, unsigned fmask) {
    Drv<T> d(fx, j, 20);
    const int N = j.total;
    std::vector<IVec> maps = index_family(N, N);
    const unsigned roots[2] = {0x2DBu & ((1u << N) - 1), 0x155u & ((1u << N) - 1)};
    for (int rid = 0; rid < 2; ++rid) {
        std::vector<Action> acts;
        for (int na = 0; na < 2; ++na) for (int op = 0; op < 5; ++op) for (int f = 0; f < 4; ++f) {
            if (!(opmask >> op & 1) || !(fmask >> f & 1) || !j.ap[op][f]) continue;
            int cnt = 0;
            for (size_t si = 0; si < maps.size() && cnt < 5; ++si) {
                if (si % 4 == 3) continue;
                Action a; a.fn = j.ap[op][f]; a.op = op; a.f = f; a.na = na; a.code = na * 10000 + op * 1000 + f * 100 + (int)si; a.g = d.g;
                size_t ti = f == F_SUM ? (si + 1) % maps.size() : si;
                a.g.r[1][0][0] = (int)roots[rid]; a.g.r[2][0][0] = (int)si; a.g.r[3][0][0] = (int)ti;
                a.n = 0; a.d.resize(128); a.s.resize(128); a.t.resize(128);
                for (int i = 0; i < N; ++i) if (roots[rid] >> i & 1) { a.d[a.n] = i; a.s[a.n] = maps[si].v[i]; a.t[a.n] = maps[ti].v[i]; ++a.n; }
                acts.push_back(a); ++cnt;
            }
        }
        bool* mk_ = (bool*)d.itbuf[1][0]; for (int i = 0; i < N; ++i) mk_[i] = (roots[rid] >> i) & 1;
        d.bfs(acts, d.g, maxdepth, 0, rid, &bind_mask<T>);
    }
    fx.note("bfs action code = na*10000 + op*1000 + f*100 + source map index into alias::index_family(N,N); root masks 0x2DB, 0x155");
    d.finish();
}

// placement-construct the harness-owned index tensors / mask of a case (so the objects exist as Fastor tensors)
template <class T, class IT> static inline void make_index_objects(Drv<T>& d, int axis) {
    static_assert(sizeof(IT) <= 1024 && std::is_trivially_destructible<IT>::value, "index tensor buffer");
    for (int w = 1; w <= 3; ++w) new (d.itbuf[w][axis]) IT();
}

} // namespace c18
