// c13.h - QR factors are orthonormal and upper triangular and reproduce the matrix  (property C13)
#pragma once
#include "linalg_common.h"
#include <Fastor/Fastor.h>

namespace c13 {
using namespace Fastor;
using la::ld; using la::Mat;

enum PEnc { P_NONE = 0, P_VEC = 1, P_MAT = 2 };
enum Kind { K_QR = 0, K_DET = 1, K_HHR = 2 };
template <int PENC, int EXPR> struct Tag {};
template <class T, size_t N> static inline void do_qr(Tag<P_NONE, 0>, const Tensor<T, N, N>& a, Tensor<T, N, N>& q, Tensor<T, N, N>& r, void*) { qr<QRCompType::MGSR>(a, q, r); }
template <class T, size_t N> static inline void do_qr(Tag<P_NONE, 1>, const Tensor<T, N, N>& a, Tensor<T, N, N>& q, Tensor<T, N, N>& r, void*) { qr<QRCompType::MGSR>(a + 0, q, r); }
template <class T, size_t N> static inline void do_qr(Tag<P_VEC, 0>, const Tensor<T, N, N>& a, Tensor<T, N, N>& q, Tensor<T, N, N>& r, void* p) { qr<QRCompType::MGSRPiv>(a, q, r, *static_cast<Tensor<size_t, N>*>(p)); }
template <class T, size_t N> static inline void do_qr(Tag<P_VEC, 1>, const Tensor<T, N, N>& a, Tensor<T, N, N>& q, Tensor<T, N, N>& r, void* p) { qr<QRCompType::MGSRPiv>(a + 0, q, r, *static_cast<Tensor<size_t, N>*>(p)); }
template <class T, size_t N> static inline void do_qr(Tag<P_MAT, 0>, const Tensor<T, N, N>& a, Tensor<T, N, N>& q, Tensor<T, N, N>& r, void* p) { qr<QRCompType::MGSRPiv>(a, q, r, *static_cast<Tensor<T, N, N>*>(p)); }
template <class T, size_t N> static inline void do_qr(Tag<P_MAT, 1>, const Tensor<T, N, N>& a, Tensor<T, N, N>& q, Tensor<T, N, N>& r, void* p) { qr<QRCompType::MGSRPiv>(a + 0, q, r, *static_cast<Tensor<T, N, N>*>(p)); }

template <class T, size_t N, int PENC, int EXPR> static FX_NOINLINE void thunk(const void* ap, void* qp, void* rp, void* pp) {
    fx::escape(ap); fx::escape(qp); fx::escape(rp); fx::escape(pp);
    do_qr<T, N>(Tag<PENC, EXPR>(), *static_cast<const Tensor<T, N, N>*>(ap), *static_cast<Tensor<T, N, N>*>(qp), *static_cast<Tensor<T, N, N>*>(rp), pp);
    fx::clobber();
}
// Householder QR: declared in the enum, rejected by a static_assert in the library (recorded, not judged)
template <class T, size_t N> static FX_NOINLINE void thunk_hhr(const void* ap, void* qp, void* rp, void*) {
    fx::escape(ap); fx::escape(qp); fx::escape(rp);
    qr<QRCompType::HHR>(*static_cast<const Tensor<T, N, N>*>(ap), *static_cast<Tensor<T, N, N>*>(qp), *static_cast<Tensor<T, N, N>*>(rp));
    fx::clobber();
}
template <class T, size_t N, int EXPR> struct DetCall;
template <class T, size_t N> struct DetCall<T, N, 0> { static T go(const Tensor<T, N, N>& a) { return determinant<DetCompType::QR>(a); } };
template <class T, size_t N> struct DetCall<T, N, 1> { static T go(const Tensor<T, N, N>& a) { return determinant<DetCompType::QR>(a + 0); } };
template <class T, size_t N, int EXPR> static FX_NOINLINE void det_thunk(const void* ap, T* out) {
    fx::escape(ap); fx::escape(out);
    *out = DetCall<T, N, EXPR>::go(*static_cast<const Tensor<T, N, N>*>(ap));
    fx::clobber();
}

template <class T> struct Job {
    size_t n, sizeofM, sizeofP;
    int kind, penc, expr, group;
    void (*call)(const void*, void*, void*, void*);
    void (*det)(const void*, T*);
};

template <class T> struct Driver {
    fx::Ctx& fx; const Job<T>& j;
    const size_t n, nn; const ld u;
    T *a, *q, *r; unsigned char *qp, *rp, *pp;
    Driver(fx::Ctx& f, const Job<T>& jj) : fx(f), j(jj), n(jj.n), nn(jj.n * jj.n), u(la::U<T>()) {
        for (int i = 0; i < 4; ++i) fx.arena[i].paint();
        qp = fx.arena[0].place_mid(j.sizeofM, 64); q = (T*)qp;
        rp = fx.arena[2].place_mid(j.sizeofM, 64); r = (T*)rp;
        pp = fx.arena[3].place_mid(j.sizeofP ? j.sizeofP : 64, 64);
        a = (T*)(fx.arena[1].lo + 256);
    }
    void reset() { memset(qp, fx::Arena::CAN, j.sizeofM); memset(rp, fx::Arena::CAN, j.sizeofM); if (j.sizeofP) memset(pp, fx::Arena::CAN, j.sizeofP); }

    // |det A| in long double: exact for the integer families (n <= 12), else from a partially pivoted elimination
    ld abs_det(const Mat& A, const la::Member& mem, bool* exact) {
        *exact = false;
        if (la::fam_is_integer(mem.fam) && n <= 12) {
            std::vector<long long> ai(nn); for (size_t i = 0; i < nn; ++i) ai[i] = (long long)A[i];
            la::Exact e = la::exact_adjugate(ai, n);
            if (e.ok) { *exact = true; return la::absl(la::i128_to_ld(e.det)); }
        }
        Mat M(A); ld d = 1;
        for (size_t k = 0; k < n; ++k) {
            size_t p = k; for (size_t i = k + 1; i < n; ++i) if (la::absl(M[i * n + k]) > la::absl(M[p * n + k])) p = i;
            if (p != k) for (size_t c = 0; c < n; ++c) std::swap(M[p * n + c], M[k * n + c]);
            d *= M[k * n + k]; if (M[k * n + k] == 0) return 0;
            for (size_t i = k + 1; i < n; ++i) { ld f = M[i * n + k] / M[k * n + k]; for (size_t c = k; c < n; ++c) M[i * n + c] -= f * M[k * n + c]; }
        }
        return la::absl(d);
    }

    void one_matrix(const la::Member& mem) {
        la::Measured m; la::make_member<T>(mem, n, a, m.A); la::measure<T>(m, n, false);
        const Mat& A = m.A;
        const std::string fam = la::FAM_NAME[mem.fam];
        const uint64_t h = fx::hash_bytes(a, nn * sizeof(T));
        fx.pt(la::FAM_PT[mem.fam], (long long)mem.perm, -1LL, 0LL);
        if (j.kind == K_DET) {
            // determinant<DetCompType::QR>(A) = product of R's diagonal (positive for Gram-Schmidt), i.e. |det A| within the bound
            // every partial product of R's diagonal lies in [min(1,smin)^n, max(1,smax)^n]; outside T's normal range the scalar product
            // overflows / underflows and the determinant is not representable: explored, counted, not judged
            {
                const ld hi = powl(m.smax > 1 ? m.smax : 1.0L, (ld)n), lo = powl(m.smin < 1 ? m.smin : 1.0L, (ld)n);
                const ld tmax = (ld)std::numeric_limits<T>::max(), tmin = (ld)std::numeric_limits<T>::min();
                if (!(hi < tmax * 1.0e-3L) || !(lo > tmin / u)) { T dd; fx.run([&] { j.det(a, &dd); }); fx.route("det.out_of_range.not_judged"); return; }
            }
            T d = fxv::sentinel<T>::v();
            if (!fx.run([&] { j.det(a, &d); })) return;
            bool exact; const ld ref = abs_det(A, mem, &exact);
            Mat Ai(nn); la::inverse_ld(A.data(), Ai.data(), n);
            const ld kF = m.normF * la::fro(Ai.data(), nn);                       // |d det| <= |det| ||A^-1||_F ||dA||_F, ||dA||_F <= c n u ||A||_F
            // A + dA = Q R with ||Q^T Q - I||_F <= c n u kappa_2: |det Q| = 1 + O(sqrt(n) c n u kappa_2); + rounding of the n-term product
            const ld bound = la::CONST_C * (ld)n * u * (kF + sqrtl((ld)n) * m.kappa) * ref + (ld)n * u * ref;
            const ld od = la::absl((ld)d);
            std::string why;
            if (!(od <= 1.0e4000L)) why = "determinant<QR> is not finite";
            else if (!(la::absl(od - ref) <= bound)) why = "| |det_QR| - |det A| | = " + la::sci(la::absl(od - ref)) + " > " + la::sci(bound) + " = c n u (kappa_F + sqrt(n) kappa_2) |det A| (det_QR = " + fx::vstr((ld)d) + ", |det A| = " + la::sci(ref) + (exact ? ", exact" : "") + ")";
            if ((ld)d < 0) fx.route("info.det_qr_negative");
            fx.route(exact ? "det.vs_exact" : "det.vs_longdouble");
            fx.verdict(why.empty(), h, true, why);
            // the statement itself: the QR-based determinant is the product of the diagonal of the R that qr() returns for the same matrix
            if (j.call) {
                fxv::fill_const(q, nn, fxv::sentinel<T>::v()); fxv::fill_const(r, nn, fxv::sentinel<T>::v());
                if (fx.run([&] { j.call(a, qp, rp, pp); })) {
                    ld pr = 1; for (size_t i = 0; i < n; ++i) pr *= (ld)r[i * n + i];
                    const ld tol = 8 * (ld)(n + 1) * u * la::absl(pr);
                    std::string w2;
                    if (!(la::absl((ld)d - pr) <= tol)) w2 = "determinant<QR> = " + fx::vstr((ld)d) + " but product(diag(R)) of qr() = " + la::sci(pr) + " (allowed difference " + la::sci(tol) + ")";
                    fx.route("det.vs_diagR");
                    fx.verdict(w2.empty(), h ^ 0x5d1a9, true, w2);
                }
                reset();
            }
            return;
        }
        fxv::fill_const(q, nn, fxv::sentinel<T>::v()); fxv::fill_const(r, nn, fxv::sentinel<T>::v());
        if (j.penc == P_VEC) fxv::fill_const((size_t*)pp, n, (size_t)0x5A5A5A5A5A5A5A5Aull);
        if (j.penc == P_MAT) fxv::fill_const((T*)pp, nn, fxv::sentinel<T>::v());
        if (!fx.run([&] { j.call(a, qp, rp, pp); })) { reset(); return; }
        Mat Q, R; la::to_ld(q, nn, Q); la::to_ld(r, nn, R);
        std::vector<size_t> p(n); std::iota(p.begin(), p.end(), (size_t)0);
        std::string why;
        if (j.penc == P_VEC) {
            const size_t* pv = (const size_t*)pp;
            if (!la::is_bijection(pv, n)) why = "returned permutation vector is not a bijection of 0..n-1"; else for (size_t i = 0; i < n; ++i) p[i] = pv[i];
        } else if (j.penc == P_MAT) {
            const T* pm = (const T*)pp; std::vector<int> colcnt(n, 0);
            for (size_t i = 0; i < n && why.empty(); ++i) {
                int ones = 0;
                for (size_t c = 0; c < n; ++c) { if (pm[i * n + c] == T(1)) { ++ones; ++colcnt[c]; p[i] = c; } else if (!(pm[i * n + c] == T(0))) why = "P(" + std::to_string(i) + "," + std::to_string(c) + ") = " + fx::vstr(pm[i * n + c]) + " is neither 0 nor 1"; }
                if (why.empty() && ones != 1) why = "row " + std::to_string(i) + " of P holds " + std::to_string(ones) + " ones";
            }
            for (size_t c = 0; c < n && why.empty(); ++c) if (colcnt[c] != 1) why = "column " + std::to_string(c) + " of P holds " + std::to_string(colcnt[c]) + " ones";
        }
        const long long pivid = j.penc == P_NONE ? -1 : (why.empty() && la::is_identity(p) ? 1 : 0);
        fx.pt(la::FAM_PT[mem.fam], (long long)mem.perm, pivid, 0LL);
        if (why.empty() && !(la::finite_all(Q.data(), nn) && la::finite_all(R.data(), nn))) why = "non-finite entries in Q or R (unwritten entries show the sentinel, which is finite)";
        for (size_t i = 0; i < nn && why.empty(); ++i) if (q[i] == fxv::sentinel<T>::v()) why = "Q element " + std::to_string(i) + " was not written";
        // R(i,j) == 0 exactly below the diagonal
        for (size_t i = 0; i < n && why.empty(); ++i) for (size_t c = 0; c < i && why.empty(); ++c) if (!(R[i * n + c] == 0)) why = "R(" + std::to_string(i) + "," + std::to_string(c) + ") = " + fx::vstr(R[i * n + c]) + " != 0 below the diagonal";
        Mat W(nn), Qt(nn);
        if (why.empty()) {
            // orthogonality: ||Q^T Q - I||_F <= c n u kappa_2(A)
            for (size_t i = 0; i < n; ++i) for (size_t c = 0; c < n; ++c) Qt[i * n + c] = Q[c * n + i];
            la::mul(Qt.data(), Q.data(), W.data(), n, n, n);
            const ld orth = la::fro_minus_eye(W.data(), n), ob = la::CONST_C * (ld)n * u * m.kappa;
            if (!(orth <= ob)) why = "||Q^T Q - I||_F = " + la::sci(orth) + " > " + la::sci(ob) + " = c n u kappa_2(A), kappa_2 = " + la::sci(m.kappa);
            else if (orth > ob / 4) fx.route("margin.orth_above_quarter_of_bound");
        }
        if (why.empty()) {
            // reproduction: Q R = the input pivoted as the returned P says under the library's own convention (apply_pivot / reconstruct: row i of the
            // pivoted matrix is row p(i) of A)
            Mat PA; la::permute_rows(A, p.data(), n, n, PA);
            la::mul(Q.data(), R.data(), W.data(), n, n, n);
            const ld res = la::fro_diff(W.data(), PA.data(), nn), rb = la::CONST_C * (ld)n * u * m.normF;
            if (!(res <= rb)) why = "||P A - Q R||_F = " + la::sci(res) + " > " + la::sci(rb) + " = c n u ||A||_F";
            else if (res > rb / 4) fx.route("margin.repro_above_quarter_of_bound");
            if (pivid == 0) {
                // the property text speaks of a column-pivoted input (A P = Q R); the library pivots rows.  Explored, counted, not judged.
                Mat AP(nn); for (size_t i = 0; i < n; ++i) for (size_t c = 0; c < n; ++c) AP[i * n + c] = A[i * n + p[c]];
                const ld res2 = la::fro_diff(W.data(), AP.data(), nn);
                fx.route(res2 <= rb ? "info.colpivot_reading_holds" : "info.colpivot_reading_fails");
                fx.route("piv.nonidentity");
            }
        }
        fx.route("qr.judged." + fam);
        fx.verdict(why.empty(), h, true, why);
        fx.frame(0, qp, j.sizeofM, "write outside Q"); fx.frame(2, rp, j.sizeofM, "write outside R");
        if (j.penc != P_NONE) fx.frame(3, pp, j.sizeofP, "write outside P");
        reset();
    }
    void run_all() { for (const la::Member& mem : la::members<T>(j.group, n)) one_matrix(mem); }
};
template <class T> static FX_NOINLINE void run_job(fx::Ctx& fx, const Job<T>& j) { Driver<T> d(fx, j); d.run_all(); }

template <class T, size_t N, int PENC, int EXPR, int GROUP> static inline void qr_case(fx::Ctx& fx) {
    Job<T> j{N, sizeof(Tensor<T, N, N>), PENC == P_VEC ? sizeof(Tensor<size_t, N>) : PENC == P_MAT ? sizeof(Tensor<T, N, N>) : 0, K_QR, PENC, EXPR, GROUP,
             &thunk<T, N, PENC, EXPR>, nullptr};
    run_job<T>(fx, j);
}
template <class T, size_t N, int EXPR, int GROUP> static inline void det_case(fx::Ctx& fx) {
    Job<T> j{N, sizeof(Tensor<T, N, N>), 0, K_DET, P_NONE, EXPR, GROUP, &thunk<T, N, P_NONE, 0>, &det_thunk<T, N, EXPR>};
    run_job<T>(fx, j);
}
template <class T, size_t N> static inline void hhr_case(fx::Ctx& fx) {
    Job<T> j{N, sizeof(Tensor<T, N, N>), 0, K_QR, P_NONE, 0, la::G_DOM, &thunk_hhr<T, N>, nullptr};
    run_job<T>(fx, j);
}

} // namespace c13
