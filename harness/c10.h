// c10.h - inverse(A) * A = I  (property C10)
// Thin thunks (only the library call is templated on N / strategy) + one run-time-shaped driver per element type.
#pragma once
#include "linalg_common.h"
#include <Fastor/Fastor.h>

namespace c10 {
using namespace Fastor;
using la::ld; using la::Mat;

enum Kind {
    K_INV = 0,        // X = inverse<S>(A)
    K_INV_EXPR = 1,   // X = inverse<S>(A + 0)
    K_LAZY_ASSIGN = 2,   // X = inv(A)
    K_LAZY_ADD = 3,      // X += inv(A)
    K_LAZY_MUL = 4,      // X = inv(A) % A      (inv() inside a product expression)
    K_LAZY_EXPR = 5,     // X = inv(A + 0)
    K_TINV_UL = 6, K_TINV_UP = 7,   // tinverse<SimpleInv, UniLower / Upper>
    K_TINV_UU = 8, K_TINV_LO = 9,   // tinverse<SimpleInv, UniUpper / Lower>: no implementation in the library (recorded)
    K_BATCH3 = 10, K_BATCH4 = 11    // inverse over the trailing two axes of Tensor<T,3,n,n> / Tensor<T,2,2,n,n>
};

template <int S> struct Strat;
template <> struct Strat<0> { static constexpr InvCompType v = InvCompType::SimpleInv; };
template <> struct Strat<1> { static constexpr InvCompType v = InvCompType::SimpleInvPiv; };
template <> struct Strat<2> { static constexpr InvCompType v = InvCompType::BlockLU; };
template <> struct Strat<3> { static constexpr InvCompType v = InvCompType::BlockLUPiv; };
template <> struct Strat<4> { static constexpr InvCompType v = InvCompType::SimpleLU; };
template <> struct Strat<5> { static constexpr InvCompType v = InvCompType::SimpleLUPiv; };
static inline bool strat_pivoted(int s) { return s == 1 || s == 3 || s == 5; }

template <int K> struct KT {};
template <class T, size_t N, int S> static inline void do_call(KT<K_INV>, const Tensor<T, N, N>& a, Tensor<T, N, N>* x) { new (x) Tensor<T, N, N>(inverse<Strat<S>::v>(a)); }
template <class T, size_t N, int S> static inline void do_call(KT<K_INV_EXPR>, const Tensor<T, N, N>& a, Tensor<T, N, N>* x) { new (x) Tensor<T, N, N>(inverse<Strat<S>::v>(a + 0)); }
template <class T, size_t N, int S> static inline void do_call(KT<K_LAZY_ASSIGN>, const Tensor<T, N, N>& a, Tensor<T, N, N>* x) { *x = inv(a); }
template <class T, size_t N, int S> static inline void do_call(KT<K_LAZY_ADD>, const Tensor<T, N, N>& a, Tensor<T, N, N>* x) { *x += inv(a); }
template <class T, size_t N, int S> static inline void do_call(KT<K_LAZY_MUL>, const Tensor<T, N, N>& a, Tensor<T, N, N>* x) { *x = inv(a) % a; }
template <class T, size_t N, int S> static inline void do_call(KT<K_LAZY_EXPR>, const Tensor<T, N, N>& a, Tensor<T, N, N>* x) { *x = inv(a + 0); }
template <class T, size_t N, int S> static inline void do_call(KT<K_TINV_UL>, const Tensor<T, N, N>& a, Tensor<T, N, N>* x) { new (x) Tensor<T, N, N>(tinverse<InvCompType::SimpleInv, UpLoType::UniLower>(a)); }
template <class T, size_t N, int S> static inline void do_call(KT<K_TINV_UP>, const Tensor<T, N, N>& a, Tensor<T, N, N>* x) { new (x) Tensor<T, N, N>(tinverse<InvCompType::SimpleInv, UpLoType::Upper>(a)); }
template <class T, size_t N, int S> static inline void do_call(KT<K_TINV_UU>, const Tensor<T, N, N>& a, Tensor<T, N, N>* x) { new (x) Tensor<T, N, N>(tinverse<InvCompType::SimpleInv, UpLoType::UniUpper>(a)); }
template <class T, size_t N, int S> static inline void do_call(KT<K_TINV_LO>, const Tensor<T, N, N>& a, Tensor<T, N, N>* x) { new (x) Tensor<T, N, N>(tinverse<InvCompType::SimpleInv, UpLoType::Lower>(a)); }

template <class T, size_t N, int KIND, int S> static FX_NOINLINE void thunk(const void* ap, void* xp) {
    const Tensor<T, N, N>& a = *static_cast<const Tensor<T, N, N>*>(ap);
    fx::escape(ap); fx::escape(xp);
    do_call<T, N, S>(KT<KIND>(), a, static_cast<Tensor<T, N, N>*>(xp));
    fx::clobber();
}
template <class T, size_t N> static FX_NOINLINE void thunk_b3(const void* ap, void* xp) {
    const Tensor<T, 3, N, N>& a = *static_cast<const Tensor<T, 3, N, N>*>(ap);
    fx::escape(ap); fx::escape(xp);
    new (xp) Tensor<T, 3, N, N>(inverse(a));
    fx::clobber();
}
template <class T, size_t N> static FX_NOINLINE void thunk_b4(const void* ap, void* xp) {
    const Tensor<T, 2, 2, N, N>& a = *static_cast<const Tensor<T, 2, 2, N, N>*>(ap);
    fx::escape(ap); fx::escape(xp);
    new (xp) Tensor<T, 2, 2, N, N>(inverse(a));
    fx::clobber();
}
// the library's public pivot of a matrix, as a permutation vector
template <class T, size_t N> static FX_NOINLINE void piv_thunk(const void* ap, size_t* p) {
    const Tensor<T, N, N>& a = *static_cast<const Tensor<T, N, N>*>(ap);
    fx::escape(ap);
    Tensor<size_t, N> P = pivot<PivType::V>(a);
    for (size_t i = 0; i < N; ++i) p[i] = P(i);
    fx::clobber();
}

template <class T> struct Job {
    size_t n, sizeofM;            // matrix size, sizeof(tensor object)
    int kind, strat, group;       // group: la::Group
    size_t batch;                 // matrices per call (1, 3 or 4)
    void (*call)(const void*, void*);
    void (*piv)(const void*, size_t*);
};

template <class T> struct Driver {
    fx::Ctx& fx; const Job<T>& j;
    const size_t n, nn;
    T* a; unsigned char* xp; T* x;
    const ld u;
    Driver(fx::Ctx& f, const Job<T>& jj) : fx(f), j(jj), n(jj.n), nn(jj.n * jj.n), u(la::U<T>()) {
        fx.arena[0].paint(); fx.arena[1].paint();
        xp = fx.arena[0].place_mid(j.sizeofM, 64); x = (T*)xp;
        a = (T*)(fx.arena[1].lo + 256);
        if (j.sizeofM + 512 > fx.arena[1].cap()) { fprintf(stderr, "c10: operand too large for the arena\n"); abort(); }
    }
    void finish() { fx.frame(0, xp, j.sizeofM, "write outside the result object"); memset(xp, fx::Arena::CAN, j.sizeofM); }
    // the Schur-complement recursion through explicitly inverted pivot blocks (n > 4; n <= 4 are closed forms): see la::dom_threshold
    bool explicit_block() const { return n > 4 && ((j.kind <= K_INV_EXPR && (j.strat == 0 || j.strat == 1)) || (j.kind >= K_LAZY_ASSIGN && j.kind <= K_LAZY_EXPR)); }
    ld ood_worst = 0;   // telemetry: largest residual / bound among the members outside the domain (not judged)

    // judge one n x n result X (as stored in T, converted) against measured quantities of A
    // returns "" when every sub-check holds, otherwise the first failing one
    std::string judge(const la::Measured& m, const Mat& X, const Mat* X0, const la::Member& mem, ld* worst_ratio) {
        Mat R(nn), Xe(X);
        const ld cnu = la::CONST_C * (ld)n * u;
        ld bound = cnu * m.kappa * m.amp();            // c n u kappa_2(A) max(1, growth)
        if (!la::finite_all(X.data(), nn)) return "result contains a non-finite value";
        if (j.kind == K_LAZY_MUL) {   // X = fl(inv(A) * A): left residual formed by the library's own product
            Mat Ai(nn); la::inverse_ld(m.A.data(), Ai.data(), n);
            const ld b2 = bound + cnu * la::fro(Ai.data(), nn) * m.normF * m.amp();
            const ld r = la::fro_minus_eye(X.data(), n);
            *worst_ratio = r / b2;
            if (!(r <= b2)) return "||inv(A)%A - I||_F = " + la::sci(r) + " > " + la::sci(b2) + " = c n u growth (kappa_2 + ||A^-1||_F ||A||_F), kappa_2 = " + la::sci(m.kappa) + ", growth = " + la::sci(m.growth);
            return "";
        }
        if (X0) {   // X = X0 + inv(A): remove X0, account for the rounding of the addition
            for (size_t i = 0; i < nn; ++i) Xe[i] = X[i] - (*X0)[i];
            bound += cnu * m.normF * la::fro(X0->data(), nn);
        }
        la::mul(m.A.data(), Xe.data(), R.data(), n, n, n);
        const ld rr = la::fro_minus_eye(R.data(), n);
        la::mul(Xe.data(), m.A.data(), R.data(), n, n, n);
        const ld rl = la::fro_minus_eye(R.data(), n);
        *worst_ratio = (rr > rl ? rr : rl) / bound;
        if (!(rr <= bound)) return "||A X - I||_F = " + la::sci(rr) + " > " + la::sci(bound) + " = c n u kappa_2(A) growth, kappa_2 = " + la::sci(m.kappa) + ", growth = " + la::sci(m.growth) + ", max leading-block kappa = " + la::sci(m.lead);
        if (!(rl <= bound)) return "||X A - I||_F = " + la::sci(rl) + " > " + la::sci(bound) + " = c n u kappa_2(A) growth, kappa_2 = " + la::sci(m.kappa) + ", growth = " + la::sci(m.growth) + ", max leading-block kappa = " + la::sci(m.lead);
        // triangular results must be exactly triangular
        if (j.kind == K_TINV_UL || j.kind == K_TINV_LO) for (size_t r = 0; r < n; ++r) for (size_t c = r + 1; c < n; ++c) if (X[r * n + c] != 0) return "result not exactly lower triangular: X(" + std::to_string(r) + "," + std::to_string(c) + ") = " + fx::vstr(X[r * n + c]);
        if (j.kind == K_TINV_UP || j.kind == K_TINV_UU) for (size_t r = 0; r < n; ++r) for (size_t c = 0; c < r; ++c) if (X[r * n + c] != 0) return "result not exactly upper triangular: X(" + std::to_string(r) + "," + std::to_string(c) + ") = " + fx::vstr(X[r * n + c]);
        if (j.kind == K_TINV_UL) { bool unit = true; for (size_t r = 0; r < n; ++r) unit = unit && X[r * n + r] == 1; if (!unit) fx.route("info.tinverse_unilower_diag_not_exactly_one"); }
        // integer families: compare with the exact inverse (exact elimination); implied by the residual bound, so a
        // failure here with a passing residual means the reference is inconsistent
        if (la::fam_is_integer(mem.fam) && n <= 12 && !X0) {
            std::vector<long long> ai(nn); for (size_t i = 0; i < nn; ++i) ai[i] = (long long)m.A[i];
            la::Exact e = la::exact_adjugate(ai, n);
            if (e.ok) {
                Mat Ex(nn); const ld d = la::i128_to_ld(e.det);
                for (size_t i = 0; i < nn; ++i) Ex[i] = la::i128_to_ld(e.adj[i]) / d;
                const ld fe = la::fro_diff(X.data(), Ex.data(), nn), fb = bound / m.smin;   // ||A^-1||_2 = 1/sigma_min
                fx.route("ref.exact_inverse_compared");
                if (!(fe <= fb)) return "||X - A^-1_exact||_F = " + la::sci(fe) + " > " + la::sci(fb) + " = c n u kappa_2 ||A^-1||_2 although both residuals pass (reference inconsistency)";
            }
        }
        return "";
    }

    void one_matrix(const la::Member& mem) {
        la::Measured m;
        la::make_member<T>(mem, n, a, m.A);
        long long pivid = -1;
        std::vector<size_t> p(n);
        const bool piv = j.kind <= K_INV_EXPR && strat_pivoted(j.strat);
        fx.pt(la::FAM_PT[mem.fam], (long long)mem.perm, -1LL, 0LL);
        if (piv) {
            if (!fx.run([&] { j.piv(a, p.data()); })) return;
            if (!la::is_bijection(p.data(), n)) { fx.verdict(false, 1, true, "library pivot<PivType::V>(A) is not a bijection"); return; }
            pivid = la::is_identity(p) ? 1 : 0;
        }
        fx.pt(la::FAM_PT[mem.fam], (long long)mem.perm, pivid, 0LL);
        const bool tri = j.kind >= K_TINV_UL && j.kind <= K_TINV_LO;
        // domain: unpivoted / pivoted strategies need well-conditioned leading blocks of A / P*A; triangular inversion
        // is defined on every non-singular triangular matrix
        la::measure<T>(m, n, !tri, piv ? p.data() : nullptr, explicit_block());
        Mat X0;
        if (j.kind == K_LAZY_ADD) { X0.resize(nn); for (size_t i = 0; i < nn; ++i) { x[i] = (T)(1 + (long long)(i % 5)); X0[i] = (ld)x[i]; } }
        else fxv::fill_const(x, nn, fxv::sentinel<T>::v());
        if (!fx.run([&] { j.call(a, xp); })) { memset(xp, fx::Arena::CAN, j.sizeofM); return; }
        Mat X; la::to_ld(x, nn, X);
        ld ratio = 0;
        std::string why = judge(m, X, X0.empty() ? nullptr : &X0, mem, &ratio);
        const std::string fam = la::FAM_NAME[mem.fam];
        if (m.in_domain) {
            fx.route("dom.in." + fam);
            if (pivid == 0) fx.route("piv.nonidentity.judged");
            if (ratio > 0.25L) fx.route("margin.above_quarter_of_bound");
            fx.verdict(why.empty(), fx::hash_bytes(a, nn * sizeof(T)), true, why);
        } else {
            fx.route("dom.out." + fam);
            fx.route(why.empty() ? "ood.would_pass" : "ood.would_fail");
            if (explicit_block() && m.lead <= la::dom_threshold<T>(false)) fx.route(why.empty() ? "ood.explicit_block_only.would_pass" : "ood.explicit_block_only.would_fail");
            if (ratio > ood_worst && ratio < 1.0e300L) ood_worst = ratio;
        }
        finish();
    }

    void batched() {
        // every slot of the batch holds a different member; the bound is per matrix
        std::vector<la::Member> ms = la::members<T>(la::G_DOM, n), more = la::cond_members<T>(n);
        ms.insert(ms.end(), more.begin(), more.end());
        const size_t B = j.batch;
        for (size_t start = 0; start < ms.size(); ++start) {
            std::vector<la::Measured> meas(B);
            for (size_t b = 0; b < B; ++b) { la::make_member<T>(ms[(start + b) % ms.size()], n, a + b * nn, meas[b].A); la::measure<T>(meas[b], n, true); }
            fxv::fill_const(x, B * nn, fxv::sentinel<T>::v());
            fx.pt("batch_start=%lld", (long long)start);
            if (!fx.run([&] { j.call(a, xp); })) { memset(xp, fx::Arena::CAN, j.sizeofM); continue; }
            std::string why; bool all_in = true;
            for (size_t b = 0; b < B; ++b) {
                const la::Member& mem = ms[(start + b) % ms.size()];
                Mat X; la::to_ld(x + b * nn, nn, X); ld ratio;
                fx.pt(la::FAM_PT[mem.fam], -1LL, -1LL, (long long)(start * 10 + b));
                const std::string w = judge(meas[b], X, nullptr, mem, &ratio);
                if (!meas[b].in_domain) { all_in = false; fx.route(std::string("dom.out.") + la::FAM_NAME[mem.fam]); continue; }
                fx.route(std::string("dom.in.") + la::FAM_NAME[mem.fam]);
                if (!w.empty() && why.empty()) why = "slot " + std::to_string(b) + " (" + la::FAM_NAME[mem.fam] + "): " + w;
            }
            (void)all_in;
            fx.pt("batch_start=%lld", (long long)start);
            fx.verdict(why.empty(), fx::hash_bytes(a, B * nn * sizeof(T)), true, why);
            finish();
        }
    }

    void run_all() {
        if (j.kind == K_BATCH3 || j.kind == K_BATCH4) { batched(); return; }
        for (const la::Member& mem : la::members<T>(j.group, n)) one_matrix(mem);
        if (ood_worst > 0) fx.note("ood_max_ratio=" + la::sci(ood_worst));
    }
};

template <class T> static FX_NOINLINE void run_job(fx::Ctx& fx, const Job<T>& j) { Driver<T> d(fx, j); d.run_all(); }

// entry points used by the generated cases
template <class T, size_t N, int KIND, int S, int GROUP> static inline void inv(fx::Ctx& fx) {
    static_assert(std::is_trivially_destructible<Tensor<T, N, N>>::value, "tensor objects are placed in raw arenas");
    Job<T> j{N, sizeof(Tensor<T, N, N>), KIND, S, GROUP, 1, &thunk<T, N, KIND, S>, &piv_thunk<T, N>};
    run_job<T>(fx, j);
}
template <class T, size_t N, int RANK> static inline void batch(fx::Ctx& fx) {
    Job<T> j{N, RANK == 3 ? sizeof(Tensor<T, 3, N, N>) : sizeof(Tensor<T, 2, 2, N, N>), RANK == 3 ? K_BATCH3 : K_BATCH4, 0, la::G_DOM,
             RANK == 3 ? (size_t)3 : (size_t)4, RANK == 3 ? &thunk_b3<T, N> : &thunk_b4<T, N>, nullptr};
    run_job<T>(fx, j);
}

} // namespace c10
