// c01.h - matrix product cases (property C01)
// Per compile-time case only a thin thunk (the library call itself) is instantiated; the evaluation schemes,
// reference product and judgement are run-time-shaped code instantiated once per element type.
#pragma once
#include "fxv.h"
#include <Fastor/Fastor.h>

namespace c01 {
using namespace Fastor;

enum Form { F_MATMUL = 0, F_ASSIGN = 1, F_ADD = 2, F_SUB = 3, F_MUL = 4, F_DIV = 5, F_CTOR = 6,
            F_MATMUL_TE = 7, F_MATMUL_ET = 8, F_MATMUL_EE = 9, F_CTOR_EE = 10 /* unevaluated operands */ };

// operand/result tensor types for the three call shapes: 0 = matrix*matrix, 1 = matrix*vector, 2 = vector*matrix
template <class T, size_t M, size_t K, size_t N, int SHAPE> struct Types;
template <class T, size_t M, size_t K, size_t N> struct Types<T, M, K, N, 0> { using A = Tensor<T, M, K>; using B = Tensor<T, K, N>; using C = Tensor<T, M, N>; };
template <class T, size_t M, size_t K, size_t N> struct Types<T, M, K, N, 1> { using A = Tensor<T, M, K>; using B = Tensor<T, K>;    using C = Tensor<T, M>; };
template <class T, size_t M, size_t K, size_t N> struct Types<T, M, K, N, 2> { using A = Tensor<T, K>;    using B = Tensor<T, K, N>; using C = Tensor<T, N>; };

template <class T> struct Job {
    size_t M, K, N, sizeofA, sizeofB, sizeofC;
    int form;
    void (*call)(const void* a, const void* b, void* c);   // a, b, c point at constructed tensor objects
    int lhs_tag = 0, rhs_tag = 0;                          // C17: 0 general, 1 lower, 2 upper (operands zero outside the triangle)
};

// one library call of the selected form; the result object lives at cp (constructed, data = initial contents).
// Tag dispatch, so only the selected form is instantiated.
template <int FORM> struct FormTag {};
template <class A, class B, class C> static inline void do_call(FormTag<F_MATMUL>, const A& a, const B& b, C* cp) { new (cp) C(matmul(a, b)); }
template <class A, class B, class C> static inline void do_call(FormTag<F_CTOR>,   const A& a, const B& b, C* cp) { new (cp) C(a % b); }
template <class A, class B, class C> static inline void do_call(FormTag<F_ASSIGN>, const A& a, const B& b, C* cp) { *cp = a % b; }
template <class A, class B, class C> static inline void do_call(FormTag<F_ADD>,    const A& a, const B& b, C* cp) { *cp += a % b; }
template <class A, class B, class C> static inline void do_call(FormTag<F_SUB>,    const A& a, const B& b, C* cp) { *cp -= a % b; }
template <class A, class B, class C> static inline void do_call(FormTag<F_MUL>,    const A& a, const B& b, C* cp) { *cp *= a % b; }
template <class A, class B, class C> static inline void do_call(FormTag<F_DIV>,    const A& a, const B& b, C* cp) { *cp /= a % b; }
template <class A, class B, class C> static inline void do_call(FormTag<F_MATMUL_TE>, const A& a, const B& b, C* cp) { new (cp) C(matmul(a, b + 0)); }
template <class A, class B, class C> static inline void do_call(FormTag<F_MATMUL_ET>, const A& a, const B& b, C* cp) { new (cp) C(matmul(a + 0, b)); }
template <class A, class B, class C> static inline void do_call(FormTag<F_MATMUL_EE>, const A& a, const B& b, C* cp) { new (cp) C(matmul(a + 0, b + 0)); }
template <class A, class B, class C> static inline void do_call(FormTag<F_CTOR_EE>,   const A& a, const B& b, C* cp) { new (cp) C((a + 0) % (b + 0)); }
template <class T, size_t M, size_t K, size_t N, int SHAPE, int FORM> static FX_NOINLINE void thunk(const void* ap, const void* bp, void* cpv) {
    using TY = Types<T, M, K, N, SHAPE>;
    using A = typename TY::A; using B = typename TY::B; using C = typename TY::C;
    const A& a = *static_cast<const A*>(ap); const B& b = *static_cast<const B*>(bp); C* cp = static_cast<C*>(cpv);
    fx::escape(ap); fx::escape(bp); fx::escape(cpv);
    do_call(FormTag<FORM>(), a, b, cp);
    fx::clobber();
}

template <class T> static inline T combine(int form, const T& c0, const T& p) {
    switch (form) { case F_ADD: return c0 + p; case F_SUB: return c0 - p; case F_MUL: return c0 * p; case F_DIV: return c0 / p; default: return p; }
}

template <class T> struct Driver {
    fx::Ctx& fx; const Job<T>& j;
    size_t SA, SB, SC;
    T *a, *b; unsigned char* cp; T* cd;
    std::vector<T> c0, exp, prod;
    std::vector<long double> e, bd;

    Driver(fx::Ctx& f, const Job<T>& jj) : fx(f), j(jj), SA(jj.M * jj.K), SB(jj.K * jj.N), SC(jj.M * jj.N), c0(SC), exp(SC), prod(SC) {
        fx.arena[0].paint(); fx.arena[1].paint();
        cp = fx.arena[0].place_mid(j.sizeofC, 64); cd = (T*)cp;
        a = (T*)fx.arena[1].place_mid(j.sizeofA, 64);
        b = (T*)(fx.arena[1].lo + 256);   // page-aligned start + 256: 64-byte aligned
        if ((size_t)((unsigned char*)a - (unsigned char*)b) < j.sizeofB + 64) { fprintf(stderr, "c01: operands too large for the arena\n"); abort(); }
    }
    static bool allowed(int tag, size_t r, size_t c) { return tag == 0 || (tag == 1 ? c <= r : c >= r); }
    bool okA(size_t p) const { return allowed(j.lhs_tag, p / j.K, p % j.K); }
    bool okB(size_t q) const { return allowed(j.rhs_tag, q / j.N, q % j.N); }
    void clip() {   // zero the operands outside their tagged triangle
        if (j.lhs_tag) for (size_t p = 0; p < SA; ++p) if (!okA(p)) a[p] = T(0);
        if (j.rhs_tag) for (size_t q = 0; q < SB; ++q) if (!okB(q)) b[q] = T(0);
    }
    // frame: nothing outside the result *object* may change.  Bytes of the object's own alignment padding
    // (sizeof(C) > M*N*sizeof(T)) belong to the result object; writes there are unobservable and are only counted.
    void finish() {
        fx.frame(0, cp, j.sizeofC, "write outside the result object");
        const unsigned char* pad = cp + sizeof(T) * SC;
        for (size_t i = 0; i < j.sizeofC - sizeof(T) * SC; ++i) if (pad[i] != fx::Arena::CAN) { fx.route("info.own_padding_written"); break; }
        memset(cp, fx::Arena::CAN, j.sizeofC);
    }
    void eval_exact(const char* what) {
        const bool uses_c0 = j.form >= F_ADD && j.form <= F_DIV;
        for (size_t i = 0; i < SC; ++i) c0[i] = uses_c0 ? fxv::mk<T>::from(2 + (long long)(i % 5), 1) : fxv::sentinel<T>::v();
        fxv::ref_matmul(a, b, prod.data(), j.M, j.K, j.N);
        if (j.form == F_DIV)   // make the quotient exact: c0 = q * prod with a small integer q (products are positive here)
            for (size_t i = 0; i < SC; ++i) c0[i] = prod[i] * fxv::mk<T>::from(1 + (long long)(i % 3), 0);
        for (size_t i = 0; i < SC; ++i) exp[i] = combine<T>(j.form, c0[i], prod[i]);
        memcpy(cd, c0.data(), sizeof(T) * SC);
        if (!fx.run([&] { j.call(a, b, cp); })) { memset(cp, fx::Arena::CAN, j.sizeofC); return; }
        fx.eq(cd, exp.data(), SC, c0.data(), what);
        finish();
    }
    void basis(bool full) {
        // A = e_p, B = e_q for every pair (complete determination of the bilinear form), or - when that is
        // unaffordable - e_p against an address-coded B and vice versa.
        if (full) {
            fxv::fill_const(a, SA, T(0)); fxv::fill_const(b, SB, T(0));
            for (size_t p = 0; p < SA; ++p) {
                if (!okA(p)) continue;
                a[p] = T(1);
                for (size_t q = 0; q < SB; ++q) {
                    if (!okB(q)) continue;
                    b[q] = T(1);
                    fx.pt("scheme=basis,p=%lld,q=%lld", p, q);
                    eval_exact("basis");
                    b[q] = T(0);
                }
                a[p] = T(0);
            }
            fx.route("scheme.basis_full");
        } else {
            fxv::fill_const(a, SA, T(0));
            fxv::fill_addr(b, SB, 3, 11, 241, true); clip();
            for (size_t p = 0; p < SA; ++p) { if (!okA(p)) continue; a[p] = T(1); fx.pt("scheme=halfbasisA,p=%lld", p); eval_exact("halfbasis"); a[p] = T(0); }
            fxv::fill_const(b, SB, T(0));
            fxv::fill_addr(a, SA, 1, 7, 251, true); clip();
            for (size_t q = 0; q < SB; ++q) { if (!okB(q)) continue; b[q] = T(1); fx.pt("scheme=halfbasisB,q=%lld", q); eval_exact("halfbasis"); b[q] = T(0); }
            fx.route("scheme.basis_half");
        }
    }
    void frac() { frac_impl(std::integral_constant<bool, std::is_floating_point<T>::value>()); }
    void frac_impl(std::false_type) {}
    // non-integer point against the long double reference with the forward bound
    void frac_impl(std::true_type) {
        if (j.form != F_MATMUL && j.form != F_ASSIGN && j.form != F_CTOR && j.form != F_ADD && j.form < F_MATMUL_TE) return;
        e.resize(SC); bd.resize(SC);
        fxv::fill_frac(a, SA, 1); fxv::fill_frac(b, SB, 2); clip();
        fxv::ref_matmul_ld(a, b, e.data(), bd.data(), j.M, j.K, j.N);
        for (size_t i = 0; i < SC; ++i) c0[i] = j.form == F_ADD ? (T)(0.5 + (double)(i % 3)) : fxv::sentinel<T>::v();
        if (j.form == F_ADD) for (size_t i = 0; i < SC; ++i) { e[i] += (long double)c0[i]; bd[i] += fxv::unit_roundoff<T>::v() * (fxv::absl(e[i]) + bd[i]) * 2; }
        memcpy(cd, c0.data(), sizeof(T) * SC);
        fx.pt("scheme=frac");
        if (!fx.run([&] { j.call(a, b, cp); })) { memset(cp, fx::Arena::CAN, j.sizeofC); return; }
        fx.tol(cd, e.data(), bd.data(), SC, "frac");
        finish();
    }
    void run_all() {
        const bool positive_only = (j.form == F_DIV);
        fxv::fill_addr(a, SA, 1, 7, 251, !positive_only); fxv::fill_addr(b, SB, 3, 11, 241, !positive_only);
        clip(); fx.pt("scheme=addr"); eval_exact("addr");
        fxv::Rng r(fx.seed ^ (j.M * 1000003ull + j.K * 10007ull + j.N * 101ull));
        for (int g = 0; g < 2; ++g) {
            fxv::fill_generic(a, SA, r, 255, positive_only); fxv::fill_generic(b, SB, r, 255, positive_only);
            clip(); fx.pt("scheme=generic,g=%lld", g); eval_exact("generic");
        }
        if (j.form != F_DIV) {
            const double cost = (double)SA * (double)SB * (double)(j.M * j.K * j.N);
            basis(cost <= 2.0e7);
        }
        frac();
    }
};

template <class T> static FX_NOINLINE void run_job(fx::Ctx& fx, const Job<T>& j) { Driver<T> d(fx, j); d.run_all(); }

template <class T, size_t M, size_t K, size_t N, int SHAPE, int FORM> static inline void mm(fx::Ctx& fx) {
    static_assert(SHAPE == 0 || (SHAPE == 1 && N == 1) || (SHAPE == 2 && M == 1), "shape");
    using TY = Types<T, M, K, N, SHAPE>;
    static_assert(std::is_trivially_destructible<typename TY::C>::value, "tensor objects are placed in raw arenas");
    Job<T> j{M, K, N, sizeof(typename TY::A), sizeof(typename TY::B), sizeof(typename TY::C), FORM, &thunk<T, M, K, N, SHAPE, FORM>};
    run_job<T>(fx, j);
}

} // namespace c01

// C17: triangular matrix product.  Same driver; operands are zero outside the tagged triangle and basis probing is
// restricted to in-triangle basis elements, so the general reference product is the oracle.
namespace c17 {
using namespace Fastor;
template <int TAG> struct Tag; 
template <> struct Tag<0> { using type = UpLoType::General; };
template <> struct Tag<1> { using type = UpLoType::Lower; };
template <> struct Tag<2> { using type = UpLoType::Upper; };
template <class T, size_t M, size_t K, size_t N, int LT, int RT> static FX_NOINLINE void thunk(const void* ap, const void* bp, void* cpv) {
    using A = Tensor<T, M, K>; using B = Tensor<T, K, N>; using C = Tensor<T, M, N>;
    const A& a = *static_cast<const A*>(ap); const B& b = *static_cast<const B*>(bp); C* cp = static_cast<C*>(cpv);
    fx::escape(ap); fx::escape(bp); fx::escape(cpv);
    new (cp) C(tmatmul<typename Tag<LT>::type, typename Tag<RT>::type>(a, b));
    fx::clobber();
}
// the same call with unevaluated operands: ARG 1 = (tensor, expression), 2 = (expression, tensor), 3 = (expression, expression)
template <class T, size_t M, size_t K, size_t N, int LT, int RT, int ARG> static FX_NOINLINE void thunk_e(const void* ap, const void* bp, void* cpv) {
    using A = Tensor<T, M, K>; using B = Tensor<T, K, N>; using C = Tensor<T, M, N>;
    const A& a = *static_cast<const A*>(ap); const B& b = *static_cast<const B*>(bp); C* cp = static_cast<C*>(cpv);
    fx::escape(ap); fx::escape(bp); fx::escape(cpv);
    if (ARG == 1) new (cp) C(tmatmul<typename Tag<LT>::type, typename Tag<RT>::type>(a, b + 0));
    else if (ARG == 2) new (cp) C(tmatmul<typename Tag<LT>::type, typename Tag<RT>::type>(a + 0, b));
    else new (cp) C(tmatmul<typename Tag<LT>::type, typename Tag<RT>::type>(a + 0, b + 0));
    fx::clobber();
}
template <class T, size_t M, size_t K, size_t N, int LT, int RT, int ARG> static inline void tmm_e(fx::Ctx& fx) {
    c01::Job<T> j{M, K, N, sizeof(Tensor<T, M, K>), sizeof(Tensor<T, K, N>), sizeof(Tensor<T, M, N>), c01::F_MATMUL, &thunk_e<T, M, K, N, LT, RT, ARG>};
    j.lhs_tag = LT; j.rhs_tag = RT;
    c01::run_job<T>(fx, j);
}
template <class T, size_t M, size_t K, size_t N, int LT, int RT> static inline void tmm(fx::Ctx& fx) {
    c01::Job<T> j{M, K, N, sizeof(Tensor<T, M, K>), sizeof(Tensor<T, K, N>), sizeof(Tensor<T, M, N>), c01::F_MATMUL, &thunk<T, M, K, N, LT, RT>};
    j.lhs_tag = LT; j.rhs_tag = RT;
    c01::run_job<T>(fx, j);
}
} // namespace c17
