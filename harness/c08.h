// c08.h - every SIMD vector type behaves as independent scalar lanes (property C08)
// One case = one SIMDVector<T,ABI> type x one operation group, so a missing member rejects one group only.
#pragma once
#include "c02.h"   // alphabets and overflow-aware scalar operations
#include <utility>

namespace c08 {
using namespace Fastor;
using c02::ops;

template <class V> struct Tr { using T = typename V::scalar_value_type; static constexpr size_t N = V::Size; };

template <class T> static std::vector<T> alpha() { return c02::alphabet<T>::get(); }
template <class T> static std::vector<T> alpha_small() {   // for ternary cross products
    std::vector<T> a = alpha<T>(), s;
    for (size_t i = 0; i < a.size(); i += 3) s.push_back(a[i]);
    s.push_back((T)1); s.push_back((T)-1); s.push_back((T)3);
    return s;
}

// lanes of a vector through its public store
template <class V> static inline void lanes(const V& v, typename Tr<V>::T* out) { v.store(out, false); }
template <class V> static inline V make(const typename Tr<V>::T* in) { return V(in, false); }

template <class V, class F> static FX_NOINLINE void judge_lanes(fx::Ctx& fx, const V& got, const typename Tr<V>::T* exp, const char* skip, const char* what, bool sz = true) {
    using T = typename Tr<V>::T; constexpr size_t N = Tr<V>::N;
    T obs[N]; lanes(got, obs);
    T e[N]; for (size_t i = 0; i < N; ++i) e[i] = (skip && skip[i]) ? obs[i] : exp[i];
    fx.eq(obs, e, N, (const T*)nullptr, what, sz);
}

// ---------------------------------------------------------------------------------------------------------------
// construction, broadcast, set, load/store in all alignment forms, operator[] / operator()
// ---------------------------------------------------------------------------------------------------------------
template <class V, size_t... I> static inline void set_pack(V& v, const typename Tr<V>::T* a, std::index_sequence<I...>) { v.set(a[I]...); }

template <class V> static FX_NOINLINE void g_loadstore(fx::Ctx& fx) {
    using T = typename Tr<V>::T; constexpr size_t N = Tr<V>::N;
    const std::vector<T> al = alpha<T>(); const size_t L = al.size();
    fx::Arena& ar = fx.arena[0];
    T in[N], out[N], e[N];
    for (size_t rot = 0; rot < L; ++rot) {
        for (size_t i = 0; i < N; ++i) in[i] = al[(rot + i) % L];
        // broadcast constructor, assignment from scalar, set(num)
        fx.pt("broadcast,rot=%lld", (long long)rot);
        for (size_t i = 0; i < N; ++i) e[i] = in[0];
        { V v(in[0]); lanes(v, out); fx.eq(out, e, N, (const T*)nullptr, "V(num)", true); }
        { V v; v = in[0]; lanes(v, out); fx.eq(out, e, N, (const T*)nullptr, "v=num", true); }
        { V v; v.set(in[0]); lanes(v, out); fx.eq(out, e, N, (const T*)nullptr, "set(num)", true); }
        // copy construction / element access
        fx.pt("copy_index,rot=%lld", (long long)rot);
        { V v(in, false); V w(v); lanes(w, out); fx.eq(out, in, N, (const T*)nullptr, "copy", true);
          for (size_t i = 0; i < N; ++i) { out[i] = w[i]; e[i] = w(i); }
          fx.eq(out, in, N, (const T*)nullptr, "operator[]", true); fx.eq(e, in, N, (const T*)nullptr, "operator()", true); }
        // set(a0,...,aN-1): the library's convention is the intrinsic one (last argument lands in lane 0)
        fx.pt("set_pack,rot=%lld", (long long)rot);
        { V v; set_pack(v, in, std::make_index_sequence<N>()); lanes(v, out); for (size_t i = 0; i < N; ++i) e[i] = in[N - 1 - i];
          fx.eq(out, e, N, (const T*)nullptr, "set(a...)", true); }
    }
    // set_sequential
    for (long long s0 = -3; s0 <= 40; s0 += 7) {
        fx.pt("set_sequential,start=%lld", s0);
        V v; v.set_sequential((T)s0); lanes(v, out); for (size_t i = 0; i < N; ++i) e[i] = (T)s0 + (T)i;
        fx.eq(out, e, N, (const T*)nullptr, "set_sequential", true);
    }
    // unaligned load/store at every misalignment, flush against the guard page behind and in front of the buffer
    ar.paint();
    const size_t bytes = N * sizeof(T);
    for (size_t mis = 0; mis < 64 + 2 * alignof(T); mis += alignof(T)) {
        // mis < 64: every misalignment in the middle of the arena; the two extra rounds place the vector exactly flush
        // with the trailing guard page (an over-read faults) and at the first byte behind the leading one (an under-read faults)
        const int where = mis < 64 ? 2 : (mis == 64 ? 0 : 1);
        unsigned char* src = where == 0 ? ar.hi - bytes : where == 1 ? ar.lo : ar.place_mid(bytes, 64, mis);
        T* sp = (T*)src;
        for (size_t i = 0; i < N; ++i) in[i] = al[(mis + i * 3 + where) % L];
        memcpy(sp, in, bytes);
        fx.pt("unaligned,mis=%lld,where=%lld", (long long)(mis % 64), (long long)where);
        V v; bool ok = fx.run([&] { V t(sp, false); v = t; fx::escape(&v); });
        if (ok) { lanes(v, out); fx.eq(out, in, N, (const T*)nullptr, "V(p,false)", true); }
        ok = fx.run([&] { v.load(sp, false); });
        if (ok) { lanes(v, out); fx.eq(out, in, N, (const T*)nullptr, "load(p,false)", true); }
        memset(sp, fx::Arena::CAN, bytes);
        ok = fx.run([&] { V t(in, false); t.store(sp, false); });
        if (ok) { memcpy(out, sp, bytes); fx.eq(out, in, N, (const T*)nullptr, "store(p,false)", true); fx.frame(0, sp, bytes, "store wrote outside its lanes"); }
        memset(sp, fx::Arena::CAN, bytes);
    }
    // aligned forms at every multiple of the vector's byte size (the alignment the library itself guarantees for its own storage)
    for (size_t k = 0; k < 8; ++k) {
        unsigned char* src = ar.hi - (k + 1) * (bytes < 64 ? 64 : bytes);   // 64-byte aligned, k-th slot from the end
        if (k == 0) src = ar.hi - bytes;                                    // last slot exactly flush with the guard page (bytes-aligned)
        T* sp = (T*)src;
        for (size_t i = 0; i < N; ++i) in[i] = al[(k * 5 + i) % L];
        memcpy(sp, in, bytes);
        fx.pt("aligned,slot=%lld", (long long)k);
        V v; bool ok = fx.run([&] { V t(sp, true); v = t; fx::escape(&v); });
        if (ok) { lanes(v, out); fx.eq(out, in, N, (const T*)nullptr, "V(p,true)", true); }
        ok = fx.run([&] { v.aligned_load(sp); });
        if (ok) { lanes(v, out); fx.eq(out, in, N, (const T*)nullptr, "aligned_load", true); }
        memset(sp, fx::Arena::CAN, bytes);
        ok = fx.run([&] { V t(in, false); t.aligned_store(sp); });
        if (ok) { memcpy(out, sp, bytes); fx.eq(out, in, N, (const T*)nullptr, "aligned_store", true); fx.frame(0, sp, bytes, "aligned_store wrote outside its lanes"); }
        memset(sp, fx::Arena::CAN, bytes);
        ok = fx.run([&] { V t(in, false); t.store(sp, true); });
        if (ok) { memcpy(out, sp, bytes); fx.eq(out, in, N, (const T*)nullptr, "store(p,true)", true); }
        memset(sp, fx::Arena::CAN, bytes);
    }
}

// ---------------------------------------------------------------------------------------------------------------
// masked member load/store: all 2^N masks; disabled lanes' memory must neither be read (guard page) nor written
// ---------------------------------------------------------------------------------------------------------------
template <class V> static FX_NOINLINE void g_mask_member(fx::Ctx& fx) {
    using T = typename Tr<V>::T; constexpr size_t N = Tr<V>::N;
    fx::Arena& ar = fx.arena[0]; ar.paint();
    const size_t bytes = N * sizeof(T);
    T in[N], out[N], e[N], before[N];
    const unsigned long long nm = 1ull << N;
    for (unsigned long long m = 0; m < nm; ++m) {
        int top = -1; for (int l = (int)N - 1; l >= 0; --l) if (m >> l & 1) { top = l; break; }
        for (size_t i = 0; i < N; ++i) in[i] = (T)(long long)(3 + i * 2 + (m % 5));
        // ---- mask_load: buffer ends right behind the last enabled lane, the rest would be in the guard page
        const size_t live = (size_t)(top + 1) * sizeof(T);
        T* sp = (T*)(ar.hi - live);
        if (live) memcpy(sp, in, live);
        fx.pt("mask_load,mask=%lld", (long long)m);
        V v((T)0);
        bool ok = fx.run([&] { v.mask_load(sp, (decltype(nm))m, false); fx::escape(&v); });
        if (ok) { lanes(v, out); for (size_t i = 0; i < N; ++i) e[i] = (m >> i & 1) ? in[i] : out[i];
                  fx.eq(out, e, N, (const T*)nullptr, "mask_load enabled lanes", false); }
        if (live) memset(sp, fx::Arena::CAN, live);
        // ---- mask_store into the middle of a canary field: disabled lanes bit-identical
        T* dp = (T*)ar.place_mid(bytes, 64, 0);
        for (size_t i = 0; i < N; ++i) before[i] = (T)(long long)(100 + i);
        memcpy(dp, before, bytes);
        fx.pt("mask_store,mask=%lld", (long long)m);
        ok = fx.run([&] { V t(in, false); t.mask_store(dp, (decltype(nm))m, false); });
        if (ok) { memcpy(out, dp, bytes); for (size_t i = 0; i < N; ++i) e[i] = (m >> i & 1) ? in[i] : before[i];
                  fx.eq(out, e, N, before, "mask_store", true); fx.frame(0, dp, bytes, "mask_store wrote outside the vector"); }
        memset(dp, fx::Arena::CAN, bytes);
        // ---- mask_store flush against the guard page: a store into a disabled lane beyond the buffer faults
        if (live) {
            T* ep = (T*)(ar.hi - live); memcpy(ep, before, live);
            fx.pt("mask_store_guard,mask=%lld", (long long)m);
            ok = fx.run([&] { V t(in, false); t.mask_store(ep, (decltype(nm))m, false); });
            if (ok) { const size_t k = (size_t)(top + 1); memcpy(out, ep, live); for (size_t i = 0; i < k; ++i) e[i] = (m >> i & 1) ? in[i] : before[i];
                      fx.eq(out, e, k, before, "mask_store (guarded)", true); }
            memset(ep, fx::Arena::CAN, live);
        }
    }
}
// free maskload<V>/maskstore with an int array (-1 enabled), array index reversed like the intrinsics
template <class V> static FX_NOINLINE void g_mask_free(fx::Ctx& fx) {
    using T = typename Tr<V>::T; constexpr size_t N = Tr<V>::N;
    fx::Arena& ar = fx.arena[0]; ar.paint();
    const size_t bytes = N * sizeof(T);
    T in[N], out[N], e[N], before[N]; int maska[N];
    const unsigned long long nm = 1ull << N;
    for (unsigned long long m = 0; m < nm; ++m) {
        int top = -1; for (int l = (int)N - 1; l >= 0; --l) if (m >> l & 1) { top = l; break; }
        for (size_t i = 0; i < N; ++i) { in[i] = (T)(long long)(3 + i * 2 + (m % 5)); maska[N - 1 - i] = (m >> i & 1) ? -1 : 0; }
        const size_t live = (size_t)(top + 1) * sizeof(T);
        T* sp = (T*)(ar.hi - live);
        if (live) memcpy(sp, in, live);
        fx.pt("maskload,mask=%lld", (long long)m);
        V v((T)0);
        bool ok = fx.run([&] { v = maskload<V>(sp, maska); fx::escape(&v); });
        if (ok) { lanes(v, out); for (size_t i = 0; i < N; ++i) e[i] = (m >> i & 1) ? in[i] : out[i];
                  fx.eq(out, e, N, (const T*)nullptr, "maskload enabled lanes", false); }
        if (live) memset(sp, fx::Arena::CAN, live);
        T* dp = (T*)ar.place_mid(bytes, 64, 0);
        for (size_t i = 0; i < N; ++i) before[i] = (T)(long long)(100 + i);
        memcpy(dp, before, bytes);
        fx.pt("maskstore,mask=%lld", (long long)m);
        ok = fx.run([&] { V t(in, false); maskstore(dp, maska, t); });
        if (ok) { memcpy(out, dp, bytes); for (size_t i = 0; i < N; ++i) e[i] = (m >> i & 1) ? in[i] : before[i];
                  fx.eq(out, e, N, before, "maskstore", true); fx.frame(0, dp, bytes, "maskstore wrote outside the vector"); }
        memset(dp, fx::Arena::CAN, bytes);
        if (live) {
            T* ep = (T*)(ar.hi - live); memcpy(ep, before, live);
            fx.pt("maskstore_guard,mask=%lld", (long long)m);
            ok = fx.run([&] { V t(in, false); maskstore(ep, maska, t); });
            if (ok) { const size_t k = (size_t)(top + 1); memcpy(out, ep, live); for (size_t i = 0; i < k; ++i) e[i] = (m >> i & 1) ? in[i] : before[i];
                      fx.eq(out, e, k, before, "maskstore (guarded)", true); }
            memset(ep, fx::Arena::CAN, live);
        }
    }
}

// ---------------------------------------------------------------------------------------------------------------
// binary arithmetic: vector/vector, vector/scalar, scalar/vector and in-place, alphabet cross product
// ---------------------------------------------------------------------------------------------------------------
template <class V> static FX_NOINLINE void g_arith(fx::Ctx& fx) {
    using T = typename Tr<V>::T; constexpr size_t N = Tr<V>::N; using O = ops<T>;
    const std::vector<T> al = alpha<T>(); const size_t L = al.size();
    T a[N], b[N], e[N]; char sk[N];
    uint64_t subst = 0;
    for (size_t p = 0; p < L; ++p) for (size_t q = 0; q < L; ++q) {
        for (size_t i = 0; i < N; ++i) { a[i] = al[(p + i) % L]; b[i] = al[(q + 3 * i) % L]; }
        // integer division traps on x/0 and min/-1: give those lanes benign operands
        if (std::is_integral<T>::value) for (size_t i = 0; i < N; ++i) {
            bool s = false; c02::g_fatal = false; O::div(a[i], b[i], s); bool f1 = c02::g_fatal; c02::g_fatal = false; O::div(b[0], a[i], s); O::div(a[0], b[i], s);
            if (f1 || c02::g_fatal) { if (b[i] == 0 || b[i] == (T)-1) b[i] = (T)5; if (a[i] == 0 || a[i] == (T)-1) a[i] = (T)11; ++subst; }
        }
        const V va = make<V>(a), vb = make<V>(b);
        const T s = b[0], s2 = a[0];
        fx.pt("p=%lld,q=%lld", (long long)p, (long long)q);
#define FX_BIN(NAME, EXPR_V, OPF)                                                                                     \
        { for (size_t i = 0; i < N; ++i) { bool k = false; e[i] = OPF; sk[i] = k; }                                     \
          V r; bool ok = fx.run([&] { r = (EXPR_V); fx::escape(&r); }); if (ok) judge_lanes<V, void>(fx, r, e, sk, NAME); }
        FX_BIN("v+v", va + vb, O::add(a[i], b[i], k))   FX_BIN("v-v", va - vb, O::sub(a[i], b[i], k))
        FX_BIN("v*v", va * vb, O::mul(a[i], b[i], k))   FX_BIN("v/v", va / vb, O::div(a[i], b[i], k))
        FX_BIN("v+s", va + s, O::add(a[i], s, k))       FX_BIN("v-s", va - s, O::sub(a[i], s, k))
        FX_BIN("v*s", va * s, O::mul(a[i], s, k))
        FX_BIN("s+v", s2 + vb, O::add(s2, b[i], k))     FX_BIN("s-v", s2 - vb, O::sub(s2, b[i], k))
        FX_BIN("s*v", s2 * vb, O::mul(s2, b[i], k))
        if (!(std::is_integral<T>::value && (s == 0 || s == (T)-1))) { FX_BIN("v/s", va / s, O::div(a[i], s, k)) }
        FX_BIN("s/v", s2 / vb, O::div(s2, b[i], k))
#define FX_INPL(NAME, STMT, OPF)                                                                                      \
        { for (size_t i = 0; i < N; ++i) { bool k = false; e[i] = OPF; sk[i] = k; }                                     \
          V r = va; bool ok = fx.run([&] { STMT; fx::escape(&r); }); if (ok) judge_lanes<V, void>(fx, r, e, sk, NAME); }
        FX_INPL("v+=v", r += vb, O::add(a[i], b[i], k)) FX_INPL("v-=v", r -= vb, O::sub(a[i], b[i], k))
        FX_INPL("v*=v", r *= vb, O::mul(a[i], b[i], k)) FX_INPL("v/=v", r /= vb, O::div(a[i], b[i], k))
        FX_INPL("v+=s", r += s, O::add(a[i], s, k))     FX_INPL("v-=s", r -= s, O::sub(a[i], s, k))
        FX_INPL("v*=s", r *= s, O::mul(a[i], s, k))
        if (!(std::is_integral<T>::value && (s == 0 || s == (T)-1))) { FX_INPL("v/=s", r /= s, O::div(a[i], s, k)) }
#undef FX_BIN
#undef FX_INPL
    }
    if (subst) fx.route("lanes.trapping_division_substituted", subst);
}

// ---------------------------------------------------------------------------------------------------------------
// unary minus, abs (all types); sqrt, rcp, rsqrt (floating types)
// ---------------------------------------------------------------------------------------------------------------
template <class V> static FX_NOINLINE void g_unary(fx::Ctx& fx) {
    using T = typename Tr<V>::T; constexpr size_t N = Tr<V>::N; using O = ops<T>;
    const std::vector<T> al = alpha<T>(); const size_t L = al.size();
    T a[N], e[N]; char sk[N];
    for (size_t p = 0; p < L; ++p) {
        for (size_t i = 0; i < N; ++i) a[i] = al[(p + i * 5) % L];
        const V va = make<V>(a);
        fx.pt("p=%lld", (long long)p);
        { for (size_t i = 0; i < N; ++i) { bool k = false; e[i] = O::neg(a[i], k); sk[i] = k; } V r = -va; judge_lanes<V, void>(fx, r, e, sk, "-v"); }
        { for (size_t i = 0; i < N; ++i) { bool k = false; e[i] = O::abs(a[i], k); sk[i] = k; } V r = abs(va); judge_lanes<V, void>(fx, r, e, sk, "abs"); }
    }
}
template <class T> static inline long double rel_err(T got, long double exact) { long double d = (long double)got - exact; if (d < 0) d = -d; return d / (exact < 0 ? -exact : exact); }
template <class V> static FX_NOINLINE void g_unary_fp(fx::Ctx& fx, double rcp_bound) {
    using T = typename Tr<V>::T; constexpr size_t N = Tr<V>::N;
    const std::vector<T> al = alpha<T>(); const size_t L = al.size();
    T a[N], e[N], o[N];
    long double worst_rcp = 0, worst_rsqrt = 0;
    for (size_t p = 0; p < L; ++p) {
        for (size_t i = 0; i < N; ++i) a[i] = al[(p + i * 5) % L];
        const V va = make<V>(a);
        fx.pt("p=%lld", (long long)p);
        { for (size_t i = 0; i < N; ++i) e[i] = std::sqrt(a[i]); V r = sqrt(va); judge_lanes<V, void>(fx, r, e, nullptr, "sqrt"); }
        // approximate operations: documented relative error on normal, finite, non-zero inputs whose result is normal
        { V r = rcp(va); lanes(r, o); bool ok = true; std::string d;
          for (size_t i = 0; i < N; ++i) { long double x = a[i]; if (!(x == x) || std::isinf((double)a[i]) || a[i] == 0 || std::fabs((double)a[i]) < 1e-30 || std::fabs((double)a[i]) > 1e30) continue;
              long double er = rel_err(o[i], 1.0L / x); if (er > worst_rcp) worst_rcp = er; if (!(er <= rcp_bound)) { ok = false; d = "rcp lane " + std::to_string(i) + " x=" + fx::vstr(a[i]) + " got " + fx::vstr(o[i]); } }
          fx.verdict(ok, fx::hash_bytes(a, sizeof a), true, d); }
        { V r = rsqrt(va); lanes(r, o); bool ok = true; std::string d;
          for (size_t i = 0; i < N; ++i) { long double x = a[i]; if (!(x == x) || std::isinf((double)a[i]) || !(a[i] > 0) || std::fabs((double)a[i]) < 1e-30 || std::fabs((double)a[i]) > 1e30) continue;
              long double er = rel_err(o[i], 1.0L / sqrtl(x)); if (er > worst_rsqrt) worst_rsqrt = er; if (!(er <= rcp_bound)) { ok = false; d = "rsqrt lane " + std::to_string(i) + " x=" + fx::vstr(a[i]) + " got " + fx::vstr(o[i]); } }
          fx.verdict(ok, fx::hash_bytes(a, sizeof a) ^ 1, true, d); }
    }
    char buf[160]; snprintf(buf, sizeof buf, "max relative error rcp=%.3Lg rsqrt=%.3Lg (bound %.3g)", worst_rcp, worst_rsqrt, rcp_bound); fx.note(buf);
}

// full 2^32 (or a declared sub-lattice) sweep of the unary operations on 32-bit lane types: every lane holds the swept pattern
template <class V> static FX_NOINLINE void g_sweep32(fx::Ctx& fx, int op, uint64_t lo_mask_count, double rcp_bound) {
    using T = typename Tr<V>::T; constexpr size_t N = Tr<V>::N; using O = ops<T>;
    static_assert(sizeof(T) == 4, "32-bit lanes");
    // quick: high half-word free x 256 boundary low half-words (2^24 patterns); thorough: all 2^32
    static const uint32_t lows_src[] = {0x0000, 0x0001, 0x0002, 0x007f, 0x0080, 0x00ff, 0x0100, 0x7ffe, 0x7fff, 0x8000, 0x8001, 0xfffe, 0xffff, 0x5555, 0xaaaa, 0x1234};
    uint64_t bad = 0, n = 0; uint32_t first_bad = 0; long double worst = 0;
    T a[N], o[N];
    auto one = [&](uint32_t bits) {
        T x; memcpy(&x, &bits, 4);
        for (size_t i = 0; i < N; ++i) a[i] = x;
        const V va(a, false); V r;
        bool skip = false; T e = x;
        switch (op) {
            case 0: r = -va; e = O::neg(x, skip); break;
            case 1: r = abs(va); e = O::abs(x, skip); break;
            case 2: r = sqrt(va); e = O::sqrt(x, skip); break;
            case 3: r = rcp(va); break;
            case 4: r = rsqrt(va); break;
            case 5: r = va + va; e = O::add(x, x, skip); break;
            case 6: r = va * va; e = O::mul(x, x, skip); break;
        }
        r.store(o, false); ++n;
        if (skip) return;
        for (size_t i = 0; i < N; ++i) {
            bool ok;
            if (op == 3 || op == 4) {
                double dx = (double)x; if (!(dx == dx) || std::isinf(dx) || !(op == 3 ? dx != 0 : dx > 0) || std::fabs(dx) < 1e-30 || std::fabs(dx) > 1e30) { ok = true; }
                else { long double ex = op == 3 ? 1.0L / (long double)dx : 1.0L / sqrtl((long double)dx); long double er = rel_err(o[i], ex); if (er > worst) worst = er; ok = er <= rcp_bound; }
            } else ok = fx::Ctx::same(o[i], e, true);
            if (!ok) { if (!bad) first_bad = bits; ++bad; break; }
        }
    };
    if (lo_mask_count == 0) { for (uint64_t b = 0; b < (1ull << 32); ++b) { one((uint32_t)b); if ((b & 0xfffff) == 0) ++fx::g_guard.progress; } }
    else {
        for (uint32_t hi = 0; hi < 65536; ++hi) {
            for (uint32_t li = 0; li < 256; ++li) { uint32_t lo = lows_src[li & 15] ^ ((li >> 4) * 0x1111u); one(hi << 16 | (lo & 0xffff)); }
            ++fx::g_guard.progress;
        }
    }
    fx.pt("sweep32,op=%lld", (long long)op);
    char d[200]; snprintf(d, sizeof d, "%llu of %llu swept bit patterns differ from the scalar operation, first 0x%08x", (unsigned long long)bad, (unsigned long long)n, first_bad);
    fx.verdict(bad == 0, 0x5eed ^ op, true, d);
    fx.evals += n - 1; fx.route("sweep32.patterns", n);
    if (op == 3 || op == 4) { char b2[120]; snprintf(b2, sizeof b2, "op %d max relative error over the sweep %.4Lg (bound %.3g)", op, worst, rcp_bound); fx.note(b2); }
}

// ---------------------------------------------------------------------------------------------------------------
// fused multiply-add family: either the fused or the twice-rounded scalar result is accepted
// ---------------------------------------------------------------------------------------------------------------
template <class T> static inline bool fma_ok(T got, T a, T b, T c, int kind, std::true_type /*fp*/) {
    T two, fused;
    switch (kind) { case 0: two = a * b + c; fused = std::fma(a, b, c); break; case 1: two = a * b - c; fused = std::fma(a, b, -c); break;
                    default: two = c - a * b; fused = std::fma(-a, b, c); break; }
    return fx::Ctx::same(got, two) || fx::Ctx::same(got, fused);
}
template <class T> static inline bool fma_ok(T got, T a, T b, T c, int kind, std::false_type) {
    bool s = false; using O = ops<T>; T m = O::mul(a, b, s);
    T e = kind == 0 ? O::add(m, c, s) : kind == 1 ? O::sub(m, c, s) : O::sub(c, m, s);
    return s || got == e;
}
template <class V> static FX_NOINLINE void g_fma(fx::Ctx& fx) {
    using T = typename Tr<V>::T; constexpr size_t N = Tr<V>::N;
    const std::vector<T> al = alpha_small<T>(); const size_t L = al.size();
    T a[N], b[N], c[N], o[N];
    for (size_t p = 0; p < L; ++p) for (size_t q = 0; q < L; ++q) for (size_t r = 0; r < L; ++r) {
        for (size_t i = 0; i < N; ++i) { a[i] = al[(p + i) % L]; b[i] = al[(q + 2 * i) % L]; c[i] = al[(r + 3 * i) % L]; }
        const V va = make<V>(a), vb = make<V>(b), vc = make<V>(c);
        fx.pt("p=%lld,q=%lld,r=%lld", (long long)p, (long long)q, (long long)r);
        for (int kind = 0; kind < 3; ++kind) {
            V res = kind == 0 ? fmadd(va, vb, vc) : kind == 1 ? fmsub(va, vb, vc) : fnmadd(va, vb, vc);
            lanes(res, o); bool ok = true; std::string d;
            for (size_t i = 0; i < N; ++i) if (!fma_ok<T>(o[i], a[i], b[i], c[i], kind, std::integral_constant<bool, std::is_floating_point<T>::value>())) {
                ok = false; d = std::string(kind == 0 ? "fmadd" : kind == 1 ? "fmsub" : "fnmadd") + " lane " + std::to_string(i) + ": a=" + fx::vstr(a[i]) + " b=" + fx::vstr(b[i]) + " c=" + fx::vstr(c[i]) + " got " + fx::vstr(o[i]); break; }
            fx.verdict(ok, fx::hash_bytes(a, sizeof a) ^ fx::hash_bytes(b, sizeof b) ^ fx::hash_bytes(c, sizeof c) ^ kind, true, d);
        }
    }
}

// ---------------------------------------------------------------------------------------------------------------
// lane-wise min / max (simd_math.h), reverse
// ---------------------------------------------------------------------------------------------------------------
template <class V> static FX_NOINLINE void g_minmax_rev(fx::Ctx& fx) {
    using T = typename Tr<V>::T; constexpr size_t N = Tr<V>::N; using O = ops<T>;
    const std::vector<T> al = alpha<T>(); const size_t L = al.size();
    T a[N], b[N], e[N]; char sk[N];
    for (size_t p = 0; p < L; ++p) for (size_t q = 0; q < L; ++q) {
        for (size_t i = 0; i < N; ++i) { a[i] = al[(p + i) % L]; b[i] = al[(q + 3 * i) % L]; }
        const V va = make<V>(a), vb = make<V>(b);
        fx.pt("p=%lld,q=%lld", (long long)p, (long long)q);
        { for (size_t i = 0; i < N; ++i) { bool k = false; e[i] = O::min(a[i], b[i], k); sk[i] = k; } V r = min(va, vb); judge_lanes<V, void>(fx, r, e, sk, "min", false); }
        { for (size_t i = 0; i < N; ++i) { bool k = false; e[i] = O::max(a[i], b[i], k); sk[i] = k; } V r = max(va, vb); judge_lanes<V, void>(fx, r, e, sk, "max", false); }
        if (q == 0) { for (size_t i = 0; i < N; ++i) e[i] = a[N - 1 - i]; V t = va; V r = t.reverse(); judge_lanes<V, void>(fx, r, e, nullptr, "reverse", true); }
    }
}

// ---------------------------------------------------------------------------------------------------------------
// horizontal operations: sum, product, minimum, maximum, dot.  Values are small integers so every order of
// summation gives the same exact result; sign patterns: all positive, all negative, alternating, and a single
// extreme element at every lane with all other lanes on the other side of zero.
// ---------------------------------------------------------------------------------------------------------------
template <class V> static FX_NOINLINE void g_horizontal(fx::Ctx& fx) {
    using T = typename Tr<V>::T; constexpr size_t N = Tr<V>::N;
    T a[N], b[N];
    auto run = [&](const char* pat, long long idx) {
        V va = make<V>(a), vb = make<V>(b);
        fx.pt(pat, idx);
        T s = 0, pr = 1, mn = a[0], mx = a[0], dt = 0; bool prod_ok = true;
        for (size_t i = 0; i < N; ++i) { s += a[i]; if (a[i] < mn) mn = a[i]; if (a[i] > mx) mx = a[i]; dt += a[i] * b[i];
            long double t = (long double)pr * (long double)a[i]; if (t > 8e6L || t < -8e6L) prod_ok = false; pr = (T)(pr * a[i]); }
        T got;
        got = va.sum();      fx.eq(&got, &s, 1, (const T*)nullptr, "sum");
        got = va.minimum();  fx.eq(&got, &mn, 1, (const T*)nullptr, "minimum");
        got = va.maximum();  fx.eq(&got, &mx, 1, (const T*)nullptr, "maximum");
        got = va.dot(vb);    fx.eq(&got, &dt, 1, (const T*)nullptr, "dot");
        if (prod_ok) { got = va.product(); fx.eq(&got, &pr, 1, (const T*)nullptr, "product"); }
    };
    for (size_t i = 0; i < N; ++i) b[i] = (T)(long long)(1 + (i * 3) % 5) * ((i % 2) ? -1 : 1);
    for (size_t i = 0; i < N; ++i) a[i] = (T)(long long)(i + 1);            run("all_positive", 0);
    for (size_t i = 0; i < N; ++i) a[i] = (T)(-(long long)(i + 1));         run("all_negative", 0);
    for (size_t i = 0; i < N; ++i) a[i] = (T)((i % 2 ? -1 : 1) * (long long)(i + 2)); run("alternating", 0);
    for (size_t i = 0; i < N; ++i) a[i] = (T)2;                             run("constant", 0);
    for (size_t k = 0; k < N; ++k) {
        for (size_t i = 0; i < N; ++i) a[i] = (T)(-(long long)(2 + i % 3)); a[k] = (T)-9;  run("neg_with_min_at=%lld", (long long)k);
        for (size_t i = 0; i < N; ++i) a[i] = (T)(-(long long)(2 + i % 3)); a[k] = (T)-1;  run("neg_with_max_at=%lld", (long long)k);
        for (size_t i = 0; i < N; ++i) a[i] = (T)((long long)(2 + i % 3));  a[k] = (T)1;   run("pos_with_min_at=%lld", (long long)k);
        for (size_t i = 0; i < N; ++i) a[i] = (T)((long long)(2 + i % 3));  a[k] = (T)9;   run("pos_with_max_at=%lld", (long long)k);
        for (size_t i = 0; i < N; ++i) a[i] = (T)((long long)(2 + i % 3));  a[k] = (T)-5;  run("single_negative_at=%lld", (long long)k);
        for (size_t i = 0; i < N; ++i) a[i] = (T)(-(long long)(2 + i % 3)); a[k] = (T)5;   run("single_positive_at=%lld", (long long)k);
    }
}

} // namespace c08

// ---------------------------------------------------------------------------------------------------------------
// complex vector types (split real/imaginary registers): lane = one std::complex<R>
// ---------------------------------------------------------------------------------------------------------------
namespace c08 {
template <class R> static std::vector<std::complex<R>> calpha() {
    std::vector<std::complex<R>> v; const int re[] = {0, 1, -1, 2, -3, 5, 7, -4}; const int im[] = {0, 1, -2, 3, 0, -5, 4, -1};
    for (int i = 0; i < 8; ++i) for (int k = 0; k < 8; k += (i % 2 ? 3 : 2)) v.push_back(std::complex<R>((R)re[i], (R)im[(k + i) % 8]));
    return v;
}
template <class V> static FX_NOINLINE void g_complex(fx::Ctx& fx) {
    using Z = typename V::scalar_value_type; using R = typename Z::value_type; constexpr size_t N = V::Size;
    const std::vector<Z> al = calpha<R>(); const size_t L = al.size();
    fx::Arena& ar = fx.arena[0]; ar.paint();
    const size_t bytes = N * sizeof(Z);
    Z a[N], b[N], c[N], e[N], o[N];
    auto getl = [&](const V& v, Z* out) { v.store(out, false); };
    // ---- load / store / broadcast
    for (size_t mis = 0; mis < 64 + 2 * alignof(R); mis += alignof(R)) {
        const int where = mis < 64 ? 2 : (mis == 64 ? 0 : 1);
        unsigned char* src = where == 0 ? ar.hi - bytes : where == 1 ? ar.lo : ar.place_mid(bytes, 64, mis);
        Z* sp = (Z*)src;
        for (size_t i = 0; i < N; ++i) a[i] = al[(mis + i * 3 + where) % L];
        memcpy((void*)sp, a, bytes);
        fx.pt("unaligned,mis=%lld,where=%lld", (long long)(mis % 64), (long long)where);
        V v; bool ok = fx.run([&] { V t(sp, false); v = t; fx::escape(&v); });
        if (ok) { getl(v, o); fx.eq(o, a, N, (const Z*)nullptr, "V(p,false)"); }
        ok = fx.run([&] { v.load(sp, false); }); if (ok) { getl(v, o); fx.eq(o, a, N, (const Z*)nullptr, "load(p,false)"); }
        memset((void*)sp, fx::Arena::CAN, bytes);
        ok = fx.run([&] { V t(a, false); t.store(sp, false); });
        if (ok) { memcpy((void*)o, sp, bytes); fx.eq(o, a, N, (const Z*)nullptr, "store(p,false)"); fx.frame(0, sp, bytes, "store wrote outside its lanes"); }
        memset((void*)sp, fx::Arena::CAN, bytes);
    }
    for (size_t k = 0; k < 4; ++k) {   // aligned forms, last slot flush with the guard page
        unsigned char* src = k == 0 ? ar.hi - bytes : ar.hi - (k + 1) * (bytes < 64 ? 64 : bytes);
        if (((uintptr_t)src) % (bytes < 64 ? bytes : 64)) continue;
        Z* sp = (Z*)src; for (size_t i = 0; i < N; ++i) a[i] = al[(k * 5 + i) % L]; memcpy((void*)sp, a, bytes);
        fx.pt("aligned,slot=%lld", (long long)k);
        V v; bool ok = fx.run([&] { V t(sp, true); v = t; fx::escape(&v); }); if (ok) { getl(v, o); fx.eq(o, a, N, (const Z*)nullptr, "V(p,true)"); }
        memset((void*)sp, fx::Arena::CAN, bytes);
        ok = fx.run([&] { V t(a, false); t.store(sp, true); }); if (ok) { memcpy((void*)o, sp, bytes); fx.eq(o, a, N, (const Z*)nullptr, "store(p,true)"); }
        memset((void*)sp, fx::Arena::CAN, bytes);
    }
    for (size_t p = 0; p < L; ++p) { fx.pt("broadcast,p=%lld", (long long)p); for (size_t i = 0; i < N; ++i) e[i] = al[p];
        { V v(al[p]); getl(v, o); fx.eq(o, e, N, (const Z*)nullptr, "V(z)"); } { V v; v.set(al[p]); getl(v, o); fx.eq(o, e, N, (const Z*)nullptr, "set(z)"); }
        { V v(a, false); for (size_t i = 0; i < N; ++i) o[i] = v[i]; fx.eq(o, a, N, (const Z*)nullptr, "operator[]"); } }
    // ---- arithmetic on integer-valued complex numbers: exact
    const long double u = fxv::unit_roundoff<R>::v();
    for (size_t p = 0; p < L; ++p) for (size_t q = 0; q < L; ++q) {
        for (size_t i = 0; i < N; ++i) { a[i] = al[(p + i) % L]; b[i] = al[(q + 3 * i) % L]; c[i] = al[(p + q + 5 * i) % L]; }
        const V va(a, false), vb(b, false), vc(c, false); const Z s = b[0];
        fx.pt("p=%lld,q=%lld", (long long)p, (long long)q);
#define FX_CB(NAME, EXPR, REF) { for (size_t i = 0; i < N; ++i) e[i] = REF; V r = (EXPR); getl(r, o); fx.eq(o, e, N, (const Z*)nullptr, NAME); }
        FX_CB("v+v", va + vb, a[i] + b[i]) FX_CB("v-v", va - vb, a[i] - b[i]) FX_CB("v*v", va * vb, Z(a[i].real() * b[i].real() - a[i].imag() * b[i].imag(), a[i].real() * b[i].imag() + a[i].imag() * b[i].real()))
        FX_CB("v+s", va + s, a[i] + s) FX_CB("v-s", va - s, a[i] - s) FX_CB("v*s", va * s, Z(a[i].real() * s.real() - a[i].imag() * s.imag(), a[i].real() * s.imag() + a[i].imag() * s.real()))
        FX_CB("fmadd", fmadd(va, vb, vc), Z(a[i].real() * b[i].real() - a[i].imag() * b[i].imag() + c[i].real(), a[i].real() * b[i].imag() + a[i].imag() * b[i].real() + c[i].imag()))
        FX_CB("fmsub", fmsub(va, vb, vc), Z(a[i].real() * b[i].real() - a[i].imag() * b[i].imag() - c[i].real(), a[i].real() * b[i].imag() + a[i].imag() * b[i].real() - c[i].imag()))
        FX_CB("fnmadd", fnmadd(va, vb, vc), Z(c[i].real() - (a[i].real() * b[i].real() - a[i].imag() * b[i].imag()), c[i].imag() - (a[i].real() * b[i].imag() + a[i].imag() * b[i].real())))
        { for (size_t i = 0; i < N; ++i) e[i] = a[i] + b[i]; V r = va; r += vb; getl(r, o); fx.eq(o, e, N, (const Z*)nullptr, "v+=v"); }
        { for (size_t i = 0; i < N; ++i) e[i] = a[i] - b[i]; V r = va; r -= vb; getl(r, o); fx.eq(o, e, N, (const Z*)nullptr, "v-=v"); }
        { for (size_t i = 0; i < N; ++i) e[i] = Z(a[i].real() * b[i].real() - a[i].imag() * b[i].imag(), a[i].real() * b[i].imag() + a[i].imag() * b[i].real()); V r = va; r *= vb; getl(r, o); fx.eq(o, e, N, (const Z*)nullptr, "v*=v"); }
#undef FX_CB
        // division: non-zero divisors, judged against the exact quotient with a modulus-relative bound
        { bool nz = true; for (size_t i = 0; i < N; ++i) if (b[i] == Z(0)) nz = false;
          if (nz) { V r = va / vb; getl(r, o); bool ok = true; std::string d;
            for (size_t i = 0; i < N; ++i) { long double br = b[i].real(), bi = b[i].imag(), ar_ = a[i].real(), ai = a[i].imag(), den = br * br + bi * bi;
                long double er = (ar_ * br + ai * bi) / den, ei = (ai * br - ar_ * bi) / den, mod = sqrtl(er * er + ei * ei);
                long double dr = fabsl((long double)o[i].real() - er), di = fabsl((long double)o[i].imag() - ei);
                if (!(dr <= 16 * u * mod + 1e-300L) || !(di <= 16 * u * mod + 1e-300L)) { ok = false; d = "v/v lane " + std::to_string(i) + " got " + fx::vstr(o[i]); break; } }
            fx.verdict(ok, fx::hash_bytes(a, sizeof a) ^ fx::hash_bytes(b, sizeof b), true, d);
            // the in-place spellings: v /= v and v /= z (complex number)
            for (int inplace = 0; inplace < 2; ++inplace) {
                V r2 = va; if (inplace == 0) r2 /= vb; else r2 /= b[0]; getl(r2, o); bool ok2 = true; std::string d2;
                for (size_t i = 0; i < N; ++i) { const Z dv = inplace == 0 ? b[i] : b[0];
                    long double br = dv.real(), bi = dv.imag(), ar_ = a[i].real(), ai = a[i].imag(), den = br * br + bi * bi;
                    long double er = (ar_ * br + ai * bi) / den, ei = (ai * br - ar_ * bi) / den, mod = sqrtl(er * er + ei * ei);
                    long double dr = fabsl((long double)o[i].real() - er), di = fabsl((long double)o[i].imag() - ei);
                    if (!(dr <= 16 * u * mod + 1e-300L) || !(di <= 16 * u * mod + 1e-300L)) { ok2 = false; d2 = std::string(inplace == 0 ? "v/=v" : "v/=z") + " lane " + std::to_string(i) + " got " + fx::vstr(o[i]); break; } }
                fx.verdict(ok2, fx::hash_bytes(a, sizeof a) ^ fx::hash_bytes(b, sizeof b) ^ (0x77u + inplace), true, d2); } } }
        // vertical real-valued results and horizontals
        { using VR = decltype(va.real()); R ro[N], re_[N];
          { VR r = va.real(); r.store(ro, false); for (size_t i = 0; i < N; ++i) re_[i] = a[i].real(); fx.eq(ro, re_, N, (const R*)nullptr, "real()"); }
          { VR r = va.imag(); r.store(ro, false); for (size_t i = 0; i < N; ++i) re_[i] = a[i].imag(); fx.eq(ro, re_, N, (const R*)nullptr, "imag()"); }
          { VR r = va.norm(); r.store(ro, false); for (size_t i = 0; i < N; ++i) re_[i] = a[i].real() * a[i].real() + a[i].imag() * a[i].imag(); fx.eq(ro, re_, N, (const R*)nullptr, "norm()"); }
          { VR r = va.magnitude(); r.store(ro, false); long double ex[N], bd[N]; for (size_t i = 0; i < N; ++i) { ex[i] = sqrtl((long double)(a[i].real() * a[i].real() + a[i].imag() * a[i].imag())); bd[i] = 2 * u * ex[i]; }
            fx.tol(ro, ex, bd, N, "magnitude()"); } }
        { Z s0(0), d0(0); for (size_t i = 0; i < N; ++i) { s0 += a[i]; d0 += Z(a[i].real() * b[i].real() - a[i].imag() * b[i].imag(), a[i].real() * b[i].imag() + a[i].imag() * b[i].real()); }
          Z g = va.sum(); fx.eq(&g, &s0, 1, (const Z*)nullptr, "sum()"); g = va.dot(vb); fx.eq(&g, &d0, 1, (const Z*)nullptr, "dot()"); }
        if (q == 0) { for (size_t i = 0; i < N; ++i) e[i] = a[N - 1 - i]; V r = va.reverse(); getl(r, o); fx.eq(o, e, N, (const Z*)nullptr, "reverse()"); }
    }
    // ---- masked member load / store: all 2^N masks, bit k <-> complex lane k
    for (unsigned long long m = 0; m < (1ull << N); ++m) {
        int top = -1; for (int l = (int)N - 1; l >= 0; --l) if (m >> l & 1) { top = l; break; }
        for (size_t i = 0; i < N; ++i) { a[i] = Z((R)(3 + (long long)i), (R)(-(long long)(i + 1) - (long long)(m % 3))); c[i] = Z((R)(100 + (long long)i), (R)(50 + (long long)i)); }
        const size_t live = (size_t)(top + 1) * sizeof(Z);
        Z* sp = (Z*)(ar.hi - live); if (live) memcpy((void*)sp, a, live);
        fx.pt("mask_load,mask=%lld", (long long)m);
        V v(Z(0)); bool ok = fx.run([&] { v.mask_load(sp, (unsigned long long)m, false); fx::escape(&v); });
        if (ok) { getl(v, o); for (size_t i = 0; i < N; ++i) e[i] = (m >> i & 1) ? a[i] : o[i]; fx.eq(o, e, N, (const Z*)nullptr, "mask_load enabled lanes"); }
        if (live) memset((void*)sp, fx::Arena::CAN, live);
        Z* dp = (Z*)ar.place_mid(bytes, 64, 0); memcpy((void*)dp, c, bytes);
        fx.pt("mask_store,mask=%lld", (long long)m);
        ok = fx.run([&] { V t(a, false); t.mask_store(dp, (unsigned long long)m, false); });
        if (ok) { memcpy((void*)o, dp, bytes); for (size_t i = 0; i < N; ++i) e[i] = (m >> i & 1) ? a[i] : c[i]; fx.eq(o, e, N, c, "mask_store"); fx.frame(0, dp, bytes, "mask_store wrote outside the vector"); }
        memset((void*)dp, fx::Arena::CAN, bytes);
        if (live) { Z* ep = (Z*)(ar.hi - live); memcpy((void*)ep, c, live);
            fx.pt("mask_store_guard,mask=%lld", (long long)m);
            ok = fx.run([&] { V t(a, false); t.mask_store(ep, (unsigned long long)m, false); });
            if (ok) { const size_t k = (size_t)(top + 1); memcpy((void*)o, ep, live); for (size_t i = 0; i < k; ++i) e[i] = (m >> i & 1) ? a[i] : c[i]; fx.eq(o, e, k, c, "mask_store (guarded)"); }
            memset((void*)ep, fx::Arena::CAN, live); }
    }
}
} // namespace c08
