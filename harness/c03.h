// c03.h - pairwise / single-tensor Einstein summation cases (property C03).
// Per case: one thin thunk around the public entry point + the library's own classification constants.
// Everything else lives in einsum_common.h (es::Driver<T>).
#pragma once
#include "einsum_common.h"

namespace c03 {
using namespace Fastor;

enum Entry { E_EINSUM = 0, E_CONTRACTION = 1, E_EXPLICIT = 2, E_INNER = 3, E_OUTER = 4,
             // the same entry points with unevaluated operands: (tensor, expression), (expression, tensor), (expression, expression)
             E_EINSUM_TE = 5, E_EINSUM_ET = 6, E_EINSUM_EE = 7, E_CONTRACTION_TE = 8, E_CONTRACTION_ET = 9, E_CONTRACTION_EE = 10 };
template <int E> struct Ent {};

// ---- two operands ---------------------------------------------------------------------------------------------------
template <class I, class J, class O, class A, class B> static inline auto call2(Ent<E_EINSUM>, const A& a, const B& b) -> decltype(einsum<I, J>(a, b)) { return einsum<I, J>(a, b); }
template <class I, class J, class O, class A, class B> static inline auto call2(Ent<E_CONTRACTION>, const A& a, const B& b) -> decltype(contraction<I, J>(a, b)) { return contraction<I, J>(a, b); }
template <class I, class J, class O, class A, class B> static inline auto call2(Ent<E_EXPLICIT>, const A& a, const B& b) -> decltype(einsum<I, J, O>(a, b)) { return einsum<I, J, O>(a, b); }
template <class I, class J, class O, class A, class B> static inline auto call2(Ent<E_INNER>, const A& a, const B& b) -> decltype(inner(a, b)) { return inner(a, b); }
template <class I, class J, class O, class A, class B> static inline auto call2(Ent<E_OUTER>, const A& a, const B& b) -> decltype(outer(a, b)) { return outer(a, b); }

template <class I, class J, class O, class A, class B> static inline auto call2(Ent<E_EINSUM_TE>, const A& a, const B& b) -> decltype(einsum<I, J>(a, b + 0)) { return einsum<I, J>(a, b + 0); }
template <class I, class J, class O, class A, class B> static inline auto call2(Ent<E_EINSUM_ET>, const A& a, const B& b) -> decltype(einsum<I, J>(a + 0, b)) { return einsum<I, J>(a + 0, b); }
template <class I, class J, class O, class A, class B> static inline auto call2(Ent<E_EINSUM_EE>, const A& a, const B& b) -> decltype(einsum<I, J>(a + 0, b + 0)) { return einsum<I, J>(a + 0, b + 0); }
template <class I, class J, class O, class A, class B> static inline auto call2(Ent<E_CONTRACTION_TE>, const A& a, const B& b) -> decltype(contraction<I, J>(a, b + 0)) { return contraction<I, J>(a, b + 0); }
template <class I, class J, class O, class A, class B> static inline auto call2(Ent<E_CONTRACTION_ET>, const A& a, const B& b) -> decltype(contraction<I, J>(a + 0, b)) { return contraction<I, J>(a + 0, b); }
template <class I, class J, class O, class A, class B> static inline auto call2(Ent<E_CONTRACTION_EE>, const A& a, const B& b) -> decltype(contraction<I, J>(a + 0, b + 0)) { return contraction<I, J>(a + 0, b + 0); }

template <int E, class I, class J, class O, class A, class B> static FX_NOINLINE void thunk2(const void* const* ops, void* res) {
    const A& a = *static_cast<const A*>(ops[0]); const B& b = *static_cast<const B*>(ops[1]);
    using R = decltype(call2<I, J, O>(Ent<E>(), a, b));
    fx::escape(ops[0]); fx::escape(ops[1]); fx::escape(res);
    new (res) R(call2<I, J, O>(Ent<E>(), a, b));
    fx::clobber();
}

// the library's own classification of the pattern (public constants), recorded and compared with the enumerator's model
template <int E, class I, class J, class B> struct LibClass {
    static void fill(int* lib, const char** names, int& n) { n = 0; (void)lib; (void)names; }
};
template <class I, class J, class B> struct LibClass<E_EINSUM, I, J, B> {
    static void fill(int* lib, const char** names, int& n) {
        constexpr bool inner_ = is_pair_reduction<I, J>::value;
        constexpr bool mv = internal::is_generalised_matrix_vector<I, J>::value;
        constexpr bool vm = internal::is_generalised_vector_matrix<I, J>::value;
        constexpr bool mm = internal::is_generalised_matrix_matrix<I, J>::value;
        lib[0] = inner_ ? 1 : mv ? 2 : vm ? 3 : mm ? 4 : 0; names[0] = "lib.class";
#ifndef FASTOR_DONT_VECTORISE
        lib[1] = is_vectorisable<I, J, B>::stride;
#else
        lib[1] = 1;
#endif
        names[1] = "lib.stride"; n = 2;
    }
};

template <class T, int E, class I, class J, class O, class A, class B, class Exp> static inline void pair(fx::Ctx& fx, const es::Spec& s) {
    using R = decltype(call2<I, J, O>(Ent<E>(), std::declval<const A&>(), std::declval<const B&>()));
    es::Job<T> j; j.s = &s;
    j.sizeofOp[0] = sizeof(A); j.sizeofOp[1] = sizeof(B);
    es::describe_result<T, R, Exp>(j);
    j.call = &thunk2<E, I, J, O, A, B>;
    LibClass<E, I, J, B>::fill(j.lib, j.libname, j.nlib);
    es::run_job<T>(fx, j);
}

// ---- one operand ------------------------------------------------------------------------------------------------------
template <class I, class O, class A> static inline auto call1(Ent<E_EINSUM>, const A& a) -> decltype(einsum<I>(a)) { return einsum<I>(a); }
template <class I, class O, class A> static inline auto call1(Ent<E_CONTRACTION>, const A& a) -> decltype(contraction<I>(a)) { return contraction<I>(a); }
template <class I, class O, class A> static inline auto call1(Ent<E_EXPLICIT>, const A& a) -> decltype(einsum<I, O>(a)) { return einsum<I, O>(a); }

template <int E, class I, class O, class A> static FX_NOINLINE void thunk1(const void* const* ops, void* res) {
    const A& a = *static_cast<const A*>(ops[0]);
    using R = decltype(call1<I, O>(Ent<E>(), a));
    fx::escape(ops[0]); fx::escape(res);
    new (res) R(call1<I, O>(Ent<E>(), a));
    fx::clobber();
}
template <class T, int E, class I, class O, class A, class Exp> static inline void single(fx::Ctx& fx, const es::Spec& s) {
    using R = decltype(call1<I, O>(Ent<E>(), std::declval<const A&>()));
    es::Job<T> j; j.s = &s;
    j.sizeofOp[0] = sizeof(A);
    es::describe_result<T, R, Exp>(j);
    j.call = &thunk1<E, I, O, A>;
    j.nlib = 0;
    es::run_job<T>(fx, j);
}

} // namespace c03
