// c07.h - no access outside operands, no misaligned aligned-access, no dynamic allocation (property C07)
// A case is a local struct K { T; TA, TB, TR (operand / result tensor types); static call(a,b,r) } (owning tensors) or
// KM { T; NA, NB, NR (element counts); static call(pa,pb,pr) } (TensorMap over raw buffers).  The driver places the operands
// flush against PROT_NONE pages on either side and at every misalignment, counts allocations and compares with a baseline run.
#pragma once
#include "fxv.h"
#include <Fastor/Fastor.h>
#include <new>

// ---- allocation counter: every path into the heap goes through these (glibc exports the __libc_ entry points) ----
#if !defined(__SANITIZE_ADDRESS__) && !defined(FX_NO_MALLOC_HOOK)
extern "C" { void* __libc_malloc(size_t); void __libc_free(void*); void* __libc_calloc(size_t, size_t); void* __libc_realloc(void*, size_t); void* __libc_memalign(size_t, size_t); }
namespace c07 { static volatile long g_allocs = 0; static volatile int g_armed = 0; }
extern "C" void* malloc(size_t n) { if (c07::g_armed) ++c07::g_allocs; return __libc_malloc(n); }
extern "C" void* calloc(size_t a, size_t b) { if (c07::g_armed) ++c07::g_allocs; return __libc_calloc(a, b); }
extern "C" void* realloc(void* p, size_t n) { if (c07::g_armed) ++c07::g_allocs; return __libc_realloc(p, n); }
extern "C" void* memalign(size_t a, size_t n) { if (c07::g_armed) ++c07::g_allocs; return __libc_memalign(a, n); }
extern "C" void* aligned_alloc(size_t a, size_t n) { if (c07::g_armed) ++c07::g_allocs; return __libc_memalign(a, n); }
extern "C" int posix_memalign(void** out, size_t a, size_t n) { if (c07::g_armed) ++c07::g_allocs; *out = __libc_memalign(a, n); return *out ? 0 : 12; }
extern "C" void free(void* p) { __libc_free(p); }
#define FX_ALLOC_HOOKED 1
#else
namespace c07 { static volatile long g_allocs = 0; static volatile int g_armed = 0; }
#define FX_ALLOC_HOOKED 0
#endif

namespace c07 {
using namespace Fastor;

template <class T> static void fill(T* p, size_t n, unsigned salt) {
    for (size_t i = 0; i < n; ++i) { long long v = 2 + (long long)((i * 7 + salt * 3) % 9); if ((i + salt) % 4 == 1) v = -v; p[i] = (T)v; }
}
template <> inline void fill<bool>(bool* p, size_t n, unsigned salt) { for (size_t i = 0; i < n; ++i) p[i] = ((i + salt) % 3) != 0; }
// square matrices get a dominant diagonal so inverse/solve style operations are benign
template <class T> static void dominate(T* p, size_t n) {
    size_t r = 1; while (r * r < n) ++r; if (r * r != n) return;
    for (size_t i = 0; i < r; ++i) p[i * r + i] = (T)(long long)(10 * (long long)r + 3 + (long long)i);
}
template <> inline void dominate<bool>(bool*, size_t) {}
// square_dominant == 2: the dominant entries sit on the anti-diagonal, so every pivoted strategy has to move every row
template <class T> static void antidominate(T* p, size_t n) {
    size_t r = 1; while (r * r < n) ++r; if (r * r != n) return;
    for (size_t i = 0; i < r; ++i) p[i * r + (r - 1 - i)] = (T)(long long)(10 * (long long)r + 3 + (long long)i);
}
template <> inline void antidominate<bool>(bool*, size_t) {}
template <class T> static inline void shape_fill(T* p, size_t n, int mode) { if (mode == 1) dominate<T>(p, n); else if (mode == 2) antidominate<T>(p, n); }

struct Job {
    size_t szA, szB, szR;        // bytes of the operand / result objects (owning) or of the raw buffers (maps)
    size_t nA, nB, nR, esA, esB, esR;  // element counts and element sizes
    bool maps, square_dominant;
    void (*fillA)(void*, size_t, unsigned); void (*fillB)(void*, size_t, unsigned);
    void (*call)(const void* a, const void* b, void* r);
};

static FX_NOINLINE void run_job(fx::Ctx& fx, const Job& j) {
    fx::Arena &AA = fx.arena[1], &AB = fx.arena[2], &AR = fx.arena[0];
    std::vector<unsigned char> base(j.nR * j.esR), got(j.nR * j.esR), r0(j.nR * j.esR);
    for (size_t i = 0; i < r0.size(); ++i) r0[i] = (unsigned char)(0x40 + i % 23);   // initial destination contents (compound forms read them)
    const size_t payload = j.nR * j.esR;
    auto prep = [&](unsigned char* a, unsigned char* b, unsigned char* r) {
        j.fillA(a, j.nA, 1); j.fillB(b, j.nB, 2); memcpy(r, r0.data(), payload);
    };
    auto one = [&](const char* name, long long k, unsigned char* a, unsigned char* b, unsigned char* r, bool is_base, bool check_frame) -> bool {
        prep(a, b, r);
        fx.pt(name, k);
        g_allocs = 0; g_armed = 1;
        bool ok = fx.run([&] { j.call(a, b, r); });
        g_armed = 0; const long allocs = g_allocs;
        if (!ok) return false;
        if (is_base) memcpy(base.data(), r, payload);
        else { memcpy(got.data(), r, payload);
               fx.verdict(!memcmp(got.data(), base.data(), payload), fx::hash_bytes(base.data(), payload), true, std::string("result differs from the baseline placement (") + name + ")"); }
        if (FX_ALLOC_HOOKED) fx.verdict(allocs == 0, 0xa110c, true, std::to_string(allocs) + " dynamic allocation(s) during the operation");
        if (check_frame) fx.frame(0, r, j.maps ? payload : j.szR, "write outside the result");
        return true;
    };
    // 1. baseline: everything in the middle of its arena, 64-byte aligned, result between canaries
    AA.paint(); AB.paint(); AR.paint();
    unsigned char *a0 = AA.place_mid(j.szA, 64), *b0 = AB.place_mid(j.szB, 64), *r0p = AR.place_mid(j.szR, 64);
    if (!one("baseline", 0, a0, b0, r0p, true, true)) return;
    memset(r0p, fx::Arena::CAN, j.szR);
    // 2. every object exactly flush with the PROT_NONE page behind it (over-reads / over-writes fault)
    one("end_flush", 0, AA.hi - j.szA, AB.hi - j.szB, AR.hi - j.szR, false, false);
    // 3. every object starting at the first byte behind a PROT_NONE page (under-reads fault)
    one("start_flush", 0, AA.lo, AB.lo, AR.lo, false, false);
    // 4. one operand at a time flush, the others in the middle (attributes a fault to an operand)
    one("end_flush_A", 0, AA.hi - j.szA, b0, r0p, false, false);
    one("end_flush_B", 0, a0, AB.hi - j.szB, r0p, false, false);
    one("end_flush_R", 0, a0, b0, AR.hi - j.szR, false, false);
    memset(r0p, fx::Arena::CAN, j.szR);
    // 5. wrapped buffers only: every misalignment 0..63 that is a multiple of the element alignment, canaries around the result,
    //    and the end-flush placement shifted so that the buffer still ends at the guard page
    if (j.maps) {
        const size_t al = j.esA < j.esR ? (j.esA < j.esB ? j.esA : j.esB) : (j.esR < j.esB ? j.esR : j.esB);
        for (size_t mis = 0; mis < 64; mis += al) {
            if (mis % j.esA || mis % j.esB || mis % j.esR) continue;
            unsigned char *a = AA.place_mid(j.szA, 64, mis), *b = AB.place_mid(j.szB, 64, (mis * 3) % 64 / j.esB * j.esB), *r = AR.place_mid(j.szR, 64, mis);
            one("misaligned=%lld", (long long)mis, a, b, r, false, true);
            memset(r, fx::Arena::CAN, j.szR);
        }
    }
}

template <class K> struct Own {
    using TA = typename K::TA; using TB = typename K::TB; using TR = typename K::TR;
    static FX_NOINLINE void call(const void* a, const void* b, void* r) {
        fx::escape(a); fx::escape(b); fx::escape(r);
        K::call(*static_cast<const TA*>(a), *static_cast<const TB*>(b), *static_cast<TR*>(r)); fx::clobber();
    }
    static void fa(void* p, size_t n, unsigned s) { using E = typename TA::scalar_type; fill<E>((E*)p, n, s); shape_fill<E>((E*)p, n, K::square_dominant); }
    static void fb(void* p, size_t n, unsigned s) { using E = typename TB::scalar_type; fill<E>((E*)p, n, s); shape_fill<E>((E*)p, n, K::square_dominant); }
    static void go(fx::Ctx& fx) {
        Job j{sizeof(TA), sizeof(TB), sizeof(TR), (size_t)TA::size(), (size_t)TB::size(), (size_t)TR::size(), sizeof(typename TA::scalar_type),
              sizeof(typename TB::scalar_type), sizeof(typename TR::scalar_type), false, K::square_dominant != 0, &fa, &fb, &call};
        run_job(fx, j);
    }
};
template <class K> struct Map {
    using EA = typename K::EA; using EB = typename K::EB; using ER = typename K::ER;
    static FX_NOINLINE void call(const void* a, const void* b, void* r) {
        fx::escape(a); fx::escape(b); fx::escape(r);
        K::call((EA*)const_cast<void*>(a), (EB*)const_cast<void*>(b), (ER*)r); fx::clobber();
    }
    static void fa(void* p, size_t n, unsigned s) { fill<EA>((EA*)p, n, s); shape_fill<EA>((EA*)p, n, K::square_dominant); }
    static void fb(void* p, size_t n, unsigned s) { fill<EB>((EB*)p, n, s); shape_fill<EB>((EB*)p, n, K::square_dominant); }
    static void go(fx::Ctx& fx) {
        Job j{K::NA * sizeof(EA), K::NB * sizeof(EB), K::NR * sizeof(ER), K::NA, K::NB, K::NR, sizeof(EA), sizeof(EB), sizeof(ER), true, K::square_dominant != 0, &fa, &fb, &call};
        run_job(fx, j);
    }
};

// ---- scalar indexing with run-time checks on: every index tuple of the halo throws iff it is out of range ----------
template <class TT, size_t... I> static inline typename TT::scalar_type at(const TT& t, const long long* idx, std::index_sequence<I...>) { return t(idx[I]...); }
template <class TT, size_t RANK> static FX_NOINLINE void halo(fx::Ctx& fx, const size_t (&ext)[RANK]) {
    using T = typename TT::scalar_type;
    fx::Arena& AA = fx.arena[1]; AA.paint();
    TT* tp = (TT*)(AA.hi - sizeof(TT)); new (tp) TT; fill<T>(tp->data(), TT::size(), 4);
    long long idx[RANK]; for (size_t d = 0; d < RANK; ++d) idx[d] = -(long long)ext[d] - 2;
    for (;;) {
        bool in = true; size_t flat = 0;
        for (size_t d = 0; d < RANK; ++d) { long long n = (long long)ext[d], i = idx[d] < 0 ? idx[d] + n : idx[d]; if (i < 0 || i >= n) in = false; flat = flat * ext[d] + (size_t)(in ? i : 0); }
        fx.pt("idx=%lld,%lld,%lld,%lld", idx[0], RANK > 1 ? idx[1] : 0, RANK > 2 ? idx[2] : 0, RANK > 3 ? idx[3] : 0);
        bool threw = false; T v{}; int sig = fx::guarded([&] { try { v = at(*tp, idx, std::make_index_sequence<RANK>()); } catch (const std::exception&) { threw = true; } });
        if (sig) { ++fx.sigs; fx.fail("signal " + std::to_string(sig) + " on an " + (in ? "in-range" : "out-of-range") + " index"); fx.count(flat, true); }
        else if (in) fx.verdict(!threw && !memcmp(&v, &tp->data()[flat], sizeof(T)), flat, true, threw ? "in-range index threw" : "in-range index returned the wrong element");
        else fx.verdict(threw, 0xbad0 + flat, true, "out-of-range index did not raise an error with run-time checks enabled");
        size_t d = RANK; while (d-- > 0) { if (++idx[d] <= (long long)ext[d] + 1) break; idx[d] = -(long long)ext[d] - 2; if (d == 0) return; }
    }
}

} // namespace c07
