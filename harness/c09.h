// c09.h - lazy linear-algebra operators vs their eager counterparts (property C09)
// A case is a local struct K with the statement written twice (K::lazy, K::eager); the driver is run-time code per type.
#pragma once
#include "fxv.h"
#include <Fastor/Fastor.h>

namespace c09 {
using namespace Fastor;

template <class T> struct Job {
    size_t n, sizeofM;          // square operands n x n
    bool uses_div;              // statement divides by its right-hand side
    void (*lazy)(void* D, const void* A, const void* B, const void* C);
    void (*eager)(void* D, const void* A, const void* B, const void* C);
};

template <class T> static void fill_dd(T* m, size_t n, unsigned salt) {   // strictly diagonally dominant, distinct non-zero entries
    for (size_t i = 0; i < n; ++i) for (size_t k = 0; k < n; ++k) {
        double off = (double)((int)((i * 3 + k * 5 + salt * 7) % 7) - 3); if (off == 0) off = 0.5;
        m[i * n + k] = (T)(i == k ? (double)(4 * n + 2 + (i + salt) % 3) : off * 0.75);
    }
}

template <class T> static FX_NOINLINE void run_job(fx::Ctx& fx, const Job<T>& j) {
    const size_t n = j.n, nn = n * n;
    fx.arena[0].paint(); fx.arena[1].paint();
    unsigned char* base = fx.arena[1].lo + 256;
    const size_t stride = (j.sizeofM + 63) / 64 * 64 + 64;
    T *A = (T*)base, *B = (T*)(base + stride), *C = (T*)(base + 2 * stride);
    unsigned char* dp = fx.arena[0].place_mid(j.sizeofM, 64); T* D = (T*)dp;
    std::vector<T> d0(nn), dl(nn), de(nn);
    const long double u = fxv::unit_roundoff<T>::v();
    for (unsigned variant = 0; variant < 3; ++variant) {
        fill_dd(A, n, 1 + variant); fill_dd(B, n, 2 + variant * 2); fill_dd(C, n, 3 + variant);
        for (size_t i = 0; i < nn; ++i) d0[i] = (T)(1.5 + (double)((i * 7 + variant) % 5) * 0.5) * ((i + variant) % 3 == 0 ? -1 : 1);
        if (variant == 2) for (size_t i = 0; i < nn; ++i) C[i] = -C[i];
        fx.pt("data=%lld", (long long)variant);
        memcpy(D, d0.data(), nn * sizeof(T));
        if (!fx.run([&] { j.eager(dp, A, B, C); })) { memset(dp, fx::Arena::CAN, j.sizeofM); continue; }
        memcpy(de.data(), D, nn * sizeof(T));
        bool frame_ok = fx.frame(0, dp, j.sizeofM, "eager statement wrote outside the destination");
        memset(dp, fx::Arena::CAN, j.sizeofM);
        memcpy(D, d0.data(), nn * sizeof(T));
        if (!fx.run([&] { j.lazy(dp, A, B, C); })) { memset(dp, fx::Arena::CAN, j.sizeofM); continue; }
        memcpy(dl.data(), D, nn * sizeof(T));
        frame_ok = fx.frame(0, dp, j.sizeofM, "lazy statement wrote outside the destination") && frame_ok;
        memset(dp, fx::Arena::CAN, j.sizeofM);
        // bound from the data: both spellings run the same kernels on the same operands, possibly associated differently
        long double scale = 0; for (size_t i = 0; i < nn; ++i) { long double v = fabsl((long double)de[i]); if (v == v && !std::isinf((double)de[i]) && v > scale) scale = v; }
        std::vector<long double> ex(nn), bd(nn);
        for (size_t i = 0; i < nn; ++i) { ex[i] = (long double)de[i]; bd[i] = 64.0L * (long double)n * u * (scale + fabsl(ex[i])) + (long double)std::numeric_limits<T>::min(); }
        fx.tol(dl.data(), ex.data(), bd.data(), nn, "lazy vs eager");
        // non-vacuity: the statement must have changed the destination
        if (!memcmp(de.data(), d0.data(), nn * sizeof(T))) fx.route("info.statement_left_destination_unchanged");
    }
}

template <class K> static FX_NOINLINE void tl(void* D, const void* A, const void* B, const void* C) {
    using M = typename K::M; fx::escape(D); fx::escape(A); fx::escape(B); fx::escape(C);
    K::lazy(*static_cast<M*>(D), *static_cast<const M*>(A), *static_cast<const M*>(B), *static_cast<const M*>(C)); fx::clobber();
}
template <class K> static FX_NOINLINE void te(void* D, const void* A, const void* B, const void* C) {
    using M = typename K::M; fx::escape(D); fx::escape(A); fx::escape(B); fx::escape(C);
    K::eager(*static_cast<M*>(D), *static_cast<const M*>(A), *static_cast<const M*>(B), *static_cast<const M*>(C)); fx::clobber();
}
template <class K> static inline void run(fx::Ctx& fx, bool uses_div) {
    using T = typename K::T; using M = typename K::M;
    Job<T> j{1, sizeof(M), uses_div, &tl<K>, &te<K>};
    while (j.n * j.n < (size_t)M::size()) ++j.n;
    run_job<T>(fx, j);
}

// ---------------------------------------------------------------------------------------------------------------
// product chains A1 % A2 % ... % Ak with arbitrary extents: integer-valued data, exact left-to-right reference
// ---------------------------------------------------------------------------------------------------------------
template <class T> struct CJob { int k; size_t ext[7]; size_t sizeofOp[6], sizeofD; int form; void (*call)(void* D, const void* const* ops); };

template <class T> static FX_NOINLINE void run_chain(fx::Ctx& fx, const CJob<T>& j) {
    fx.arena[0].paint(); fx.arena[1].paint();
    const void* ops[6]; T* op[6]; unsigned char* p = fx.arena[1].lo + 256;
    for (int i = 0; i < j.k; ++i) { op[i] = (T*)p; ops[i] = p; p += (j.sizeofOp[i] + 63) / 64 * 64 + 64; }
    const size_t M = j.ext[0], N = j.ext[j.k], dn = M * N;
    unsigned char* dp = fx.arena[0].place_mid(j.sizeofD, 64); T* D = (T*)dp;
    std::vector<long double> cur, nxt, ex(dn), bd(dn, 0.0L); std::vector<T> d0(dn);
    for (unsigned variant = 0; variant < 2; ++variant) {
        for (int i = 0; i < j.k; ++i) { const size_t sz = j.ext[i] * j.ext[i + 1];
            for (size_t e = 0; e < sz; ++e) { long long v = (long long)((e * 5 + i * 3 + variant * 2) % 5) - 2; if (v == 0 && (e + i) % 2) v = 1; op[i][e] = (T)v; } }
        // left-to-right product in long double (exact: small integers)
        cur.assign(op[0], op[0] + j.ext[0] * j.ext[1]);
        for (int i = 1; i < j.k; ++i) { const size_t K = j.ext[i], Nn = j.ext[i + 1]; nxt.assign(M * Nn, 0.0L);
            for (size_t r = 0; r < M; ++r) for (size_t c = 0; c < Nn; ++c) { long double s = 0; for (size_t q = 0; q < K; ++q) s += cur[r * K + q] * (long double)op[i][q * Nn + c]; nxt[r * Nn + c] = s; }
            cur.swap(nxt); }
        for (size_t e = 0; e < dn; ++e) { d0[e] = (T)(long long)(1 + e % 4); ex[e] = j.form == 0 ? cur[e] : j.form == 1 ? (long double)d0[e] + cur[e] : (long double)d0[e] - cur[e]; }
        memcpy(D, d0.data(), dn * sizeof(T));
        fx.pt("data=%lld", (long long)variant);
        if (!fx.run([&] { j.call(dp, ops); })) { memset(dp, fx::Arena::CAN, j.sizeofD); continue; }
        fx.tol(D, ex.data(), bd.data(), dn, "chain product");
        fx.frame(0, dp, j.sizeofD, "chain product wrote outside the destination");
        memset(dp, fx::Arena::CAN, j.sizeofD);
    }
}

// ---------------------------------------------------------------------------------------------------------------
// rectangular operands: D (op)= <lazy tree over A (m x n), B (m x n)>; destination extents follow from the statement
// ---------------------------------------------------------------------------------------------------------------
template <class T> struct RJob { size_t nA, nD, sizeofA, sizeofD; void (*lazy)(void* D, const void* A, const void* B); void (*eager)(void* D, const void* A, const void* B); };

template <class T> static FX_NOINLINE void run_rect_job(fx::Ctx& fx, const RJob<T>& j) {
    fx.arena[0].paint(); fx.arena[1].paint();
    unsigned char* base = fx.arena[1].lo + 256;
    const size_t stride = (j.sizeofA + 63) / 64 * 64 + 64;
    T *A = (T*)base, *B = (T*)(base + stride);
    unsigned char* dp = fx.arena[0].place_mid(j.sizeofD, 64); T* D = (T*)dp;
    std::vector<T> d0(j.nD), dl(j.nD), de(j.nD);
    const long double u = fxv::unit_roundoff<T>::v();
    for (unsigned variant = 0; variant < 2; ++variant) {
        // strictly positive, pairwise distinct within an operand: no product or sum on the right-hand side can vanish
        for (size_t i = 0; i < j.nA; ++i) { A[i] = (T)(1.0 + 0.25 * (double)((i * 3 + variant) % (j.nA + 1)) + 0.125 * (double)i); B[i] = (T)(2.0 + 0.5 * (double)((i * 5 + 2 * variant) % (j.nA + 2)) + 0.0625 * (double)i); }
        for (size_t i = 0; i < j.nD; ++i) d0[i] = (T)(1.5 + (double)((i * 7 + variant) % 5) * 0.5) * ((i + variant) % 3 == 0 ? -1 : 1);
        fx.pt("data=%lld", (long long)variant);
        memcpy(D, d0.data(), j.nD * sizeof(T));
        if (!fx.run([&] { j.eager(dp, A, B); })) { memset(dp, fx::Arena::CAN, j.sizeofD); continue; }
        memcpy(de.data(), D, j.nD * sizeof(T));
        fx.frame(0, dp, j.sizeofD, "eager statement wrote outside the destination");
        memset(dp, fx::Arena::CAN, j.sizeofD);
        memcpy(D, d0.data(), j.nD * sizeof(T));
        if (!fx.run([&] { j.lazy(dp, A, B); })) { memset(dp, fx::Arena::CAN, j.sizeofD); continue; }
        memcpy(dl.data(), D, j.nD * sizeof(T));
        fx.frame(0, dp, j.sizeofD, "lazy statement wrote outside the destination");
        memset(dp, fx::Arena::CAN, j.sizeofD);
        long double scale = 0; for (size_t i = 0; i < j.nD; ++i) { long double v = fabsl((long double)de[i]); if (v == v && !std::isinf((double)de[i]) && v > scale) scale = v; }
        std::vector<long double> ex(j.nD), bd(j.nD);
        for (size_t i = 0; i < j.nD; ++i) { ex[i] = (long double)de[i]; bd[i] = 64.0L * (long double)j.nA * u * (scale + fabsl(ex[i])) + (long double)std::numeric_limits<T>::min(); }
        fx.tol(dl.data(), ex.data(), bd.data(), j.nD, "lazy vs eager (rectangular)");
        if (!memcmp(de.data(), d0.data(), j.nD * sizeof(T))) fx.route("info.statement_left_destination_unchanged");
    }
}
template <class K> static FX_NOINLINE void rl(void* D, const void* A, const void* B) {
    fx::escape(D); fx::escape(A); fx::escape(B);
    K::lazy(*static_cast<typename K::MD*>(D), *static_cast<const typename K::MA*>(A), *static_cast<const typename K::MA*>(B)); fx::clobber();
}
template <class K> static FX_NOINLINE void re(void* D, const void* A, const void* B) {
    fx::escape(D); fx::escape(A); fx::escape(B);
    K::eager(*static_cast<typename K::MD*>(D), *static_cast<const typename K::MA*>(A), *static_cast<const typename K::MA*>(B)); fx::clobber();
}
template <class K> static inline void run_rect(fx::Ctx& fx) {
    using T = typename K::T;
    RJob<T> j{(size_t)K::MA::size(), (size_t)K::MD::size(), sizeof(typename K::MA), sizeof(typename K::MD), &rl<K>, &re<K>};
    run_rect_job<T>(fx, j);
}

} // namespace c09
