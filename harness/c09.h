// c09.h - lazy linear-algebra operators vs their eager counterparts (property C09)
// A case is a local struct K with the statement written twice (K::lazy, K::eager); the driver is run-time code per type.
#pragma once
#include "fxv.h"
#include <Fastor/Fastor.h>

namespace c09 {
using namespace Fastor;

template <class T> struct Job {
    size_t n, sizeofM;          // square operands n x n
    bool uses_div;              // statement divides by its right-hand side
    void (*lazy)(void* D, const void* A, const void* B, const void* C);
    void (*eager)(void* D, const void* A, const void* B, const void* C);
};

template <class T> static void fill_dd(T* m, size_t n, unsigned salt) {   // strictly diagonally dominant, non-zero entries; salt moves both the
    for (size_t i = 0; i < n; ++i) for (size_t k = 0; k < n; ++k) {          // diagonal and the off-diagonal pattern (salt * 2 is not a multiple of the period 7)
        double off = (double)((int)((i * 3 + k * 5 + salt * 2) % 7) - 3); if (off == 0) off = 0.5;
        m[i * n + k] = (T)(i == k ? (double)(4 * n + 2 + (i + salt) % 3) : off * 0.75);
    }
}

// Conditioning of a statement on its data, measured rather than assumed: the eager spelling is re-run on operands (and destination) whose
// entries are moved by +-16u, and by +-64u, relative in four fixed sign patterns each.  sens[i] = largest change of element i under +-16u.
// Two backward-stable evaluations of the statement may differ by that much, so it widens the bound.  An element is ill-conditioned - has no
// correct digit in any evaluation, and is not judged (ill[i]) - when such perturbations move it by a quarter of its value or more and the
// response has saturated (four times the perturbation moves it less than twice as far: v = d / x with x rounding noise goes from v to
// "much smaller than v" under either), or when it stops being finite.  A benign cancellation such as (x - x) * c responds linearly and stays judged.
template <class T> static inline T nudged(T v, size_t idx, unsigned op, unsigned pat, long double eps) {
    uint64_t h = (uint64_t)(idx + 1) * 0x9E3779B97F4A7C15ull + (uint64_t)(op + 1) * 0xC2B2AE3D27D4EB4Full; h ^= h >> 29; h *= 0xBF58476D1CE4E5B9ull; h ^= h >> 32;
    return (T)((long double)v * (1.0L + (((h >> pat) & 1) ? eps : -eps)));
}
template <class T> static inline bool finite_(T v) { return v == v && !std::isinf((double)v); }

template <class T> static FX_NOINLINE void run_job(fx::Ctx& fx, const Job<T>& j) {
    const size_t n = j.n, nn = n * n;
    fx.arena[0].paint(); fx.arena[1].paint();
    unsigned char* base = fx.arena[1].lo + 256;
    const size_t stride = (j.sizeofM + 63) / 64 * 64 + 64;
    T *A = (T*)base, *B = (T*)(base + stride), *C = (T*)(base + 2 * stride);
    unsigned char* dp = fx.arena[0].place_mid(j.sizeofM, 64); T* D = (T*)dp;
    std::vector<T> d0(nn), dl(nn), de(nn), a0(nn), b0(nn), c0(nn);
    const long double u = fxv::unit_roundoff<T>::v();
    for (unsigned variant = 0; variant < 3; ++variant) {
        fill_dd(A, n, 1 + variant); fill_dd(B, n, 2 + variant * 2); fill_dd(C, n, 5 + variant * 3);   // salts distinct mod 7 within a variant: A, B, C differ
        for (size_t i = 0; i < nn; ++i) d0[i] = (T)(1.5 + (double)((i * 7 + variant) % 5) * 0.5) * ((i + variant) % 3 == 0 ? -1 : 1);
        if (variant == 2) for (size_t i = 0; i < nn; ++i) C[i] = -C[i];
        fx.pt("data=%lld", (long long)variant);
        memcpy(D, d0.data(), nn * sizeof(T));
        if (!fx.run([&] { j.eager(dp, A, B, C); })) { memset(dp, fx::Arena::CAN, j.sizeofM); continue; }
        memcpy(de.data(), D, nn * sizeof(T));
        bool frame_ok = fx.frame(0, dp, j.sizeofM, "eager statement wrote outside the destination");
        memset(dp, fx::Arena::CAN, j.sizeofM);
        memcpy(D, d0.data(), nn * sizeof(T));
        if (!fx.run([&] { j.lazy(dp, A, B, C); })) { memset(dp, fx::Arena::CAN, j.sizeofM); continue; }
        memcpy(dl.data(), D, nn * sizeof(T));
        frame_ok = fx.frame(0, dp, j.sizeofM, "lazy statement wrote outside the destination") && frame_ok;
        memset(dp, fx::Arena::CAN, j.sizeofM);
        // measured sensitivity of the eager result (see above)
        std::vector<long double> sens(nn, 0.0L), sens4(nn, 0.0L); std::vector<char> any_nonfin(nn, 0);   // sens: +-16u, sens4: +-64u; non-finite under a perturbation
        memcpy(a0.data(), A, nn * sizeof(T)); memcpy(b0.data(), B, nn * sizeof(T)); memcpy(c0.data(), C, nn * sizeof(T));
        for (unsigned pat = 0; pat < 8; ++pat) {
            const long double eps = (pat < 4 ? 16.0L : 64.0L) * u; std::vector<long double>& sv = pat < 4 ? sens : sens4;
            for (size_t i = 0; i < nn; ++i) { A[i] = nudged(a0[i], i, 0, pat & 3, eps); B[i] = nudged(b0[i], i, 1, pat & 3, eps); C[i] = nudged(c0[i], i, 2, pat & 3, eps); D[i] = nudged(d0[i], i, 3, pat & 3, eps); }
            fx.pt("data=%lld,perturbation=%lld", (long long)variant, (long long)pat);
            const bool ran = fx.run([&] { j.eager(dp, A, B, C); });
            if (ran) for (size_t i = 0; i < nn; ++i) {
                if (!finite_(D[i])) { any_nonfin[i] = 1; continue; }
                if (finite_(de[i])) { long double d = fabsl((long double)D[i] - (long double)de[i]); if (d > sv[i]) sv[i] = d; }
            }
            memset(dp, fx::Arena::CAN, j.sizeofM);
        }
        memcpy(A, a0.data(), nn * sizeof(T)); memcpy(B, b0.data(), nn * sizeof(T)); memcpy(C, c0.data(), nn * sizeof(T));
        fx.pt("data=%lld", (long long)variant);
        // bound from the data: both spellings run the same kernels on the same operands, possibly associated differently
        // ill-conditioned: moved by a quarter of its value or more with a saturated response AND by more than the norm-wise bound at the scale
        // of the data, or finite on the data and not finite under one of the perturbations (division by a quantity that can round to zero)
        size_t n_ill = 0;
        std::vector<char> ill(nn, 0);
        for (size_t i = 0; i < nn; ++i)
            ill[i] = finite_(de[i]) && (any_nonfin[i] || (sens[i] > 0 && sens[i] >= 0.25L * fabsl((long double)de[i]) && sens4[i] < 2.0L * sens[i]));   // a non-finite eager element (x / 0 with an exact 0) is judged as it is
        long double scale = 0; for (size_t i = 0; i < nn; ++i) { long double v = fabsl((long double)de[i]); if (!ill[i] && finite_(de[i]) && v > scale) scale = v; }
        long double big = scale;   // largest magnitude among the operands, the destination and the judged part of the result
        for (size_t i = 0; i < nn; ++i) for (long double v : {fabsl((long double)a0[i]), fabsl((long double)b0[i]), fabsl((long double)c0[i]), fabsl((long double)d0[i])}) if (v > big) big = v;
        for (size_t i = 0; i < nn; ++i) {
            if (ill[i] && !any_nonfin[i] && !(sens[i] > 64.0L * (long double)n * u * big)) ill[i] = 0;   // e.g. x - x: judged absolutely, bound widened by 4 * sens
            n_ill += ill[i];
        }
        std::vector<long double> ex(nn), bd(nn);
        for (size_t i = 0; i < nn; ++i) {
            if (ill[i]) { ex[i] = (long double)dl[i]; bd[i] = std::numeric_limits<long double>::infinity(); continue; }
            ex[i] = (long double)de[i]; bd[i] = 64.0L * (long double)n * u * (scale + fabsl(ex[i])) + 4.0L * sens[i] + (long double)std::numeric_limits<T>::min();
        }
        fx.tol(dl.data(), ex.data(), bd.data(), nn, "lazy vs eager");
        if (n_ill) fx.route("info.ill_conditioned_elements_not_judged", n_ill);
        if (n_ill == nn) fx.route("info.statement_ill_conditioned_everywhere");
        // non-vacuity: the statement must have changed the destination
        if (!memcmp(de.data(), d0.data(), nn * sizeof(T))) fx.route("info.statement_left_destination_unchanged");
    }
}

template <class K> static FX_NOINLINE void tl(void* D, const void* A, const void* B, const void* C) {
    using M = typename K::M; fx::escape(D); fx::escape(A); fx::escape(B); fx::escape(C);
    K::lazy(*static_cast<M*>(D), *static_cast<const M*>(A), *static_cast<const M*>(B), *static_cast<const M*>(C)); fx::clobber();
}
template <class K> static FX_NOINLINE void te(void* D, const void* A, const void* B, const void* C) {
    using M = typename K::M; fx::escape(D); fx::escape(A); fx::escape(B); fx::escape(C);
    K::eager(*static_cast<M*>(D), *static_cast<const M*>(A), *static_cast<const M*>(B), *static_cast<const M*>(C)); fx::clobber();
}
template <class K> static inline void run(fx::Ctx& fx, bool uses_div) {
    using T = typename K::T; using M = typename K::M;
    Job<T> j{1, sizeof(M), uses_div, &tl<K>, &te<K>};
    while (j.n * j.n < (size_t)M::size()) ++j.n;
    run_job<T>(fx, j);
}

// ---------------------------------------------------------------------------------------------------------------
// product chains A1 % A2 % ... % Ak with arbitrary extents: integer-valued data, exact left-to-right reference
// ---------------------------------------------------------------------------------------------------------------
template <class T> struct CJob { int k; size_t ext[7]; size_t sizeofOp[6], sizeofD; int form; void (*call)(void* D, const void* const* ops); };

template <class T> static FX_NOINLINE void run_chain(fx::Ctx& fx, const CJob<T>& j) {
    fx.arena[0].paint(); fx.arena[1].paint();
    const void* ops[6]; T* op[6]; unsigned char* p = fx.arena[1].lo + 256;
    for (int i = 0; i < j.k; ++i) { op[i] = (T*)p; ops[i] = p; p += (j.sizeofOp[i] + 63) / 64 * 64 + 64; }
    const size_t M = j.ext[0], N = j.ext[j.k], dn = M * N;
    unsigned char* dp = fx.arena[0].place_mid(j.sizeofD, 64); T* D = (T*)dp;
    std::vector<long double> cur, nxt, ex(dn), bd(dn, 0.0L); std::vector<T> d0(dn);
    for (unsigned variant = 0; variant < 2; ++variant) {
        for (int i = 0; i < j.k; ++i) { const size_t sz = j.ext[i] * j.ext[i + 1];
            for (size_t e = 0; e < sz; ++e) { long long v = (long long)((e * 5 + i * 3 + variant * 2) % 5) - 2; if (v == 0 && (e + i) % 2) v = 1; op[i][e] = (T)v; } }
        // left-to-right product in long double (exact: small integers)
        cur.assign(op[0], op[0] + j.ext[0] * j.ext[1]);
        for (int i = 1; i < j.k; ++i) { const size_t K = j.ext[i], Nn = j.ext[i + 1]; nxt.assign(M * Nn, 0.0L);
            for (size_t r = 0; r < M; ++r) for (size_t c = 0; c < Nn; ++c) { long double s = 0; for (size_t q = 0; q < K; ++q) s += cur[r * K + q] * (long double)op[i][q * Nn + c]; nxt[r * Nn + c] = s; }
            cur.swap(nxt); }
        for (size_t e = 0; e < dn; ++e) { d0[e] = (T)(long long)(1 + e % 4); ex[e] = j.form == 0 ? cur[e] : j.form == 1 ? (long double)d0[e] + cur[e] : (long double)d0[e] - cur[e]; }
        memcpy(D, d0.data(), dn * sizeof(T));
        fx.pt("data=%lld", (long long)variant);
        if (!fx.run([&] { j.call(dp, ops); })) { memset(dp, fx::Arena::CAN, j.sizeofD); continue; }
        fx.tol(D, ex.data(), bd.data(), dn, "chain product");
        fx.frame(0, dp, j.sizeofD, "chain product wrote outside the destination");
        memset(dp, fx::Arena::CAN, j.sizeofD);
    }
}

// ---------------------------------------------------------------------------------------------------------------
// rectangular operands: D (op)= <lazy tree over A (m x n), B (m x n)>; destination extents follow from the statement
// ---------------------------------------------------------------------------------------------------------------
template <class T> struct RJob { size_t nA, nD, sizeofA, sizeofD; void (*lazy)(void* D, const void* A, const void* B); void (*eager)(void* D, const void* A, const void* B); };

template <class T> static FX_NOINLINE void run_rect_job(fx::Ctx& fx, const RJob<T>& j) {
    fx.arena[0].paint(); fx.arena[1].paint();
    unsigned char* base = fx.arena[1].lo + 256;
    const size_t stride = (j.sizeofA + 63) / 64 * 64 + 64;
    T *A = (T*)base, *B = (T*)(base + stride);
    unsigned char* dp = fx.arena[0].place_mid(j.sizeofD, 64); T* D = (T*)dp;
    std::vector<T> d0(j.nD), dl(j.nD), de(j.nD);
    const long double u = fxv::unit_roundoff<T>::v();
    for (unsigned variant = 0; variant < 2; ++variant) {
        // strictly positive, pairwise distinct within an operand: no product or sum on the right-hand side can vanish
        for (size_t i = 0; i < j.nA; ++i) { A[i] = (T)(1.0 + 0.25 * (double)((i * 3 + variant) % (j.nA + 1)) + 0.125 * (double)i); B[i] = (T)(2.0 + 0.5 * (double)((i * 5 + 2 * variant) % (j.nA + 2)) + 0.0625 * (double)i); }
        for (size_t i = 0; i < j.nD; ++i) d0[i] = (T)(1.5 + (double)((i * 7 + variant) % 5) * 0.5) * ((i + variant) % 3 == 0 ? -1 : 1);
        fx.pt("data=%lld", (long long)variant);
        memcpy(D, d0.data(), j.nD * sizeof(T));
        if (!fx.run([&] { j.eager(dp, A, B); })) { memset(dp, fx::Arena::CAN, j.sizeofD); continue; }
        memcpy(de.data(), D, j.nD * sizeof(T));
        fx.frame(0, dp, j.sizeofD, "eager statement wrote outside the destination");
        memset(dp, fx::Arena::CAN, j.sizeofD);
        memcpy(D, d0.data(), j.nD * sizeof(T));
        if (!fx.run([&] { j.lazy(dp, A, B); })) { memset(dp, fx::Arena::CAN, j.sizeofD); continue; }
        memcpy(dl.data(), D, j.nD * sizeof(T));
        fx.frame(0, dp, j.sizeofD, "lazy statement wrote outside the destination");
        memset(dp, fx::Arena::CAN, j.sizeofD);
        long double scale = 0; for (size_t i = 0; i < j.nD; ++i) { long double v = fabsl((long double)de[i]); if (v == v && !std::isinf((double)de[i]) && v > scale) scale = v; }
        std::vector<long double> ex(j.nD), bd(j.nD);
        for (size_t i = 0; i < j.nD; ++i) { ex[i] = (long double)de[i]; bd[i] = 64.0L * (long double)j.nA * u * (scale + fabsl(ex[i])) + (long double)std::numeric_limits<T>::min(); }
        fx.tol(dl.data(), ex.data(), bd.data(), j.nD, "lazy vs eager (rectangular)");
        if (!memcmp(de.data(), d0.data(), j.nD * sizeof(T))) fx.route("info.statement_left_destination_unchanged");
    }
}
template <class K> static FX_NOINLINE void rl(void* D, const void* A, const void* B) {
    fx::escape(D); fx::escape(A); fx::escape(B);
    K::lazy(*static_cast<typename K::MD*>(D), *static_cast<const typename K::MA*>(A), *static_cast<const typename K::MA*>(B)); fx::clobber();
}
template <class K> static FX_NOINLINE void re(void* D, const void* A, const void* B) {
    fx::escape(D); fx::escape(A); fx::escape(B);
    K::eager(*static_cast<typename K::MD*>(D), *static_cast<const typename K::MA*>(A), *static_cast<const typename K::MA*>(B)); fx::clobber();
}
template <class K> static inline void run_rect(fx::Ctx& fx) {
    using T = typename K::T;
    RJob<T> j{(size_t)K::MA::size(), (size_t)K::MD::size(), sizeof(typename K::MA), sizeof(typename K::MD), &rl<K>, &re<K>};
    run_rect_job<T>(fx, j);
}

} // namespace c09
