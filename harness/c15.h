// c15.h - three- and four-operand einsum networks (property C15).
// Thin thunks around einsum<I,J,K[,L]>(a,b,c[,d]) / contraction<...>; the library's public cost-model constants
// (triplet_flop_cost / quartet_flop_cost ::which_variant, ::min_cost) are recorded and compared with the enumerator's
// independent recomputation.  Values, reference Einstein sum and judgement: einsum_common.h.
#pragma once
#if defined(FASTOR_DONT_PERFORM_OP_MIN) && !defined(C15_NO_SHIM)
// <Fastor/Fastor.h> does not compile with FASTOR_DONT_PERFORM_OP_MIN: abstract_contraction.h:192 names einsum_helper, which
// opmin_meta.h declares only with op-min on.  Pre-declaring the template is enough to reach the op-min-off kernels; the
// defect itself is recorded by the C15_NO_SHIM build (see props/C15.py).
namespace Fastor { template <typename... Ts> struct einsum_helper; }
#endif
#include "einsum_common.h"

namespace c15 {
using namespace Fastor;

enum Entry { E_EINSUM = 0, E_CONTRACTION = 1 };
template <int E> struct Ent {};

template <class I, class J, class K, class A, class B, class C> static inline auto call3(Ent<E_EINSUM>, const A& a, const B& b, const C& c) -> decltype(einsum<I, J, K>(a, b, c)) { return einsum<I, J, K>(a, b, c); }
template <class I, class J, class K, class A, class B, class C> static inline auto call3(Ent<E_CONTRACTION>, const A& a, const B& b, const C& c) -> decltype(contraction<I, J, K>(a, b, c)) { return contraction<I, J, K>(a, b, c); }
template <class I, class J, class K, class L, class A, class B, class C, class D> static inline auto call4(Ent<E_EINSUM>, const A& a, const B& b, const C& c, const D& d) -> decltype(einsum<I, J, K, L>(a, b, c, d)) { return einsum<I, J, K, L>(a, b, c, d); }
template <class I, class J, class K, class L, class A, class B, class C, class D> static inline auto call4(Ent<E_CONTRACTION>, const A& a, const B& b, const C& c, const D& d) -> decltype(contraction<I, J, K, L>(a, b, c, d)) { return contraction<I, J, K, L>(a, b, c, d); }

template <int E, class I, class J, class K, class A, class B, class C> static FX_NOINLINE void thunk3(const void* const* ops, void* res) {
    const A& a = *static_cast<const A*>(ops[0]); const B& b = *static_cast<const B*>(ops[1]); const C& c = *static_cast<const C*>(ops[2]);
    using R = decltype(call3<I, J, K>(Ent<E>(), a, b, c));
    fx::escape(ops[0]); fx::escape(ops[1]); fx::escape(ops[2]); fx::escape(res);
    new (res) R(call3<I, J, K>(Ent<E>(), a, b, c));
    fx::clobber();
}
template <int E, class I, class J, class K, class L, class A, class B, class C, class D> static FX_NOINLINE void thunk4(const void* const* ops, void* res) {
    const A& a = *static_cast<const A*>(ops[0]); const B& b = *static_cast<const B*>(ops[1]);
    const C& c = *static_cast<const C*>(ops[2]); const D& d = *static_cast<const D*>(ops[3]);
    using R = decltype(call4<I, J, K, L>(Ent<E>(), a, b, c, d));
    fx::escape(ops[0]); fx::escape(ops[1]); fx::escape(ops[2]); fx::escape(ops[3]); fx::escape(res);
    new (res) R(call4<I, J, K, L>(Ent<E>(), a, b, c, d));
    fx::clobber();
}

template <class T, int E, class I, class J, class K, class A, class B, class C, class Exp> static inline void net3(fx::Ctx& fx, const es::Spec& s) {
    using R = decltype(call3<I, J, K>(Ent<E>(), std::declval<const A&>(), std::declval<const B&>(), std::declval<const C&>()));
    es::Job<T> j; j.s = &s;
    j.sizeofOp[0] = sizeof(A); j.sizeofOp[1] = sizeof(B); j.sizeofOp[2] = sizeof(C);
    es::describe_result<T, R, Exp>(j);
    j.call = &thunk3<E, I, J, K, A, B, C>;
    j.nlib = 0;
#ifndef FASTOR_DONT_PERFORM_OP_MIN
    using cm = triplet_flop_cost<I, J, K, A, B, C>;
    j.lib[0] = (int)cm::which_variant; j.libname[0] = "lib.triplet.which_variant";
    j.lib[1] = (int)cm::min_cost;      j.libname[1] = "lib.min_cost";
    j.nlib = 2; j.strict_model = true;
#endif
    es::run_job<T>(fx, j);
}

#ifndef FASTOR_DONT_PERFORM_OP_MIN
template <class CM, int V> struct InnerVariant;
template <class CM> struct InnerVariant<CM, 0> { static constexpr int value = (int)CM::triplet_cost_012::which_variant; };
template <class CM> struct InnerVariant<CM, 1> { static constexpr int value = (int)CM::triplet_cost_013::which_variant; };
template <class CM> struct InnerVariant<CM, 2> { static constexpr int value = (int)CM::triplet_cost_023::which_variant; };
template <class CM> struct InnerVariant<CM, 3> { static constexpr int value = (int)CM::triplet_cost_123::which_variant; };
#endif

template <class T, int E, class I, class J, class K, class L, class A, class B, class C, class D, class Exp> static inline void net4(fx::Ctx& fx, const es::Spec& s) {
    using R = decltype(call4<I, J, K, L>(Ent<E>(), std::declval<const A&>(), std::declval<const B&>(), std::declval<const C&>(), std::declval<const D&>()));
    es::Job<T> j; j.s = &s;
    j.sizeofOp[0] = sizeof(A); j.sizeofOp[1] = sizeof(B); j.sizeofOp[2] = sizeof(C); j.sizeofOp[3] = sizeof(D);
    es::describe_result<T, R, Exp>(j);
    j.call = &thunk4<E, I, J, K, L, A, B, C, D>;
    j.nlib = 0;
#ifndef FASTOR_DONT_PERFORM_OP_MIN
    using cm = quartet_flop_cost<I, J, K, L, A, B, C, D>;
    j.lib[0] = (int)cm::which_variant; j.libname[0] = "lib.quartet.which_variant";
    j.lib[1] = (int)cm::min_cost;      j.libname[1] = "lib.min_cost";
    j.lib[2] = InnerVariant<cm, (int)cm::which_variant>::value; j.libname[2] = "lib.quartet.inner_variant";
    j.nlib = 3; j.strict_model = true;
#endif
    es::run_job<T>(fx, j);
}

} // namespace c15
