// c04.h - reading through an index or a slice (property C04)
// Thin thunk per (element type, read context, parent shape, argument kinds): just the Fastor expression.
// Fat run-time driver per element type: enumerates the per-axis option lists (ranges x encodings, integers), builds the
// expected result with the reference odometer on index-coded data and judges element-wise + canary frame.
#pragma once
#include "views_common.h"

namespace c04 {
using namespace Fastor;
using namespace vw;

// read contexts.  V*: destination is a *dynamic* slice R(seq(0,e0),...) of a scratch tensor of the parent's type, so
// extents are run-time quantities; F* / CTOR*: destination is a fixed Tensor<T,e0,...> (extents are template arguments).
enum Ctx { VASSIGN = 0,  // R(d) = A(v)          view assigned into a view of the same type (copy-assignment operator)
           VCASSIGN = 1, // R(d) = cA(v)         const view assigned into a view (generic expression assignment)
           VADD = 2,     // R(d) += A(v)
           VPLUS = 3,    // R(d) = A(v) + C(d)   view inside +
           VMUL = 4,     // R(d) = A(v) * C(d)   view inside *
           VNEG = 5,     // R(d) = -A(v)         view inside unary minus
           SUM = 6,      // sum(A(v))
           SHAPE = 7,    // A(v).dimension(i), A(v).size()
           CTOR = 8,     // Tensor<T,e...> r(A(v))
           CCTOR = 9,    // Tensor<T,e...> r(cA(v))      const parent
           CTORX = 10,   // Tensor<T,e...> r(A(v) + C)   construction from an expression containing the view
           FASSIGN = 11, // r = A(v)
           FADD = 12,    // r += A(v)
           FEXPR = 13,   // r = 2*A(v) - C
           EVAL = 14,    // r = evaluate(A(v))           (compile-time views only: result_type has the view's extents)
           CFADD = 15,   // r += cA(v)                   const parent through the flat vector reader
           CFEXPR = 16,  // r = 2*cA(v) - C              const parent inside an expression
           CFASSIGN = 17,// r = cA(v)
           NCTX = 18 };
static inline const char* ctx_name(int c) {
    static const char* n[] = {"vassign", "vcassign", "vadd", "vplus", "vmul", "vneg", "sum", "shape", "ctor", "cctor", "ctorx",
                              "fassign", "fadd", "fexpr", "eval", "cfadd", "cfexpr", "cfassign"};
    return c >= 0 && c < NCTX ? n[c] : "?";
}

template <class T> struct Args {
    void* A; void* R; const void* C;   // parent tensor, destination object, second operand (type of the destination)
    const seq* s; const int* iv;       // per-axis run-time arguments (seq kinds / integer kinds)
    const seq* d;                      // destination block seq(0,e_i) per axis (V* contexts)
    T* out; long long* iout;           // scalar results (SUM) / integer results (DIMS)
};

template <int C> struct CT {};

// ---- contexts with run-time extents -----------------------------------------------------------------------------------
template <class T, class DIMS, class... K> struct ThV {
    using TA = typename DIMS::template tensor<T>;
    using IS = std::make_index_sequence<sizeof...(K)>;
    template <size_t... I> static FASTOR_INLINE decltype(auto) src(TA& A, const Args<T>& a, std::index_sequence<I...>) { return A(mk(K(), a.s[I], a.iv[I])...); }
    template <size_t... I> static FASTOR_INLINE decltype(auto) csrc(const TA& A, const Args<T>& a, std::index_sequence<I...>) { return A(mk(K(), a.s[I], a.iv[I])...); }
    template <size_t... I> static FASTOR_INLINE decltype(auto) dst(TA& R, const Args<T>& a, std::index_sequence<I...>) { return R(a.d[I]...); }
    static TA& A(const Args<T>& a) { return *static_cast<TA*>(a.A); }
    static TA& R(const Args<T>& a) { return *static_cast<TA*>(a.R); }
    static TA& Cm(const Args<T>& a) { return *static_cast<TA*>(const_cast<void*>(a.C)); }   // non-const: only VCASSIGN reads through a const view

    static FASTOR_INLINE void run(CT<VASSIGN>, const Args<T>& a)  { dst(R(a), a, IS()) = src(A(a), a, IS()); }
    static FASTOR_INLINE void run(CT<VCASSIGN>, const Args<T>& a) { dst(R(a), a, IS()) = csrc(A(a), a, IS()); }
    static FASTOR_INLINE void run(CT<VADD>, const Args<T>& a)     { dst(R(a), a, IS()) += src(A(a), a, IS()); }
    static FASTOR_INLINE void run(CT<VPLUS>, const Args<T>& a)    { dst(R(a), a, IS()) = src(A(a), a, IS()) + dst(Cm(a), a, IS()); }
    static FASTOR_INLINE void run(CT<VMUL>, const Args<T>& a)     { dst(R(a), a, IS()) = src(A(a), a, IS()) * dst(Cm(a), a, IS()); }
    static FASTOR_INLINE void run(CT<VNEG>, const Args<T>& a)     { dst(R(a), a, IS()) = -src(A(a), a, IS()); }
    static FASTOR_INLINE void run(CT<SUM>, const Args<T>& a)      { *a.out = sum(src(A(a), a, IS())); }
    static FASTOR_INLINE void run(CT<SHAPE>, const Args<T>& a) {
        auto&& v = src(A(a), a, IS());
        for (size_t i = 0; i < sizeof...(K); ++i) a.iout[i] = (long long)v.dimension(i);
        a.iout[sizeof...(K)] = (long long)v.size();
    }
};

// ---- contexts with a fixed destination --------------------------------------------------------------------------------
template <class T, class DIMS, class... K> struct ThF;
template <class T, size_t... D, class... K> struct ThF<T, Dims<D...>, K...> {
    using TA = Tensor<T, D...>;
    using TR = Tensor<T, (size_t)KExt<K, (int)D>::value...>;
    using IS = std::make_index_sequence<sizeof...(K)>;
    static_assert(std::is_trivially_destructible<TR>::value, "tensor objects are placed in raw arenas");
    template <size_t... I> static FASTOR_INLINE decltype(auto) src(TA& A, const Args<T>& a, std::index_sequence<I...>) { return A(mk(K(), a.s[I], a.iv[I])...); }
    template <size_t... I> static FASTOR_INLINE decltype(auto) csrc(const TA& A, const Args<T>& a, std::index_sequence<I...>) { return A(mk(K(), a.s[I], a.iv[I])...); }
    static TA& A(const Args<T>& a) { return *static_cast<TA*>(a.A); }
    static TR& R(const Args<T>& a) { return *static_cast<TR*>(a.R); }
    static const TR& C(const Args<T>& a) { return *static_cast<const TR*>(a.C); }

    static FASTOR_INLINE void run(CT<CTOR>, const Args<T>& a)    { new (a.R) TR(src(A(a), a, IS())); }
    static FASTOR_INLINE void run(CT<CCTOR>, const Args<T>& a)   { new (a.R) TR(csrc(A(a), a, IS())); }
    static FASTOR_INLINE void run(CT<CTORX>, const Args<T>& a)   { new (a.R) TR(src(A(a), a, IS()) + C(a)); }
    static FASTOR_INLINE void run(CT<FASSIGN>, const Args<T>& a) { R(a) = src(A(a), a, IS()); }
    static FASTOR_INLINE void run(CT<FADD>, const Args<T>& a)    { R(a) += src(A(a), a, IS()); }
    static FASTOR_INLINE void run(CT<FEXPR>, const Args<T>& a)   { R(a) = T(2) * src(A(a), a, IS()) - C(a); }
    static FASTOR_INLINE void run(CT<EVAL>, const Args<T>& a)    { R(a) = evaluate(src(A(a), a, IS())); }
    static FASTOR_INLINE void run(CT<CFADD>, const Args<T>& a)   { R(a) += csrc(A(a), a, IS()); }
    static FASTOR_INLINE void run(CT<CFEXPR>, const Args<T>& a)  { R(a) = T(2) * csrc(A(a), a, IS()) - C(a); }
    static FASTOR_INLINE void run(CT<CFASSIGN>, const Args<T>& a){ R(a) = csrc(A(a), a, IS()); }
    static constexpr size_t sizeofR() { return sizeof(TR); }
};

template <class T, int CTX, class DIMS, class... K> static FX_NOINLINE void thunk(const Args<T>& a) {
    fx::escape(a.A); fx::escape(a.R); fx::escape(a.C); fx::escape(a.s); fx::escape(a.iv); fx::escape(a.d);
    using TH = typename std::conditional<(CTX < CTOR), ThV<T, DIMS, K...>, ThF<T, DIMS, K...>>::type;
    TH::run(CT<CTX>(), a);
    fx::clobber();
}

enum Mode { M_SET_MASK = 3,        // range set of run-time seq axes: RS_FULL / RS_FULLQ / RS_THIN / RS_ONE
            M_LASTFULLQ = 4,       // ... but the last axis uses RS_FULLQ
            M_ENC = 8,             // offer every encoding (plain, last-relative, both relative, seq(-1)) instead of plain only
            M_NEGINT = 16,         // last axis: bare negative integers -N..-2 (not judged)
            M_LASTELEM = 32 };     // last axis: only seq(-1) / the integer `last`

template <class T> struct Job {
    Shape sh; KindInfo k[MAXR]; int ctx; unsigned mode; int W;
    size_t sizeofA, sizeofR;     // sizeofR: the fixed destination object (F contexts); V contexts use sizeofA
    void (*call)(const Args<T>&);
};

template <class T> struct Driver {
    fx::Ctx& fx; const Job<T>& j; const Shape& sh;
    bool fixed;
    unsigned char *Ap, *Rp, *Cp; T *Ad, *Rd, *Cd;
    std::vector<Opt> opts[MAXR];
    std::vector<T> A0, R0, expR;
    int nR;                       // number of judged elements of the destination
    Sel sel, dsel;
    uint64_t points = 0;
    RouteCount routes;

    Driver(fx::Ctx& f, const Job<T>& jj) : fx(f), j(jj), sh(jj.sh), fixed(jj.ctx >= CTOR) {
        for (int i = 0; i < 3; ++i) fx.arena[i].paint();
        const size_t szR = fixed ? j.sizeofR : j.sizeofA;
        Rp = fx.arena[0].place_mid(szR, 64); Ap = fx.arena[1].place_mid(j.sizeofA, 64); Cp = fx.arena[2].place_mid(szR, 64);
        Ad = (T*)Ap; Rd = (T*)Rp; Cd = (T*)Cp;
        A0.resize((size_t)sh.size); fill_index_coded(A0.data(), sh.size);
        memcpy(Ad, A0.data(), sizeof(T) * (size_t)sh.size);
        for (int i = 0; i < sh.rank; ++i) {
            int set = (int)(j.mode & M_SET_MASK);
            const bool lastax = (i == sh.rank - 1);
            if ((j.mode & M_LASTFULLQ) && lastax) set = RS_FULLQ;
            // seq(-1) on a 1-D tensor is kept out of the general enumeration (known defect, own case identity: M_LASTELEM)
            unsigned encs = (j.mode & M_ENC) ? (sh.rank == 1 ? 0x7u : 0xFu) : 1u;
            axis_options(j.k[i], sh.d[i], set, encs, (j.mode & M_NEGINT) && lastax, opts[i]);
            if ((j.mode & M_LASTELEM) && lastax) {
                opts[i].clear();
                opts[i].emplace_back(Ax{sh.d[i] - 1, sh.d[i], 1}, seq(-1), -1, E_LASTELEM);
            }
        }
    }
    void fill_dest(int n) {
        nR = n; R0.resize((size_t)n); expR.resize((size_t)n);
        for (int p = 0; p < n; ++p) R0[(size_t)p] = (T)(-(long long)(1000 + p));
        memcpy(Rd, R0.data(), sizeof(T) * (size_t)n);
        fill_small(Cd, n, 1);
    }
    void set_point(const int* c) {
        long long v[MAXR];
        for (int i = 0; i < sh.rank; ++i) { const Opt& o = opts[i][(size_t)c[i]]; v[i] = (long long)o.enc * 1000000 + ax_code(o.a); }
        switch (sh.rank) {
            case 1: fx.pt("r0=%lld", v[0]); break;
            case 2: fx.pt("r0=%lld,r1=%lld", v[0], v[1]); break;
            case 3: fx.pt("r0=%lld,r1=%lld,r2=%lld", v[0], v[1], v[2]); break;
            case 4: fx.pt("r0=%lld,r1=%lld,r2=%lld,r3=%lld", v[0], v[1], v[2], v[3]); break;
            default: fx.pt("r0=%lld,r1=%lld,r2=%lld,r3=%lld,r4=%lld", v[0], v[1], v[2], v[3], v[4]); break;
        }
    }
    void one(const int* c) {
        Ax ax[MAXR], dax[MAXR];
        seq s[MAXR] = {seq(0, 1), seq(0, 1), seq(0, 1), seq(0, 1), seq(0, 1)};
        seq d[MAXR] = {seq(0, 1), seq(0, 1), seq(0, 1), seq(0, 1), seq(0, 1)};
        int iv[MAXR] = {0, 0, 0, 0, 0};
        for (int i = 0; i < sh.rank; ++i) {
            const Opt& o = opts[i][(size_t)c[i]];
            ax[i] = o.a; s[i] = o.s; iv[i] = o.iv;
            dax[i] = Ax{0, ext_of(o.a), 1}; d[i] = seq(0, ext_of(o.a), 1);
        }
        select(sh, ax, sel);
        set_point(c); ++points; routes.add(ax[sh.rank - 1], j.W);
        T out = fxv::sentinel<T>::v(); long long iout[MAXR + 1] = {-7, -7, -7, -7, -7, -7};
        Args<T> a{Ap, Rp, Cp, s, iv, d, &out, iout};
        const int n = sel.n;
        if (!fixed) {
            select(sh, dax, dsel);
            for (int p = 0; p < nR; ++p) expR[(size_t)p] = R0[(size_t)p];
            for (int k = 0; k < n; ++k) {
                const size_t q = (size_t)dsel.idx[(size_t)k]; const T v = A0[(size_t)sel.idx[(size_t)k]];
                switch (j.ctx) {
                    case VASSIGN: case VCASSIGN: expR[q] = v; break;
                    case VADD: expR[q] = R0[q] + v; break;
                    case VPLUS: expR[q] = v + Cd[q]; break;
                    case VMUL: expR[q] = v * Cd[q]; break;
                    case VNEG: expR[q] = -v; break;
                    default: break;
                }
            }
        } else {
            for (int k = 0; k < n; ++k) {
                const T v = A0[(size_t)sel.idx[(size_t)k]];
                switch (j.ctx) {
                    case CTORX: expR[(size_t)k] = v + Cd[k]; break;
                    case FADD: case CFADD: expR[(size_t)k] = R0[(size_t)k] + v; break;
                    case FEXPR: case CFEXPR: expR[(size_t)k] = T(2) * v - Cd[k]; break;
                    default: expR[(size_t)k] = v; break;
                }
            }
        }
        const bool ran = fx.run([&] { j.call(a); });
        if (ran) {
            if (j.ctx == SUM) {
                T e = T(0); for (int k = 0; k < n; ++k) e += A0[(size_t)sel.idx[(size_t)k]];
                fx.eq(&out, &e, 1, (const T*)nullptr, "sum");
            } else if (j.ctx == SHAPE) {
                bool ok = iout[sh.rank] == (long long)n; uint64_t h = (uint64_t)n;
                for (int i = 0; i < sh.rank; ++i) { ok = ok && iout[i] == (long long)sel.ext[i]; h = fx::mix64(h, (uint64_t)sel.ext[i]); }
                std::string dtl;
                if (!ok) {
                    dtl = "dimension()/size(): observed";
                    for (int i = 0; i <= sh.rank; ++i) dtl += " " + std::to_string(iout[i]);
                    dtl += " expected"; for (int i = 0; i < sh.rank; ++i) dtl += " " + std::to_string(sel.ext[i]);
                    dtl += " " + std::to_string(n);
                }
                fx.verdict(ok, h, true, dtl);
            } else {
                fx.eq(Rd, expR.data(), (size_t)nR, R0.data(), ctx_name(j.ctx));
            }
            fx.frame(0, Rp, fixed ? j.sizeofR : j.sizeofA, "write outside the destination object");
            if (memcmp(Ad, A0.data(), sizeof(T) * (size_t)sh.size) != 0) fx.fail("the parent tensor was modified by a read");
        }
        // restore (also after a fault: the destination may be half written, canaries may be damaged)
        if (!ran || memcmp(Rd, R0.data(), sizeof(T) * (size_t)nR) != 0) memcpy(Rd, R0.data(), sizeof(T) * (size_t)nR);
        if (!ran) {
            for (int i = 0; i < 3; ++i) fx.arena[i].paint();
            memcpy(Ad, A0.data(), sizeof(T) * (size_t)sh.size); memcpy(Rd, R0.data(), sizeof(T) * (size_t)nR); fill_small(Cd, nR, 1);
        }
    }
    void run_all() {
        int fe = 1;
        if (fixed) for (int i = 0; i < sh.rank; ++i) { if (opts[i].empty()) { fx.note("empty option list"); return; } fe *= ext_of(opts[i][0].a); }
        fill_dest(fixed ? fe : sh.size);
        int c[MAXR] = {0, 0, 0, 0, 0};
        for (int i = 0; i < sh.rank; ++i) if (opts[i].empty()) { fx.note("empty option list"); return; }
        for (;;) {
            one(c);
            int i = sh.rank - 1;
            for (; i >= 0; --i) { if (++c[i] < (int)opts[i].size()) break; c[i] = 0; }
            if (i < 0) break;
        }
        fx.route(std::string("ctx.") + ctx_name(j.ctx), points);
        routes.flush(fx, "load.");
    }
};

template <class T> static FX_NOINLINE void run_job(fx::Ctx& fx, const Job<T>& j) { Driver<T> d(fx, j); d.run_all(); }

template <class T, int CTX, class DIMS, class... K> struct SizeR { static constexpr size_t value = 0; };
template <class T, int CTX, class DIMS, class... K> static inline size_t sizeofR(std::true_type) { return ThF<T, DIMS, K...>::sizeofR(); }
template <class T, int CTX, class DIMS, class... K> static inline size_t sizeofR(std::false_type) { return 0; }

// entry point of a case: c04::rd<float, c04::VASSIGN, vw::Dims<11>, vw::KS>(fx, mode)
template <class T, int CTX, class DIMS, class... K> static inline void rd(fx::Ctx& fx, unsigned mode) {
    static_assert(DIMS::rank == (int)sizeof...(K), "one argument kind per axis");
    using TA = typename DIMS::template tensor<T>;
    static_assert(std::is_trivially_destructible<TA>::value, "tensor objects are placed in raw arenas");
    Job<T> j;
    j.sh = DIMS::shape(); j.ctx = CTX; j.mode = mode; j.sizeofA = sizeof(TA); j.W = (int)TA::simd_vector_type::Size;
    j.sizeofR = sizeofR<T, CTX, DIMS, K...>(std::integral_constant<bool, (CTX >= CTOR)>());
    KindInfo ki[] = {K::info()...};
    for (int i = 0; i < DIMS::rank; ++i) j.k[i] = ki[i];
    j.call = &thunk<T, CTX, DIMS, K...>;
    run_job<T>(fx, j);
}

// several read contexts of one argument list in one case (compile-time families: many small cases would be dominated by
// the per-translation-unit cost):  c04::rdm<double, c04::CL<c04::CTOR, c04::FADD>, vw::Dims<9>, vw::KF<1,-1,2>>(fx, mode)
template <int... C> struct CL {};
template <class T, class DIMS, class... K> static inline void rdm_(fx::Ctx&, unsigned, CL<>) {}
template <class T, class DIMS, class... K, int C0, int... C> static inline void rdm_(fx::Ctx& fx, unsigned mode, CL<C0, C...>) {
    rd<T, C0, DIMS, K...>(fx, mode);
    rdm_<T, DIMS, K...>(fx, mode, CL<C...>());
}
template <class T, class CLIST, class DIMS, class... K> static inline void rdm(fx::Ctx& fx, unsigned mode) { rdm_<T, DIMS, K...>(fx, mode, CLIST()); }

// ---- scalar indexing A(i0,...,ik) -----------------------------------------------------------------------------------------
template <class T, int CONSTOBJ, class DIMS> struct ThS;
template <class T, size_t... D> struct ThS<T, 0, Dims<D...>> {
    template <size_t... I> static FASTOR_INLINE const T* at(void* A, const int* i, std::index_sequence<I...>) { return &(*static_cast<Tensor<T, D...>*>(A))(i[I]...); }
};
template <class T, size_t... D> struct ThS<T, 1, Dims<D...>> {
    template <size_t... I> static FASTOR_INLINE const T* at(void* A, const int* i, std::index_sequence<I...>) { return &(*static_cast<const Tensor<T, D...>*>(A))(i[I]...); }
};
template <class T, size_t... D> struct ThS<T, 2, Dims<D...>> {   // indices of type long long
    template <size_t... I> static FASTOR_INLINE const T* at(void* A, const int* i, std::index_sequence<I...>) { return &(*static_cast<Tensor<T, D...>*>(A))((long long)i[I]...); }
};
template <class T, int OBJ, class DIMS> static FX_NOINLINE const T* sthunk(void* A, const int* i) {
    fx::escape(A); fx::escape(i);
    const T* p = ThS<T, OBJ, DIMS>::at(A, i, std::make_index_sequence<(size_t)DIMS::rank>());
    fx::clobber();
    return p;
}
template <class T> static FX_NOINLINE void run_scalar(fx::Ctx& fx, const Shape& sh, size_t sizeofA, const T* (*call)(void*, const int*)) {
    fx.arena[1].paint();
    unsigned char* Ap = fx.arena[1].place_mid(sizeofA, 64); T* Ad = (T*)Ap;
    fill_index_coded(Ad, sh.size);
    int i[MAXR] = {0, 0, 0, 0, 0};
    for (int k = 0; k < sh.rank; ++k) i[k] = -sh.d[k];
    uint64_t points = 0;
    for (;;) {
        int flat = 0;
        for (int k = 0; k < sh.rank; ++k) flat += sh.st[k] * (i[k] < 0 ? i[k] + sh.d[k] : i[k]);
        fx.pt("i0=%lld,i1=%lld,i2=%lld,i3=%lld,i4=%lld", i[0], i[1], i[2], i[3], i[4]); ++points;
        const T* p = nullptr;
        if (fx.run([&] { p = call(Ap, i); })) {
            const bool ok = (p == Ad + flat);
            fx.verdict(ok, (uint64_t)flat, true, ok ? std::string() : "A(i...) refers to flat element " + std::to_string((long long)(p - Ad)) +
                       " expected " + std::to_string(flat));
            if (ok) { T e = (T)((flat % 3 == 1) ? -(long long)(flat + 1) : (long long)(flat + 1)); if (!fx::Ctx::same(*p, e)) fx.fail("value read through A(i...) differs"); }
        }
        int k = sh.rank - 1;
        for (; k >= 0; --k) { if (++i[k] < sh.d[k]) break; i[k] = -sh.d[k]; }
        if (k < 0) break;
    }
    fx.route("ctx.scalar_index", points);
}
template <class T, int OBJ, class DIMS> static inline void scalar(fx::Ctx& fx) {
    using TA = typename DIMS::template tensor<T>;
    run_scalar<T>(fx, DIMS::shape(), sizeof(TA), &sthunk<T, OBJ, DIMS>);
}

} // namespace c04
