// fx.h - C++ side of the fxmc bounded-exhaustive explorer.
// Included by every generated translation unit.  No dependency on Fastor itself; the
// property headers (cNN.h) include Fastor and use the facilities below.
//
// Record protocol written to the result file (one line each, flushed):
//   B <k>                         case k begins
//   P <k> <evals> <nontrivial> <fails> <hang> <sig> <capped>   case k ended (whatever the outcome)
//   F <k> <point> | <detail>      a judged evaluation failed (first FX_MAX_FAIL_RECORDS per case)
//   X <k> <point> | <what>        C++ exception escaped from an in-domain evaluation
//   S <k> <signo> <point>         fatal signal inside a guarded region (recovered)
//   H <k> <point>                 watchdog: no progress for the hang limit
//   R <k> <route> <count>         route counter reported by the case
//   N <k> <text>                  free-form note (explored-but-not-judged counts etc.)
//   D <k> <name> <kind> <n> <hex...>   result dump for cross-configuration comparison (FX_DUMP=1)
//   E                              binary finished normally
#pragma once
#include <cstdio>
#include <cstdlib>
#include <cstring>
#include <cstdint>
#include <cstdarg>
#include <cmath>
#include <csignal>
#include <csetjmp>
#include <string>
#include <vector>
#include <map>
#include <unordered_set>
#include <complex>
#include <type_traits>
#include <limits>
#include <exception>
#include <unistd.h>
#include <sys/mman.h>
#include <sys/time.h>

#ifndef FX_MAX_FAIL_RECORDS
#define FX_MAX_FAIL_RECORDS 6
#endif
#ifndef FX_DISTINCT_CAP
#define FX_DISTINCT_CAP (1u<<22)
#endif

#define FX_NOINLINE __attribute__((noinline))

namespace fx {

// ---------------------------------------------------------------------------------------------
// small utilities
// ---------------------------------------------------------------------------------------------
static inline uint64_t mix64(uint64_t h, uint64_t v) {
    h ^= v + 0x9e3779b97f4a7c15ull + (h << 6) + (h >> 2);
    h *= 0xff51afd7ed558ccdull; h ^= h >> 33;
    return h;
}
static inline uint64_t hash_bytes(const void* p, size_t n, uint64_t h = 0xcbf29ce484222325ull) {
    const unsigned char* c = (const unsigned char*)p;
    size_t i = 0;
    for (; i + 8 <= n; i += 8) { uint64_t v; memcpy(&v, c + i, 8); h = mix64(h, v); }
    uint64_t v = 0; if (i < n) { memcpy(&v, c + i, n - i); h = mix64(h, v ^ (uint64_t)(n - i) << 56); }
    return h;
}
// compiler barrier: make the pointed-to memory "escape" so nothing is constant folded
template <class T> static inline void escape(T* p) { asm volatile("" : : "g"(p) : "memory"); }
static inline void clobber() { asm volatile("" : : : "memory"); }

template <class T> struct is_complex : std::false_type {};
template <class T> struct is_complex<std::complex<T>> : std::true_type {};
template <class T> struct real_of { using type = T; };
template <class T> struct real_of<std::complex<T>> { using type = T; };
template <class T> using real_of_t = typename real_of<T>::type;

template <class T> static inline const char* tname();
template <> inline const char* tname<float>() { return "f32"; }
template <> inline const char* tname<double>() { return "f64"; }
template <> inline const char* tname<int>() { return "i32"; }
template <> inline const char* tname<long long>() { return "i64"; }
template <> inline const char* tname<long>() { return "i64"; }
template <> inline const char* tname<unsigned long>() { return "u64"; }
template <> inline const char* tname<unsigned int>() { return "u32"; }
template <> inline const char* tname<bool>() { return "b8"; }
template <> inline const char* tname<signed char>() { return "i8"; }
template <> inline const char* tname<unsigned char>() { return "u8"; }
template <> inline const char* tname<short>() { return "i16"; }
template <> inline const char* tname<std::complex<float>>() { return "c32"; }
template <> inline const char* tname<std::complex<double>>() { return "c64"; }

template <class T> static inline std::string vstr(const T& v) {
    char b[96];
    if (std::is_floating_point<T>::value) snprintf(b, sizeof b, "%.17g", (double)v);
    else if (std::is_signed<T>::value) snprintf(b, sizeof b, "%lld", (long long)v);
    else snprintf(b, sizeof b, "%llu", (unsigned long long)v);
    return b;
}
template <class T> static inline std::string vstr(const std::complex<T>& v) {
    char b[128]; snprintf(b, sizeof b, "(%.17g,%.17g)", (double)v.real(), (double)v.imag()); return b;
}
static inline std::string vstr(long double v) { char b[96]; snprintf(b, sizeof b, "%.21Lg", v); return b; }

// ---------------------------------------------------------------------------------------------
// guarded execution: fatal signals and the watchdog jump back to the innermost armed guard
// ---------------------------------------------------------------------------------------------
struct GuardState {
    sigjmp_buf* volatile cur = nullptr;  // volatile: read by signal handlers; the store must not be sunk past a non-returning callee
    volatile uint64_t progress = 0;      // bumped by the harness at every point
    volatile uint64_t last_seen = 0;
    volatile int idle_ticks = 0;
    int hang_ticks = 8;                  // x 250 ms = 2 s
    volatile int fired_sig = 0;
};
static GuardState g_guard;

static void on_fatal(int sig) {
    if (g_guard.cur) { g_guard.fired_sig = sig; siglongjmp(*g_guard.cur, sig); }
    // not armed: die and let the driver attribute the crash to the open BEGIN record
    signal(sig, SIG_DFL); raise(sig);
}
static void on_tick(int) {
    if (g_guard.progress != g_guard.last_seen) { g_guard.last_seen = g_guard.progress; g_guard.idle_ticks = 0; return; }
    g_guard.idle_ticks = g_guard.idle_ticks + 1;
    if (g_guard.idle_ticks >= g_guard.hang_ticks) {
        g_guard.idle_ticks = 0;
        if (g_guard.cur) { g_guard.fired_sig = SIGALRM; siglongjmp(*g_guard.cur, SIGALRM); }
    }
}
static inline void install_handlers() {
    struct sigaction sa; memset(&sa, 0, sizeof sa);
    sa.sa_handler = on_fatal; sa.sa_flags = SA_NODEFER | SA_ONSTACK;
    static char altstack[1 << 16];
    stack_t ss; ss.ss_sp = altstack; ss.ss_size = sizeof altstack; ss.ss_flags = 0; sigaltstack(&ss, nullptr);
    sigaction(SIGSEGV, &sa, nullptr); sigaction(SIGBUS, &sa, nullptr);
    sigaction(SIGFPE, &sa, nullptr);  sigaction(SIGILL, &sa, nullptr);
    struct sigaction st; memset(&st, 0, sizeof st);
    st.sa_handler = on_tick; st.sa_flags = SA_NODEFER | SA_RESTART;
    // the watchdog counts the process's own CPU time (ITIMER_PROF), not wall-clock time: a point that makes no progress for
    // hang_ticks x 250 ms of CPU is a loop in the code under test; a loaded machine cannot produce a false hang
    sigaction(SIGPROF, &st, nullptr);
    const char* hl = getenv("FX_HANG_TICKS"); if (hl) g_guard.hang_ticks = atoi(hl);
    struct itimerval it; it.it_interval.tv_sec = 0; it.it_interval.tv_usec = 250000; it.it_value = it.it_interval;
    setitimer(ITIMER_PROF, &it, nullptr);
}
// run f(); returns 0 if it returned, the signal number otherwise (SIGALRM = hang)
template <class F> static FX_NOINLINE int guarded(F&& f) {
    sigjmp_buf jb; sigjmp_buf* prev = g_guard.cur;
    int s = sigsetjmp(jb, 0);
    if (s == 0) { g_guard.cur = &jb; g_guard.idle_ticks = 0; f(); g_guard.cur = prev; return 0; }
    g_guard.cur = prev; return s;
}

// ---------------------------------------------------------------------------------------------
// arenas: memory with canaries around a payload and PROT_NONE pages on both sides
// ---------------------------------------------------------------------------------------------
struct Arena {
    unsigned char* map = nullptr;   // start of mapping (guard page)
    unsigned char* lo = nullptr;    // first usable byte
    unsigned char* hi = nullptr;    // one past last usable byte (next byte is PROT_NONE)
    size_t page = 4096;
    static constexpr unsigned char CAN = 0xC5;
    void init(size_t usable_pages) {
        page = (size_t)sysconf(_SC_PAGESIZE);
        size_t tot = (usable_pages + 2) * page;
        map = (unsigned char*)mmap(nullptr, tot, PROT_READ | PROT_WRITE, MAP_PRIVATE | MAP_ANONYMOUS, -1, 0);
        if (map == (unsigned char*)MAP_FAILED) { perror("mmap"); _exit(97); }
        mprotect(map, page, PROT_NONE); mprotect(map + tot - page, page, PROT_NONE);
        lo = map + page; hi = map + tot - page;
    }
    size_t cap() const { return (size_t)(hi - lo); }
    void paint() { memset(lo, CAN, cap()); }
    // payload placed so that its last byte is the last usable byte (shift = extra bytes left free at the end)
    unsigned char* place_end(size_t bytes, size_t shift = 0) { return hi - bytes - shift; }
    unsigned char* place_begin(size_t shift = 0) { return lo + shift; }
    unsigned char* place_mid(size_t bytes, size_t align = 64, size_t misalign = 0) {
        uintptr_t m = (uintptr_t)(lo + (cap() - bytes) / 2);
        m = (m / align) * align + misalign; return (unsigned char*)m;
    }
    // every byte outside [p,p+bytes) within a window of `win` bytes either side must still be CAN
    long first_damage(const unsigned char* p, size_t bytes, size_t win = 512) const {
        const unsigned char* a = (p - lo > (long)win) ? p - win : lo;
        const unsigned char* b = ((size_t)(hi - (p + bytes)) > win) ? p + bytes + win : hi;
        for (const unsigned char* q = a; q < p; ++q) if (*q != CAN) return (long)(q - p);
        for (const unsigned char* q = p + bytes; q < b; ++q) if (*q != CAN) return (long)(q - p);
        return 0x7fffffffL;
    }
};

// ---------------------------------------------------------------------------------------------
// the per-case context
// ---------------------------------------------------------------------------------------------
struct Ctx {
    FILE* out = nullptr;
    int k = -1;
    const char* id = "";
    uint64_t evals = 0, nontrivial = 0, fails = 0, hangs = 0, sigs = 0;
    bool capped = false, dump = false; uint64_t dumped = 0, obs_hash = 0;
    std::unordered_set<uint64_t>* seen = nullptr;
    std::map<std::string, uint64_t> routes;
    // current run-time point (formatted lazily)
    const char* pfmt = ""; long long pa[10] = {0}; int pn = 0;
    uint64_t seed = 1;
    Arena arena[4];

    void pt(const char* fmt) { pfmt = fmt; pn = 0; ++g_guard.progress; }
    template <class... A> void pt(const char* fmt, A... a) {
        pfmt = fmt; long long tmp[] = {(long long)a...}; pn = (int)sizeof...(A);
        for (int i = 0; i < pn && i < 10; ++i) pa[i] = tmp[i];
        ++g_guard.progress;
    }
    std::string point() const {
        char b[512];
        switch (pn) {
            case 0: snprintf(b, sizeof b, "%s", pfmt); break;
            case 1: snprintf(b, sizeof b, pfmt, pa[0]); break;
            case 2: snprintf(b, sizeof b, pfmt, pa[0], pa[1]); break;
            case 3: snprintf(b, sizeof b, pfmt, pa[0], pa[1], pa[2]); break;
            case 4: snprintf(b, sizeof b, pfmt, pa[0], pa[1], pa[2], pa[3]); break;
            case 5: snprintf(b, sizeof b, pfmt, pa[0], pa[1], pa[2], pa[3], pa[4]); break;
            case 6: snprintf(b, sizeof b, pfmt, pa[0], pa[1], pa[2], pa[3], pa[4], pa[5]); break;
            case 7: snprintf(b, sizeof b, pfmt, pa[0], pa[1], pa[2], pa[3], pa[4], pa[5], pa[6]); break;
            case 8: snprintf(b, sizeof b, pfmt, pa[0], pa[1], pa[2], pa[3], pa[4], pa[5], pa[6], pa[7]); break;
            case 9: snprintf(b, sizeof b, pfmt, pa[0], pa[1], pa[2], pa[3], pa[4], pa[5], pa[6], pa[7], pa[8]); break;
            default: snprintf(b, sizeof b, pfmt, pa[0], pa[1], pa[2], pa[3], pa[4], pa[5], pa[6], pa[7], pa[8], pa[9]); break;
        }
        return b;
    }
    uint64_t point_hash() const {
        uint64_t h = hash_bytes(pfmt, strlen(pfmt), (uint64_t)k * 1315423911ull + 7);
        for (int i = 0; i < pn; ++i) h = mix64(h, (uint64_t)pa[i]);
        return h;
    }
    void fail(const std::string& detail) {
        ++fails;
        if (fails <= FX_MAX_FAIL_RECORDS) { fprintf(out, "F %d %s | %s\n", k, point().c_str(), detail.c_str()); fflush(out); }
    }
    void note(const std::string& s) { fprintf(out, "N %d %s\n", k, s.c_str()); fflush(out); }
    void route(const std::string& r, uint64_t n = 1) { routes[r] += n; }

    // account one judged evaluation; `h` hashes the expected result, `nt` says it is non-trivial
    void count(uint64_t h, bool nt) {
        ++evals; ++g_guard.progress;
        if (!nt) return;
        if (seen->size() >= FX_DISTINCT_CAP) { capped = true; return; }   // counted conservatively
        if (seen->insert(mix64(point_hash(), h)).second) ++nontrivial;
    }

    // ---- comparison primitives ------------------------------------------------------------
    template <class T> static bool same(const T& a, const T& b, bool signed_zero = false) {
        if (std::is_floating_point<T>::value) {
            if (a != a) return b != b;
            if (b != b) return false;
            if (a == b) {
                if (!signed_zero) return true;
                return std::signbit((double)a) == std::signbit((double)b);
            }
            return false;
        }
        return a == b;
    }
    template <class T> static bool same(const std::complex<T>& a, const std::complex<T>& b, bool sz = false) {
        return same(a.real(), b.real(), sz) && same(a.imag(), b.imag(), sz);
    }
    template <class T> static bool all_equal(const T* p, size_t n) {
        for (size_t i = 1; i < n; ++i) if (memcmp(&p[i], &p[0], sizeof(T))) return false;
        return true;
    }

    // exact, element-wise.  `init` (optional) = destination contents before the call, for the
    // non-triviality measurement.  Returns true if equal.
    template <class T> bool eq(const T* obs, const T* exp, size_t n, const T* init = nullptr,
                               const char* what = "", bool signed_zero = false) {
        bool nt = init ? memcmp(exp, init, n * sizeof(T)) != 0 : !all_equal(exp, n) || n == 1;
        count(hash_bytes(exp, n * sizeof(T)), nt);
        if (dump) dump_vals(what, obs, n, (const long double*)nullptr);
        for (size_t i = 0; i < n; ++i)
            if (!same(obs[i], exp[i], signed_zero)) {
                size_t bad = 0; for (size_t j = i; j < n; ++j) bad += !same(obs[j], exp[j], signed_zero);
                fail(std::string(what) + " elem " + std::to_string(i) + " of " + std::to_string(n) + ": observed " +
                     vstr(obs[i]) + " expected " + vstr(exp[i]) + " (" + std::to_string(bad) + " elements differ)");
                return false;
            }
        return true;
    }
    // |obs - exp| <= bound element-wise, exp and bound in long double
    template <class T> bool tol(const T* obs, const long double* exp, const long double* bound, size_t n,
                                const char* what = "") {
        bool nt = false; for (size_t i = 0; i < n && !nt; ++i) nt = exp[i] != 0.0L;
        count(hash_bytes(exp, n * sizeof(long double)), nt || n == 1);
        if (dump) dump_vals(what, obs, n, bound);
        for (size_t i = 0; i < n; ++i) {
            long double o = (long double)obs[i], d = o - exp[i]; if (d < 0) d = -d;
            bool bad = !(d <= bound[i]);
            if (exp[i] != exp[i]) bad = !(o != o);
            else if (std::isinf((double)exp[i])) bad = !(o == exp[i]);
            if (bad) {
                fail(std::string(what) + " elem " + std::to_string(i) + " of " + std::to_string(n) + ": observed " +
                     vstr(o) + " expected " + vstr(exp[i]) + " +- " + vstr(bound[i]));
                return false;
            }
        }
        return true;
    }
    // a scalar-valued judgement with a boolean verdict computed by the caller
    bool verdict(bool ok, uint64_t exp_hash, bool nontriv, const std::string& detail) {
        count(exp_hash, nontriv);
        if (!ok) fail(detail);
        return ok;
    }
    // canaries around [p, p+bytes) in arena a
    bool frame(int a, const void* p, size_t bytes, const char* what = "frame") {
        long d = arena[a].first_damage((const unsigned char*)p, bytes);
        if (d != 0x7fffffffL) {
            fail(std::string(what) + ": byte at offset " + std::to_string(d) + " relative to a " + std::to_string(bytes) +
                 "-byte output was overwritten");
            return false;
        }
        return true;
    }
    // FX_DUMP=1: observed values of the first FX_DUMP_MAX evaluations of a case (with their own tolerance, 0 = exact) for the
    // cross-configuration comparison of C06; exact evaluations additionally feed a running hash over all of them
    template <class T> void dump_vals(const char* name, const T* p, size_t n, const long double* bound) {
        if (!bound) obs_hash = hash_bytes(p, n * sizeof(T), obs_hash + 0x9e37);
        if (dumped >= 24 || n > 4096) return;
        ++dumped;
        char nm[48]; size_t q = 0; for (const char* c = (*name ? name : "r"); *c && q < 47; ++c) nm[q++] = (*c == ' ' ? '_' : *c); nm[q] = 0;
        fprintf(out, "D %d %s %s %zu ", k, nm, tname<T>(), n);
        for (size_t i = 0; i < n; ++i) fprintf(out, "%s%.21Lg", i ? "," : "", (long double)real_part(p[i]));
        fputc(' ', out);
        if (bound) for (size_t i = 0; i < n; ++i) fprintf(out, "%s%.6Lg", i ? "," : "", bound[i]); else fputc('x', out);
        fputc('\n', out);
    }
    template <class T> static long double real_part(const T& v) { return (long double)v; }
    template <class T> static long double real_part(const std::complex<T>& v) { return (long double)v.real() + 3 * (long double)v.imag(); }
    // run one evaluation under the guard; on signal/hang/exception record it as a failure of the case
    template <class F> bool run(F&& f) {
        int s = 0; bool threw = false; std::string what;
        s = guarded([&] {
            try { f(); } catch (const std::exception& e) { threw = true; what = e.what(); } catch (...) { threw = true; what = "unknown"; }
        });
        if (s == SIGALRM) { ++hangs; ++fails; if (hangs <= 3) { fprintf(out, "H %d %s\n", k, point().c_str()); fflush(out); } return false; }
        if (s) { ++sigs; ++fails; if (sigs <= 3) { fprintf(out, "S %d %d %s\n", k, s, point().c_str()); fflush(out); } return false; }
        if (threw) { ++fails; fprintf(out, "X %d %s | %s\n", k, point().c_str(), what.c_str()); fflush(out); return false; }
        return true;
    }
};

struct CaseEntry { int k; const char* id; void (*fn)(Ctx&); };

static inline int fx_main(int argc, char** argv, const CaseEntry* cases, int ncases) {
    const char* outpath = nullptr; int from = 0, only = -1;
    for (int i = 1; i < argc; ++i) {
        if (!strcmp(argv[i], "--out") && i + 1 < argc) outpath = argv[++i];
        else if (!strcmp(argv[i], "--from") && i + 1 < argc) from = atoi(argv[++i]);
        else if (!strcmp(argv[i], "--only") && i + 1 < argc) only = atoi(argv[++i]);
    }
    FILE* out = outpath ? fopen(outpath, "a") : stdout;
    if (!out) { perror("open out"); return 98; }
    setvbuf(out, nullptr, _IOLBF, 1 << 16);
    install_handlers();
    Ctx fx; fx.out = out;
    std::unordered_set<uint64_t> seen; fx.seen = &seen;
    const char* sd = getenv("VERIF_SEED"); if (sd && *sd) fx.seed = strtoull(sd, nullptr, 10); if (!fx.seed) fx.seed = 1;
    fx.dump = getenv("FX_DUMP") != nullptr;
    fx.arena[0].init(64); fx.arena[1].init(64); fx.arena[2].init(64); fx.arena[3].init(64);
    for (int c = 0; c < ncases; ++c) {
        int k = cases[c].k;
        if (k < from) continue;
        if (only >= 0 && k != only) continue;
        fx.k = k; fx.id = cases[c].id; fx.evals = fx.nontrivial = fx.fails = fx.hangs = fx.sigs = 0; fx.capped = false;
        fx.routes.clear(); fx.pt(""); fx.dumped = 0; fx.obs_hash = 0;
        fprintf(out, "B %d\n", k); fflush(out);
        fx.run([&] { cases[c].fn(fx); });
        for (auto& r : fx.routes) fprintf(out, "R %d %s %llu\n", k, r.first.c_str(), (unsigned long long)r.second);
        if (fx.dump) fprintf(out, "G %d %016llx\n", k, (unsigned long long)fx.obs_hash);
        fprintf(out, "P %d %llu %llu %llu %llu %llu %d\n", k, (unsigned long long)fx.evals, (unsigned long long)fx.nontrivial,
                (unsigned long long)fx.fails, (unsigned long long)fx.hangs, (unsigned long long)fx.sigs, (int)fx.capped);
        fflush(out);
        if (seen.size() > (FX_DISTINCT_CAP / 2)) seen.clear();   // distinctness is per case; keep memory bounded
    }
    fprintf(out, "E\n"); fflush(out);
    if (outpath) fclose(out);
    return 0;
}

} // namespace fx

#define FX_MAIN(cases) int main(int argc, char** argv) { return fx::fx_main(argc, argv, cases, (int)(sizeof(cases)/sizeof(cases[0]))); }
#ifdef FX_ONLY
#define FX_EN(k) ((k) == FX_ONLY)
#else
#define FX_EN(k) 1
#endif
