// c05.h - writing through a slice changes exactly the selected elements and nothing else (property C05)
// Thin thunk per (element type, operator, right-hand-side kind, parent shape, argument kinds): the statement A(v) op= rhs.
// Fat run-time driver per element type:
//   * depth 1: exhaustive single writes over the destination option lists (as C04) x right-hand-side options from two initial
//     contents, real library and reference model side by side, whole tensor + canary frames + source compared after every write;
//   * depth 2..3: explicit-state breadth-first search over write histories, states = tensor contents de-duplicated by hash.
#pragma once
#include "views_common.h"
#include <unordered_set>

namespace c05 {
using namespace Fastor;
using namespace vw;

enum Op { O_ASSIGN = 0, O_ADD = 1, O_SUB = 2, O_MUL = 3, O_DIV = 4, NOP = 5 };
enum Rhs { R_SCALAR = 0,   // A(v) op= x
           R_TENSOR = 1,   // A(v) op= C                  C a whole Tensor<T,e...> of the view's extents (compile-time extents)
           R_SLICE = 2,    // A(v) op= B(w)               B of A's type, w run-time seqs of equal extent
           R_CSLICE = 3,   // A(v) op= cB(w)              the same through a const B
           R_SAME = 4,     // A(v) op= B(v)               the same argument list (kinds) applied to B
           R_EXPR1 = 5,    // A(v) op= B(w) + 1
           R_EXPR2 = 6,    // A(v) op= 2*B(w) - B(w2)
           R_EVAL = 7,     // A(v) op= P % Q              a product that has to be evaluated first, shaped to fit (ranks 1-2, compile-time extents)
           NRHS = 8 };
static inline const char* op_name(int o) { static const char* n[] = {"=", "+=", "-=", "*=", "/="}; return o >= 0 && o < NOP ? n[o] : "?"; }
static inline const char* rhs_name(int r) {
    static const char* n[] = {"scalar", "tensor", "slice", "cslice", "same", "expr1", "expr2", "eval"};
    return r >= 0 && r < NRHS ? n[r] : "?";
}

template <class T> struct WArgs {
    void* A; void* B; const void* C; const void* P; const void* Q;
    const seq* s; const int* iv;       // destination arguments
    const seq* w; const seq* w2;       // source slices of B
    T x;
};

template <int C> struct CT {};
template <class L, class R> static FASTOR_INLINE void app(CT<O_ASSIGN>, L&& l, const R& r) { l = r; }
template <class L, class R> static FASTOR_INLINE void app(CT<O_ADD>, L&& l, const R& r) { l += r; }
template <class L, class R> static FASTOR_INLINE void app(CT<O_SUB>, L&& l, const R& r) { l -= r; }
template <class L, class R> static FASTOR_INLINE void app(CT<O_MUL>, L&& l, const R& r) { l *= r; }
template <class L, class R> static FASTOR_INLINE void app(CT<O_DIV>, L&& l, const R& r) { l /= r; }

// shapes of the operands of the product used by R_EVAL: rank 1: (e0 x 2) % (2), rank 2: (e0 x 2) % (2 x e1)
template <class T, size_t... E> struct EvalOps;
template <class T, size_t E0> struct EvalOps<T, E0> { using P = Tensor<T, E0, 2>; using Q = Tensor<T, 2>; };
template <class T, size_t E0, size_t E1> struct EvalOps<T, E0, E1> { using P = Tensor<T, E0, 2>; using Q = Tensor<T, 2, E1>; };

template <class T, class DIMS, class... K> struct ThW {
    using TA = typename DIMS::template tensor<T>;
    using IS = std::make_index_sequence<sizeof...(K)>;
    template <size_t... I> static FASTOR_INLINE decltype(auto) dst(TA& A, const WArgs<T>& a, std::index_sequence<I...>) { return A(mk(K(), a.s[I], a.iv[I])...); }
    template <size_t... I> static FASTOR_INLINE decltype(auto) src(TA& B, const seq* w, std::index_sequence<I...>) { return B(w[I]...); }
    template <size_t... I> static FASTOR_INLINE decltype(auto) csrc(const TA& B, const seq* w, std::index_sequence<I...>) { return B(w[I]...); }
    static TA& A(const WArgs<T>& a) { return *static_cast<TA*>(a.A); }
    static TA& B(const WArgs<T>& a) { return *static_cast<TA*>(a.B); }
    template <int OP> static FASTOR_INLINE void run(CT<OP>, CT<R_SCALAR>, const WArgs<T>& a) { app(CT<OP>(), dst(A(a), a, IS()), a.x); }
    template <int OP> static FASTOR_INLINE void run(CT<OP>, CT<R_SLICE>, const WArgs<T>& a)  { app(CT<OP>(), dst(A(a), a, IS()), src(B(a), a.w, IS())); }
    template <int OP> static FASTOR_INLINE void run(CT<OP>, CT<R_CSLICE>, const WArgs<T>& a) { app(CT<OP>(), dst(A(a), a, IS()), csrc(B(a), a.w, IS())); }
    template <int OP> static FASTOR_INLINE void run(CT<OP>, CT<R_SAME>, const WArgs<T>& a)   { app(CT<OP>(), dst(A(a), a, IS()), dst(B(a), a, IS())); }
    template <int OP> static FASTOR_INLINE void run(CT<OP>, CT<R_EXPR1>, const WArgs<T>& a)  { app(CT<OP>(), dst(A(a), a, IS()), src(B(a), a.w, IS()) + T(1)); }
    template <int OP> static FASTOR_INLINE void run(CT<OP>, CT<R_EXPR2>, const WArgs<T>& a)  { app(CT<OP>(), dst(A(a), a, IS()), T(2) * src(B(a), a.w, IS()) - src(B(a), a.w2, IS())); }
};
template <class T, class DIMS, class... K> struct ThWF;     // right-hand sides with compile-time extents
template <class T, size_t... D, class... K> struct ThWF<T, Dims<D...>, K...> : ThW<T, Dims<D...>, K...> {
    using Base = ThW<T, Dims<D...>, K...>;
    using TC = Tensor<T, (size_t)KExt<K, (int)D>::value...>;
    using EO = EvalOps<T, (size_t)KExt<K, (int)D>::value...>;
    using IS = std::make_index_sequence<sizeof...(K)>;
    template <int OP> static FASTOR_INLINE void runf(CT<OP>, CT<R_TENSOR>, const WArgs<T>& a) {
        app(CT<OP>(), Base::dst(Base::A(a), a, IS()), *static_cast<const TC*>(a.C));
    }
    template <int OP> static FASTOR_INLINE void runf(CT<OP>, CT<R_EVAL>, const WArgs<T>& a) {
        app(CT<OP>(), Base::dst(Base::A(a), a, IS()), (*static_cast<const typename EO::P*>(a.P)) % (*static_cast<const typename EO::Q*>(a.Q)));
    }
    static constexpr size_t sizeofC() { return sizeof(TC); }
};

template <class T, int OP, int RHS, class DIMS, class... K> struct Pick {
    static FASTOR_INLINE void go(const WArgs<T>& a) { ThW<T, DIMS, K...>::run(CT<OP>(), CT<RHS>(), a); }
};
template <class T, int OP, class DIMS, class... K> struct Pick<T, OP, R_TENSOR, DIMS, K...> {
    static FASTOR_INLINE void go(const WArgs<T>& a) { ThWF<T, DIMS, K...>::runf(CT<OP>(), CT<R_TENSOR>(), a); }
};
template <class T, int OP, class DIMS, class... K> struct Pick<T, OP, R_EVAL, DIMS, K...> {
    static FASTOR_INLINE void go(const WArgs<T>& a) { ThWF<T, DIMS, K...>::runf(CT<OP>(), CT<R_EVAL>(), a); }
};
template <class T, int OP, int RHS, class DIMS, class... K> static FX_NOINLINE void wthunk(const WArgs<T>& a) {
    fx::escape(a.A); fx::escape(a.B); fx::escape(a.C); fx::escape(a.P); fx::escape(a.Q); fx::escape(a.s); fx::escape(a.iv); fx::escape(a.w); fx::escape(a.w2);
    Pick<T, OP, RHS, DIMS, K...>::go(a);
    fx::clobber();
}

enum Mode { M_SET_MASK = 3, M_LASTFULLQ = 4, M_ENC = 8,
            M_SRC_ALLFIT = 64,     // R_SLICE/R_CSLICE: every (first,step) of B that fits the destination's extent (else a thin list)
            M_SRC_THIN3 = 128,     // at most three source options per axis instead of five
            M_ONE_CONTENT = 256,   // only the index-coded initial contents (default: index-coded and all-ones)
            M_BFS_SMALL = 512,     // breadth-first search with the reduced alphabet (fewer ranges, one source placement)
            M_SRC_LASTAXIS = 1024 };// source slices vary on the last axis only (the other axes use the destination's own range)

template <class T> struct WJob {
    Shape sh; KindInfo k[MAXR]; unsigned mode = 0; int bfs_depth = 0;
    size_t sizeofA = 0, sizeofC = 0;
    void (*call[NOP][NRHS])(const WArgs<T>&);
    WJob() { for (auto& r : call) for (auto& c : r) c = nullptr; }
};

template <class T> static inline T apply_op(int op, T old, T r) {
    switch (op) { case O_ADD: return old + r; case O_SUB: return old - r; case O_MUL: return old * r; case O_DIV: return old / r; default: return r; }
}
template <class T> static inline T scalar_for(int op) {
    switch (op) { case O_ASSIGN: return (T)7; case O_ADD: return (T)5; case O_SUB: return (T)9; case O_MUL: return (T)-3;
                  default: return std::is_floating_point<T>::value ? (T)4 : (T)3; }   // /=: a power of two for floating types (x/y == x*(1/y) exactly)
}
// odd values +-(3..13): no right-hand side built from them (v, v+1, 2v-v') is ever zero
template <class T> static inline void fill_odd(T* p, int n) {
    for (int i = 0; i < n; ++i) { long long v = 3 + 2 * ((i * 5) % 6); if (i % 3 == 2) v = -v; p[i] = (T)v; }
}

struct SrcOpt { Ax a; };

template <class T> struct WDriver {
    fx::Ctx& fx; const WJob<T>& j; const Shape& sh;
    unsigned char *Ap, *Bp, *Cp, *Pp, *Qp; T *Ad, *Bd, *Cd, *Pd, *Qd;
    std::vector<Opt> opts[MAXR];
    std::vector<T> cur, expA, B0, prod;
    Sel sel, wsel, w2sel;
    uint64_t transitions = 0;
    std::unordered_set<uint64_t> states;
    size_t szC, szP, szQ;
    RouteCount routes; int Wn = 1; Ax cur_last{0, 1, 1};

    WDriver(fx::Ctx& f, const WJob<T>& jj) : fx(f), j(jj), sh(jj.sh) {
        for (int i = 0; i < 4; ++i) fx.arena[i].paint();
        szC = j.sizeofC ? j.sizeofC : 64; szP = sizeof(T) * 2 * 64 + 64; szQ = sizeof(T) * 2 * 64 + 64;
        Ap = fx.arena[0].place_mid(j.sizeofA, 64); Bp = fx.arena[1].place_mid(j.sizeofA, 64); Cp = fx.arena[2].place_mid(szC, 64);
        Pp = fx.arena[3].place_mid(szP + szQ + 256, 64); Qp = Pp + ((szP + 63) / 64) * 64 + 128;
        Ad = (T*)Ap; Bd = (T*)Bp; Cd = (T*)Cp; Pd = (T*)Pp; Qd = (T*)Qp;
        cur.resize((size_t)sh.size); expA.resize((size_t)sh.size); B0.resize((size_t)sh.size);
        for (int i = 0; i < sh.rank; ++i) {
            int set = (int)(j.mode & M_SET_MASK);
            if ((j.mode & M_LASTFULLQ) && i == sh.rank - 1) set = RS_FULLQ;
            unsigned encs = (j.mode & M_ENC) ? (sh.rank == 1 ? 0x7u : 0xFu) : 1u;
            axis_options(j.k[i], sh.d[i], set, encs, false, opts[i]);
        }
    }
    void set_B(int op) {
        if (op == O_DIV) fill_odd(B0.data(), sh.size); else fill_index_coded(B0.data(), sh.size, 100);
        memcpy(Bd, B0.data(), sizeof(T) * (size_t)sh.size);
    }
    void initial(int content, std::vector<T>& v) {
        v.resize((size_t)sh.size);
        if (content == 0) fill_index_coded(v.data(), sh.size); else for (auto& e : v) e = T(1);
    }
    // source option list of one axis for a destination extent e
    void src_options(int N, int e, const Ax& dsta, std::vector<Ax>& out, bool own_only = false) const {
        out.clear();
        if (own_only) { out.push_back(Ax{dsta.f, dsta.f + (e - 1) * dsta.s + 1, dsta.s}); return; }
        auto fits = [&](int f, int s) { return f >= 0 && s >= 1 && f + (e - 1) * s <= N - 1; };
        auto push = [&](int f, int s) {
            if (e == 1) s = 1;
            if (!fits(f, s)) return;
            Ax a{f, f + (e - 1) * s + 1, s};
            for (auto& b : out) if (same_ax(a, b)) return;
            out.push_back(a);
        };
        if (j.mode & M_SRC_ALLFIT) {
            for (int s = 1; s <= (e == 1 ? 1 : N); ++s) for (int f = 0; f < N; ++f) push(f, s);
            return;
        }
        const int smax = e > 1 ? (N - 1) / (e - 1) : 1;
        push(dsta.f, dsta.s <= smax ? dsta.s : 1);         // the destination's own range
        push(0, smax);                                     // the widest stride that fits (strided source for a contiguous destination)
        push(N - 1 - (e - 1), 1);                          // contiguous, flush against the end
        if (!(j.mode & M_SRC_THIN3)) { push(0, 1); push(1, smax > 1 ? smax - 1 : 1); }
        if (out.empty()) push(0, 1);
    }
    void label(const int* c, int op, int rhs, int content, int srcix) {
        long long v[MAXR] = {0, 0, 0, 0, 0};
        for (int i = 0; i < sh.rank; ++i) { const Opt& o = opts[i][(size_t)c[i]]; v[i] = (long long)o.enc * 1000000 + ax_code(o.a); }
        fx.pt("op=%lld,rhs=%lld,init=%lld,src=%lld,r0=%lld,r1=%lld,r2=%lld,r3=%lld,r4=%lld", op, rhs, content, srcix, v[0], v[1], v[2], v[3], v[4]);
    }
    // one write from the state `cur`: library on A, model on expA; returns false if the write could not be judged
    bool write(const WArgs<T>& a, int op, int rhs, const Sel& ds, bool count_state) {
        memcpy(Ad, cur.data(), sizeof(T) * (size_t)sh.size);
        expA = cur;
        const int n = ds.n;
        if (rhs == R_EVAL) {
            const int e0 = ds.ext[0], e1 = sh.rank > 1 ? ds.ext[1] : 1;
            prod.resize((size_t)n);
            fxv::ref_matmul(Pd, Qd, prod.data(), (size_t)e0, 2, (size_t)e1);
        }
        for (int k = 0; k < n; ++k) {
            T r;
            switch (rhs) {
                case R_SCALAR: r = a.x; break;
                case R_TENSOR: r = Cd[k]; break;
                case R_SLICE: case R_CSLICE: r = B0[(size_t)wsel.idx[(size_t)k]]; break;
                case R_SAME: r = B0[(size_t)ds.idx[(size_t)k]]; break;
                case R_EXPR1: r = B0[(size_t)wsel.idx[(size_t)k]] + T(1); break;
                case R_EXPR2: r = T(2) * B0[(size_t)wsel.idx[(size_t)k]] - B0[(size_t)w2sel.idx[(size_t)k]]; break;
                default: r = prod[(size_t)k]; break;
            }
            const size_t q = (size_t)ds.idx[(size_t)k];
            expA[q] = apply_op<T>(op, cur[q], r);
        }
        ++transitions; routes.add(cur_last, Wn);
        const bool ran = fx.run([&] { j.call[op][rhs](a); });
        bool ok = false;
        if (ran) {
            ok = fx.eq(Ad, expA.data(), (size_t)sh.size, cur.data(), op_name(op));
            ok = fx.frame(0, Ap, j.sizeofA, "write outside the tensor A") && ok;
            if (memcmp(Bd, B0.data(), sizeof(T) * (size_t)sh.size) != 0) { fx.fail("the source tensor B was modified"); memcpy(Bd, B0.data(), sizeof(T) * (size_t)sh.size); ok = false; }
            ok = fx.frame(1, Bp, j.sizeofA, "write outside the source tensor B") && ok;
        } else {
            for (int i = 0; i < 4; ++i) fx.arena[i].paint();
            memcpy(Bd, B0.data(), sizeof(T) * (size_t)sh.size); fill_operands(op, ds);
        }
        if (count_state) states.insert(fx::hash_bytes(expA.data(), sizeof(T) * (size_t)sh.size));
        return ok;
    }
    void fill_operands(int op, const Sel& ds) {
        // C: whole tensor of the view's extents; P, Q: factors of the product (small values; odd, hence non-zero results are not needed: /= uses C/P/Q never)
        int n = 1; for (int i = 0; i < sh.rank; ++i) n *= ds.ext[i];
        if (op == O_DIV) fill_odd(Cd, n); else fill_index_coded(Cd, n, 300);
        const int e0 = ds.ext[0], e1 = sh.rank > 1 ? ds.ext[1] : 1;
        fill_small(Pd, e0 * 2, 3); fill_small(Qd, 2 * e1, 5);
        if (op == O_DIV) { for (int i = 0; i < e0 * 2; ++i) Pd[i] = (T)(1 + (i % 2) * 2); for (int i = 0; i < 2 * e1; ++i) Qd[i] = (T)(1 + (i / e1 == 0 ? 1 : 3)); }   // positive: products never 0
    }
    bool has_fixed_rhs() const { for (int o = 0; o < NOP; ++o) if (j.call[o][R_TENSOR] || j.call[o][R_EVAL]) return true; return false; }

    // ---- depth 1: exhaustive single writes ------------------------------------------------------------------------------
    void depth1() {
        for (int i = 0; i < sh.rank; ++i) if (opts[i].empty()) { fx.note("empty option list"); return; }
        const int ncontent = (j.mode & M_ONE_CONTENT) ? 1 : 2;
        std::vector<Ax> so[MAXR];
        uint64_t pts = 0;
        for (int op = 0; op < NOP; ++op)
            for (int rhs = 0; rhs < NRHS; ++rhs) {
                if (!j.call[op][rhs]) continue;
                set_B(op);
                for (int content = 0; content < ncontent; ++content) {
                    initial(content, cur);
                    states.insert(fx::hash_bytes(cur.data(), sizeof(T) * (size_t)sh.size));
                    int c[MAXR] = {0, 0, 0, 0, 0};
                    for (;;) {
                        Ax ax[MAXR];
                        seq s[MAXR] = {seq(0, 1), seq(0, 1), seq(0, 1), seq(0, 1), seq(0, 1)};
                        seq w[MAXR] = {seq(0, 1), seq(0, 1), seq(0, 1), seq(0, 1), seq(0, 1)};
                        seq w2[MAXR] = {seq(0, 1), seq(0, 1), seq(0, 1), seq(0, 1), seq(0, 1)};
                        int iv[MAXR] = {0, 0, 0, 0, 0};
                        for (int i = 0; i < sh.rank; ++i) { const Opt& o = opts[i][(size_t)c[i]]; ax[i] = o.a; s[i] = o.s; iv[i] = o.iv; }
                        select(sh, ax, sel); cur_last = ax[sh.rank - 1];
                        WArgs<T> a{Ap, Bp, Cp, Pp, Qp, s, iv, w, w2, scalar_for<T>(op)};
                        const bool uses_src = rhs == R_SLICE || rhs == R_CSLICE || rhs == R_EXPR1 || rhs == R_EXPR2;
                        if (rhs == R_TENSOR || rhs == R_EVAL) fill_operands(op, sel);
                        if (!uses_src) {
                            label(c, op, rhs, content, 0); ++pts;
                            write(a, op, rhs, sel, true);
                        } else {
                            for (int i = 0; i < sh.rank; ++i) src_options(sh.d[i], sel.ext[i], ax[i], so[i], (j.mode & M_SRC_LASTAXIS) && i != sh.rank - 1);
                            int sc[MAXR] = {0, 0, 0, 0, 0}; int srcix = 0;
                            for (;;) {
                                Ax wa[MAXR], wb[MAXR];
                                for (int i = 0; i < sh.rank; ++i) {
                                    wa[i] = so[i][(size_t)sc[i]]; w[i] = seq(wa[i].f, wa[i].l, wa[i].s);
                                    wb[i] = so[i][(size_t)((sc[i] + 1) % (int)so[i].size())]; w2[i] = seq(wb[i].f, wb[i].l, wb[i].s);   // a second, different slice
                                }
                                select(sh, wa, wsel); select(sh, wb, w2sel);
                                label(c, op, rhs, content, srcix++); ++pts;
                                write(a, op, rhs, sel, true);
                                int i = sh.rank - 1;
                                for (; i >= 0; --i) { if (++sc[i] < (int)so[i].size()) break; sc[i] = 0; }
                                if (i < 0) break;
                            }
                        }
                        int i = sh.rank - 1;
                        for (; i >= 0; --i) { if (++c[i] < (int)opts[i].size()) break; c[i] = 0; }
                        if (i < 0) break;
                    }
                }
                fx.route(std::string("write.") + rhs_name(rhs) + "." + op_name(op), 1);
            }
        fx.route("mc.transitions", transitions); fx.route("mc.states", states.size()); fx.route("mc.depth.max", 1);
        routes.flush(fx, "store.");
        (void)pts;
    }

    // ---- depth 2..3: breadth-first search over write histories --------------------------------------------------------------
    struct Tr { Ax ax[MAXR]; Ax wa[MAXR]; int op, rhs; };
    // reduced per-axis range list built so that pairs overlap or abut: a base block, the same shifted by one, the two interleaved
    // stride-2 combs over it, the whole axis (superset), the two disjoint-adjacent neighbours, a stride-3 comb, one element, a W block
    static void bfs_ranges(int N, int W, bool small, std::vector<Ax>& out) {
        out.clear();
        auto push = [&](int f, int l, int s) { Ax a{f, l, s}; if (!admissible(a, N)) return; for (auto& b : out) if (same_ax(a, b)) return; out.push_back(a); };
        const int bf = N / 4, bl = bf + (N + 1) / 2;
        push(bf, bl, 1); push(bf + 1, bl + 1, 1); push(bf, bl, 2); push(0, N, 1); push(bl, N, 1);
        if (small) return;
        push(bf + 1, bl, 2); push(0, bf, 1); push(0, N, 3); push(bl - 1, bl, 1); push(0, W, 1); push(N - W, N, 1);
    }
    void bfs(int W) {
        // alphabet
        std::vector<Ax> rl[MAXR]; std::vector<Tr> al;
        for (int i = 0; i < sh.rank; ++i) {
            const bool small = (j.mode & M_BFS_SMALL) != 0;
            if (i == sh.rank - 1) bfs_ranges(sh.d[i], W, small, rl[i]);
            else {
                rl[i].clear(); rl[i].push_back(Ax{0, sh.d[i], 1});
                if (sh.d[i] > 1) rl[i].push_back(Ax{1, sh.d[i], 1});
                if (sh.d[i] > 1 && !small) rl[i].push_back(Ax{0, 1, 1});
                if (sh.d[i] > 2 && !small) rl[i].push_back(Ax{0, sh.d[i], 2});
            }
        }
        int c[MAXR] = {0, 0, 0, 0, 0};
        std::vector<Ax> so;
        for (;;) {
            for (int op = 0; op < NOP; ++op)
                for (int rhs = 0; rhs < NRHS; ++rhs) {
                    if (!j.call[op][rhs] || !(rhs == R_SCALAR || rhs == R_SLICE || rhs == R_EXPR1)) continue;
                    Tr t; t.op = op; t.rhs = rhs;
                    for (int i = 0; i < MAXR; ++i) { t.ax[i] = Ax{0, 1, 1}; t.wa[i] = Ax{0, 1, 1}; }
                    for (int i = 0; i < sh.rank; ++i) t.ax[i] = rl[i][(size_t)c[i]];
                    if (rhs == R_SCALAR) { al.push_back(t); continue; }
                    // two source placements: B's block at the destination's own range, and flush against the end of every axis
                    for (int v = 0; v < ((j.mode & M_BFS_SMALL) ? 1 : 2); ++v) {
                        bool distinct = v == 0;
                        for (int i = 0; i < sh.rank; ++i) {
                            const int e = ext_of(t.ax[i]);
                            Ax own{t.ax[i].f, t.ax[i].f + (e - 1) * t.ax[i].s + 1, t.ax[i].s}, endb{sh.d[i] - e, sh.d[i], 1};
                            t.wa[i] = v == 0 ? own : endb; if (v == 1 && !same_ax(own, endb)) distinct = true;
                        }
                        if (distinct) al.push_back(t);
                    }
                }
            int i = sh.rank - 1;
            for (; i >= 0; --i) { if (++c[i] < (int)rl[i].size()) break; c[i] = 0; }
            if (i < 0) break;
        }
        // small source values keep three successive products far from overflow: B holds +-(2..8)
        fill_small(B0.data(), sh.size, 2); memcpy(Bd, B0.data(), sizeof(T) * (size_t)sh.size);
        std::unordered_set<uint64_t> visited;
        std::vector<std::vector<T>> frontier(2), next;
        initial(0, frontier[0]); initial(1, frontier[1]);
        for (auto& st : frontier) visited.insert(fx::hash_bytes(st.data(), sizeof(T) * (size_t)sh.size));
        int depth = 0; uint64_t bad = 0;
        const uint64_t state_cap = 40000;     // frontier states expanded per level (reported when it bites)
        bool capped = false;
        for (depth = 1; depth <= j.bfs_depth; ++depth) {
            next.clear();
            size_t expanded = 0;
            for (size_t si = 0; si < frontier.size(); ++si) {
                if (expanded >= state_cap) { capped = true; break; }
                ++expanded;
                for (size_t ti = 0; ti < al.size(); ++ti) {
                    const Tr& t = al[ti];
                    cur = frontier[si];
                    seq s[MAXR] = {seq(0, 1), seq(0, 1), seq(0, 1), seq(0, 1), seq(0, 1)};
                    seq w[MAXR] = {seq(0, 1), seq(0, 1), seq(0, 1), seq(0, 1), seq(0, 1)};
                    int iv[MAXR] = {0, 0, 0, 0, 0};
                    for (int i = 0; i < sh.rank; ++i) { s[i] = seq(t.ax[i].f, t.ax[i].l, t.ax[i].s); w[i] = seq(t.wa[i].f, t.wa[i].l, t.wa[i].s); }
                    select(sh, t.ax, sel); select(sh, t.wa, wsel); cur_last = t.ax[sh.rank - 1];
                    WArgs<T> a{Ap, Bp, Cp, Pp, Qp, s, iv, w, w, t.op == O_MUL ? (T)-2 : scalar_for<T>(t.op)};
                    fx.pt("depth=%lld,state=%lld,tr=%lld,op=%lld,rhs=%lld,r_last=%lld,src_last=%lld", depth, si, ti, t.op, t.rhs,
                          ax_code(t.ax[sh.rank - 1]), ax_code(t.wa[sh.rank - 1]));
                    if (!write(a, t.op, t.rhs, sel, false)) ++bad;
                    // the successor is the *model's* state (on disagreement the violation is recorded and the search goes on from the model)
                    const uint64_t h = fx::hash_bytes(expA.data(), sizeof(T) * (size_t)sh.size);
                    if (visited.insert(h).second && depth < j.bfs_depth) next.push_back(expA);
                }
            }
            frontier.swap(next);
            if (frontier.empty() && depth < j.bfs_depth) { ++depth; break; }
        }
        fx.route("mc.transitions", transitions); fx.route("mc.states", visited.size()); fx.route("mc.depth.max", (uint64_t)(depth - 1));
        fx.route("mc.alphabet", al.size());
        routes.flush(fx, "store.");
        if (capped) { fx.route("mc.frontier_capped", 1); fx.capped = true; }
        (void)bad;
    }
};

template <class T> static FX_NOINLINE void run_wjob(fx::Ctx& fx, const WJob<T>& j, int W) {
    WDriver<T> d(fx, j); d.Wn = W;
    if (j.bfs_depth > 0) d.bfs(W); else d.depth1();
}

// ---- table of thunks: every (op, rhs) of two compile-time lists ---------------------------------------------------------------
template <int... V> struct OL {};     // operators
template <int... V> struct RL {};     // right-hand-side kinds
template <class T, class DIMS, class... K> struct Fill {
    template <int OP> static void rhs(WJob<T>&, RL<>) {}
    template <int OP, int R0, int... R> static void rhs(WJob<T>& j, RL<R0, R...>) { j.call[OP][R0] = &wthunk<T, OP, R0, DIMS, K...>; rhs<OP>(j, RL<R...>()); }
    template <class RLIST> static void ops(WJob<T>&, OL<>, RLIST) {}
    template <class RLIST, int O0, int... O> static void ops(WJob<T>& j, OL<O0, O...>, RLIST) { rhs<O0>(j, RLIST()); ops(j, OL<O...>(), RLIST()); }
};
template <int R, int... V> struct Has : std::false_type {};
template <int R, int V0, int... V> struct Has<R, V0, V...> : std::integral_constant<bool, (R == V0) || Has<R, V...>::value> {};
template <class T, class DIMS, class... K> static inline size_t sizeofC_(std::true_type) { return ThWF<T, DIMS, K...>::sizeofC(); }
template <class T, class DIMS, class... K> static inline size_t sizeofC_(std::false_type) { return 0; }

// entry point of a case:
//   c05::wr<int, c05::OL<0,1,3>, c05::RL<0,2>, vw::Dims<11>, vw::KS>(fx, mode, bfs_depth, W)
template <class T, class OLIST, class RLIST, class DIMS, class... K> struct Entry;
template <class T, int... O, int... R, class DIMS, class... K> struct Entry<T, OL<O...>, RL<R...>, DIMS, K...> {
    static void go(fx::Ctx& fx, unsigned mode, int bfs_depth, int W) {
        static_assert(DIMS::rank == (int)sizeof...(K), "one argument kind per axis");
        using TA = typename DIMS::template tensor<T>;
        static_assert(std::is_trivially_destructible<TA>::value, "tensor objects are placed in raw arenas");
        WJob<T> j;
        j.sh = DIMS::shape(); j.mode = mode; j.bfs_depth = bfs_depth; j.sizeofA = sizeof(TA);
        j.sizeofC = sizeofC_<T, DIMS, K...>(std::integral_constant<bool, Has<R_TENSOR, R...>::value || Has<R_EVAL, R...>::value>());
        KindInfo ki[] = {K::info()...};
        for (int i = 0; i < DIMS::rank; ++i) j.k[i] = ki[i];
        Fill<T, DIMS, K...>::ops(j, OL<O...>(), RL<R...>());
        run_wjob<T>(fx, j, W);
    }
};
template <class T, class OLIST, class RLIST, class DIMS, class... K> static inline void wr(fx::Ctx& fx, unsigned mode, int bfs_depth, int W) {
    Entry<T, OLIST, RLIST, DIMS, K...>::go(fx, mode, bfs_depth, W);
}

// ---- scalar element assignment A(i0,...,ik) op= x --------------------------------------------------------------------------------
template <class T, int OP, class DIMS> struct ThE;
template <class T, int OP, size_t... D> struct ThE<T, OP, Dims<D...>> {
    template <size_t... I> static FASTOR_INLINE void go(void* A, const int* i, T x, std::index_sequence<I...>) { app(CT<OP>(), (*static_cast<Tensor<T, D...>*>(A))(i[I]...), x); }
};
template <class T, int OP, class DIMS> static FX_NOINLINE void ethunk(void* A, const int* i, T x) {
    fx::escape(A); fx::escape(i);
    ThE<T, OP, DIMS>::go(A, i, x, std::make_index_sequence<(size_t)DIMS::rank>());
    fx::clobber();
}
template <class T> static FX_NOINLINE void run_elem(fx::Ctx& fx, const Shape& sh, size_t sizeofA, void (*const* call)(void*, const int*, T)) {
    fx.arena[0].paint();
    unsigned char* Ap = fx.arena[0].place_mid(sizeofA, 64); T* Ad = (T*)Ap;
    std::vector<T> cur((size_t)sh.size), expA((size_t)sh.size);
    uint64_t transitions = 0;
    std::unordered_set<uint64_t> states;
    fill_index_coded(cur.data(), sh.size); states.insert(fx::hash_bytes(cur.data(), sizeof(T) * (size_t)sh.size));
    for (int op = 0; op < NOP; ++op) {
        if (!call[op]) continue;
        int i[MAXR] = {0, 0, 0, 0, 0};
        for (int k = 0; k < sh.rank; ++k) i[k] = -sh.d[k];
        for (;;) {
            int flat = 0;
            for (int k = 0; k < sh.rank; ++k) flat += sh.st[k] * (i[k] < 0 ? i[k] + sh.d[k] : i[k]);
            fill_index_coded(cur.data(), sh.size); memcpy(Ad, cur.data(), sizeof(T) * (size_t)sh.size);
            expA = cur; const T x = scalar_for<T>(op);
            expA[(size_t)flat] = apply_op<T>(op, cur[(size_t)flat], x);
            states.insert(fx::hash_bytes(expA.data(), sizeof(T) * (size_t)sh.size));
            fx.pt("op=%lld,i0=%lld,i1=%lld,i2=%lld,i3=%lld,i4=%lld", op, i[0], i[1], i[2], i[3], i[4]); ++transitions;
            if (fx.run([&] { call[op](Ap, i, x); })) {
                fx.eq(Ad, expA.data(), (size_t)sh.size, cur.data(), op_name(op));
                fx.frame(0, Ap, sizeofA, "write outside the tensor A");
            } else fx.arena[0].paint();
            int k = sh.rank - 1;
            for (; k >= 0; --k) { if (++i[k] < sh.d[k]) break; i[k] = -sh.d[k]; }
            if (k < 0) break;
        }
        fx.route(std::string("write.element.") + op_name(op), 1);
    }
    fx.route("mc.transitions", transitions); fx.route("mc.states", states.size()); fx.route("mc.depth.max", 1);
}
template <class T, class DIMS> static inline void elem(fx::Ctx& fx) {
    using TA = typename DIMS::template tensor<T>;
    void (*call[NOP])(void*, const int*, T) = {&ethunk<T, O_ASSIGN, DIMS>, &ethunk<T, O_ADD, DIMS>, &ethunk<T, O_SUB, DIMS>, &ethunk<T, O_MUL, DIMS>, &ethunk<T, O_DIV, DIMS>};
    run_elem<T>(fx, DIMS::shape(), sizeof(TA), call);
}

} // namespace c05
