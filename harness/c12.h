// c12.h - solve(A,b) satisfies A x = b for every size, strategy and right-hand-side shape  (property C12)
#pragma once
#include "linalg_common.h"
#include <Fastor/Fastor.h>

namespace c12 {
using namespace Fastor;
using la::ld; using la::Mat;

template <int S> struct Strat;
template <> struct Strat<0> { static constexpr SolveCompType v = SolveCompType::SimpleInv; };
template <> struct Strat<1> { static constexpr SolveCompType v = SolveCompType::SimpleInvPiv; };
template <> struct Strat<2> { static constexpr SolveCompType v = SolveCompType::BlockLU; };
template <> struct Strat<3> { static constexpr SolveCompType v = SolveCompType::BlockLUPiv; };
template <> struct Strat<4> { static constexpr SolveCompType v = SolveCompType::SimpleLU; };
template <> struct Strat<5> { static constexpr SolveCompType v = SolveCompType::SimpleLUPiv; };
template <> struct Strat<6> { static constexpr SolveCompType v = SolveCompType::QR; };     // no implementation in the pinned tree
template <> struct Strat<7> { static constexpr SolveCompType v = SolveCompType::Chol; };   // no implementation in the pinned tree
static inline bool strat_pivoted(int s) { return s == 1 || s == 3 || s == 5; }

// forms: 0 solve(A,b)   1 solve(A+0,b)   2 solve(A,b+0)   3 solve(A+0,b+0)   4 x += solve(A*1, b+0)  (solve inside a compound expression)
// subs : 10 forward_subs(L,b)  11 forward_subs(L,p,b)  12 backward_subs(U,y)
enum Form { F_PLAIN = 0, F_LHS = 1, F_RHS = 2, F_BOTH = 3, F_ADD = 4, F_FWD = 10, F_FWDP = 11, F_BWD = 12 };
template <int FORM> struct FT {};
// K == 0: vector right-hand side (Tensor<T,N>), K >= 1: Tensor<T,N,K>
template <class T, size_t N, size_t K> struct Rhs { using type = Tensor<T, N, K>; };
template <class T, size_t N> struct Rhs<T, N, 0> { using type = Tensor<T, N>; };

template <class T, size_t N, size_t K, int S, class B> static inline void do_call(FT<F_PLAIN>, const Tensor<T, N, N>& a, const B& b, const void*, B* x) { new (x) B(solve<Strat<S>::v>(a, b)); }
template <class T, size_t N, size_t K, int S, class B> static inline void do_call(FT<F_LHS>, const Tensor<T, N, N>& a, const B& b, const void*, B* x) { new (x) B(solve<Strat<S>::v>(a + 0, b)); }
template <class T, size_t N, size_t K, int S, class B> static inline void do_call(FT<F_RHS>, const Tensor<T, N, N>& a, const B& b, const void*, B* x) { new (x) B(solve<Strat<S>::v>(a, b + 0)); }
template <class T, size_t N, size_t K, int S, class B> static inline void do_call(FT<F_BOTH>, const Tensor<T, N, N>& a, const B& b, const void*, B* x) { new (x) B(solve<Strat<S>::v>(a + 0, b + 0)); }
template <class T, size_t N, size_t K, int S, class B> static inline void do_call(FT<F_ADD>, const Tensor<T, N, N>& a, const B& b, const void*, B* x) { *x += solve<Strat<S>::v>(a * 1, b + 0); }
template <class T, size_t N, size_t K, int S, class B> static inline void do_call(FT<F_FWD>, const Tensor<T, N, N>& a, const B& b, const void*, B* x) { new (x) B(internal::forward_subs(a, b)); }
template <class T, size_t N, size_t K, int S, class B> static inline void do_call(FT<F_FWDP>, const Tensor<T, N, N>& a, const B& b, const void* p, B* x) { new (x) B(internal::forward_subs(a, *static_cast<const Tensor<size_t, N>*>(p), b)); }
template <class T, size_t N, size_t K, int S, class B> static inline void do_call(FT<F_BWD>, const Tensor<T, N, N>& a, const B& b, const void*, B* x) { new (x) B(internal::backward_subs(a, b)); }

template <class T, size_t N, size_t K, int S, int FORM> static FX_NOINLINE void thunk(const void* ap, const void* bp, const void* pp, void* xp) {
    using B = typename Rhs<T, N, K>::type;
    fx::escape(ap); fx::escape(bp); fx::escape(pp); fx::escape(xp);
    do_call<T, N, K, S>(FT<FORM>(), *static_cast<const Tensor<T, N, N>*>(ap), *static_cast<const B*>(bp), pp, static_cast<B*>(xp));
    fx::clobber();
}
template <class T, size_t N> static FX_NOINLINE void piv_thunk(const void* ap, size_t* p) {
    const Tensor<T, N, N>& a = *static_cast<const Tensor<T, N, N>*>(ap);
    fx::escape(ap);
    Tensor<size_t, N> P = pivot<PivType::V>(a);
    for (size_t i = 0; i < N; ++i) p[i] = P(i);
    fx::clobber();
}

template <class T> struct Job {
    size_t n, k, sizeofM, sizeofB, sizeofP;    // k = 0: vector
    int strat, form, group;
    void (*call)(const void*, const void*, const void*, void*);
    void (*piv)(const void*, size_t*);
};

template <class T> struct Driver {
    fx::Ctx& fx; const Job<T>& j;
    const size_t n, nn, cols; const ld u;
    T *a, *b, *x; unsigned char *xp, *pp;
    ld ood_worst = 0;   // telemetry: largest residual / bound among the members outside the domain (not judged)
    Driver(fx::Ctx& f, const Job<T>& jj) : fx(f), j(jj), n(jj.n), nn(jj.n * jj.n), cols(jj.k ? jj.k : 1), u(la::U<T>()) {
        fx.arena[0].paint(); fx.arena[1].paint(); fx.arena[2].paint(); fx.arena[3].paint();
        xp = fx.arena[0].place_mid(j.sizeofB, 64); x = (T*)xp;
        a = (T*)(fx.arena[1].lo + 256);
        b = (T*)(fx.arena[2].lo + 256);
        pp = fx.arena[3].lo + 256;
    }
    void finish() { fx.frame(0, xp, j.sizeofB, "write outside the solution object"); memset(xp, fx::Arena::CAN, j.sizeofB); }

    // residual per column: ||A x_j - b_j||_2 <= bound_factor * ||b_j||_2
    std::string judge_cols(const Mat& A, const Mat& X, const Mat& Brhs, ld factor, const la::Measured& m, const la::Member& mem, bool integer_rhs, ld* worst) {
        *worst = 0;
        if (!la::finite_all(X.data(), n * cols)) return "solution contains a non-finite value";
        Mat R(n * cols); la::mul(A.data(), X.data(), R.data(), n, n, cols);
        for (size_t c = 0; c < cols; ++c) {
            ld r = 0, bn = 0;
            for (size_t i = 0; i < n; ++i) { ld d = R[i * cols + c] - Brhs[i * cols + c]; r += d * d; bn += Brhs[i * cols + c] * Brhs[i * cols + c]; }
            r = sqrtl(r); bn = sqrtl(bn);
            const ld bound = factor * bn;
            if (bound > 0 && r / bound > *worst) *worst = r / bound;
            if (!(r <= bound)) return "column " + std::to_string(c) + ": ||A x - b||_2 = " + la::sci(r) + " > " + la::sci(bound) + " = c n u kappa_2(A) growth ||b||_2, kappa_2 = " +
                                      la::sci(m.kappa) + ", growth = " + la::sci(m.growth) + ", max leading-block kappa = " + la::sci(m.lead);
        }
        // exact rational solution for the integer families with integer right-hand sides (implied by the residual bound: a cross-check of the reference)
        if (la::fam_is_integer(mem.fam) && integer_rhs && n <= 12 && j.form != F_ADD) {
            std::vector<long long> ai(nn); for (size_t i = 0; i < nn; ++i) ai[i] = (long long)A[i];
            la::Exact e = la::exact_adjugate(ai, n);
            if (e.ok) {
                const ld d = la::i128_to_ld(e.det);
                for (size_t c = 0; c < cols; ++c) {
                    ld err = 0, bn = 0;
                    for (size_t i = 0; i < n; ++i) {
                        la::i128 num = 0; for (size_t k = 0; k < n; ++k) num += e.adj[i * n + k] * (la::i128)(long long)Brhs[k * cols + c];
                        const ld ex = la::i128_to_ld(num) / d, dd = X[i * cols + c] - ex; err += dd * dd;
                    }
                    for (size_t i = 0; i < n; ++i) bn += Brhs[i * cols + c] * Brhs[i * cols + c];
                    err = sqrtl(err); bn = sqrtl(bn);
                    const ld fb = factor * bn / m.smin;
                    fx.route("ref.exact_solution_compared");
                    if (!(err <= fb)) return "column " + std::to_string(c) + ": ||x - x_exact||_2 = " + la::sci(err) + " > " + la::sci(fb) + " although the residual passes (reference inconsistency)";
                }
            }
        }
        return "";
    }

    void one_matrix(const la::Member& mem) {
        la::Measured m;
        la::make_member<T>(mem, n, a, m.A);
        std::vector<size_t> p(n); std::iota(p.begin(), p.end(), (size_t)0);
        long long pivid = -1;
        const bool subs = j.form >= F_FWD;
        const bool piv = !subs && strat_pivoted(j.strat);
        fx.pt(la::FAM_PT[mem.fam], (long long)mem.perm, -1LL, 0LL);
        if (piv) {
            if (!fx.run([&] { j.piv(a, p.data()); })) return;
            if (!la::is_bijection(p.data(), n)) { fx.verdict(false, 1, true, "library pivot<PivType::V>(A) is not a bijection"); return; }
            pivid = la::is_identity(p) ? 1 : 0;
        }
        // solve through the explicit block-recursive inverse (n > 4): see la::dom_threshold
        const bool expl = !subs && n > 4 && (j.strat == 0 || j.strat == 1);
        la::measure<T>(m, n, !subs, piv ? p.data() : nullptr, expl);
        const std::string fam = la::FAM_NAME[mem.fam];
        // substitution with a permutation vector: forward_subs(L, p, b) solves L y = P b; every member of perm_set(n) (thinned to 6 for n > 12)
        std::vector<la::Perm> subperms;
        if (j.form == F_FWDP) { subperms = la::perm_set(n); if (n > 12 && subperms.size() > 6) subperms.resize(6); if (subperms.empty()) subperms.push_back(la::Perm(n, 0)); }
        const size_t nvar = j.form == F_FWDP ? subperms.size() : 1;
        for (size_t var = 0; var < nvar; ++var)
            for (unsigned salt = 0; salt < 2; ++salt) {
                fx.pt(la::FAM_PT[mem.fam], (long long)mem.perm, pivid, (long long)(var * 2 + salt));
                la::make_rhs<T>(n, cols, salt + (unsigned)(2 * j.k), b);
                Mat Brhs; la::to_ld(b, n * cols, Brhs);
                Mat X0;
                if (j.form == F_ADD) { X0.resize(n * cols); for (size_t i = 0; i < n * cols; ++i) { x[i] = (T)(1 + (long long)(i % 3)); X0[i] = (ld)x[i]; } }
                else fxv::fill_const(x, n * cols, fxv::sentinel<T>::v());
                if (j.form == F_FWDP) { size_t* pv = (size_t*)pp; for (size_t i = 0; i < n; ++i) pv[i] = subperms[var][i]; }
                if (!fx.run([&] { j.call(a, b, pp, xp); })) { memset(xp, fx::Arena::CAN, j.sizeofB); continue; }
                Mat X; la::to_ld(x, n * cols, X);
                ld factor = la::CONST_C * (ld)n * u * m.kappa * m.amp();
                Mat Beff(Brhs);
                if (j.form == F_ADD) {   // x = x0 + A^-1 b: remove x0; the rounding of the addition is u |x| per element, i.e. A*(that) <= u ||A||_F ||x||
                    for (size_t i = 0; i < n * cols; ++i) X[i] -= X0[i];
                    ld xn = la::fro(X0.data(), n * cols) + la::fro(X.data(), n * cols), bmin = 1.0e4900L;
                    for (size_t c = 0; c < cols; ++c) { ld bn = 0; for (size_t i = 0; i < n; ++i) bn += Brhs[i * cols + c] * Brhs[i * cols + c]; bn = sqrtl(bn); if (bn < bmin) bmin = bn; }
                    factor += la::CONST_C * u * m.normF * xn / bmin;
                }
                if (j.form == F_FWDP) for (size_t i = 0; i < n; ++i) for (size_t c = 0; c < cols; ++c) Beff[i * cols + c] = Brhs[subperms[var][i] * cols + c];
                ld worst = 0;
                const std::string why = judge_cols(m.A, X, Beff, factor, m, mem, salt % 2 == 0, &worst);
                if (m.in_domain) {
                    fx.route("dom.in." + fam);
                    if (pivid == 0) fx.route("piv.nonidentity.judged");
                    if (worst > 0.25L) fx.route("margin.above_quarter_of_bound");
                    fx.verdict(why.empty(), fx::hash_bytes(a, nn * sizeof(T)) ^ fx::hash_bytes(b, n * cols * sizeof(T)), true, why);
                } else {
                    fx.route("dom.out." + fam);
                    fx.route(why.empty() ? "ood.would_pass" : "ood.would_fail");
                    if (expl && m.lead <= la::dom_threshold<T>(false)) fx.route(why.empty() ? "ood.explicit_block_only.would_pass" : "ood.explicit_block_only.would_fail");
                    if (worst > ood_worst && worst < 1.0e300L) ood_worst = worst;
                }
                finish();
            }
    }
    void run_all() { for (const la::Member& mem : la::members<T>(j.group, n)) one_matrix(mem); if (ood_worst > 0) fx.note("ood_max_ratio=" + la::sci(ood_worst)); }
};
template <class T> static FX_NOINLINE void run_job(fx::Ctx& fx, const Job<T>& j) { Driver<T> d(fx, j); d.run_all(); }

template <class T, size_t N, size_t K, int S, int FORM, int GROUP> static inline void solve_case(fx::Ctx& fx) {
    using B = typename Rhs<T, N, K>::type;
    Job<T> j{N, K, sizeof(Tensor<T, N, N>), sizeof(B), sizeof(Tensor<size_t, N>), S, FORM, GROUP, &thunk<T, N, K, S, FORM>, &piv_thunk<T, N>};
    run_job<T>(fx, j);
}

} // namespace c12
