// c20.h - TensorMap / reshape / flatten / squeeze are aliases; layout conversions; constructors (property C20)
// History part: explicit-state breadth-first search over the contents of one buffer that is seen at the same time by a plain
// reference array (owning-tensor model, updated by boring loops), by the library's map(s) and by the source tensor.
// Only the individual library statements ("letters") are instantiated per compile-time case; the search, the reference
// semantics of every letter and the judgement are run-time-shaped code instantiated once per element type.
#pragma once
#include "fxv.h"
#include <Fastor/Fastor.h>
#include <array>
#include <vector>
#include <unordered_set>
#include <utility>
#include <functional>

namespace c20 {
using namespace Fastor;
static const int MAXR = 4;

template <int R> struct Rank {};
template <int K> struct Tag {};
template <class T, class X> static FASTOR_INLINE T& at(X& x, const size_t* i, Rank<1>) { return x(i[0]); }
template <class T, class X> static FASTOR_INLINE T& at(X& x, const size_t* i, Rank<2>) { return x(i[0], i[1]); }
template <class T, class X> static FASTOR_INLINE T& at(X& x, const size_t* i, Rank<3>) { return x(i[0], i[1], i[2]); }
template <class T, class X> static FASTOR_INLINE T& at(X& x, const size_t* i, Rank<4>) { return x(i[0], i[1], i[2], i[3]); }

template <class T, class D> struct ToTensor;
template <class T, size_t... d> struct ToTensor<T, Index<d...>> { using type = Tensor<T, d...>; using map = TensorMap<T, d...>; using mask = Tensor<bool, d...>; };
template <size_t... v> static inline void fill_idx(size_t* d, Index<v...>) { const size_t a[] = {v...}; for (size_t i = 0; i < sizeof...(v); ++i) d[i] = a[i]; }
static inline size_t prod(const size_t* e, int r) { size_t n = 1; for (int i = 0; i < r; ++i) n *= e[i]; return n; }
static inline void strides(const size_t* e, int r, size_t* st) { size_t s = 1; for (int i = r - 1; i >= 0; --i) { st[i] = s; s *= e[i]; } }
static inline std::string vec_str(const size_t* v, int r) { std::string s; for (int i = 0; i < r; ++i) { if (i) s += "x"; s += std::to_string(v[i]); } return s; }

// =====================================================================================================================
// history part
// =====================================================================================================================
enum Kind { K_RAW = 0, K_MAPT = 1, K_RESHAPE = 2, K_FLATTEN = 3, K_SQUEEZE = 4 };
enum Op { O_SADD = 0, O_SSUB, O_SMUL, O_SDIV, O_TSET, O_TADD, O_TSUB, O_TMUL, O_TDIV, O_ESET, O_EADD, O_ESELF, O_EMUL, O_EL0, O_EL1, O_EL2,
          O_VSET, O_VADD, O_VTENS, O_FSET, O_FSUB, O_FMUL, O_MSET, O_FILL, O_IOTA, O_ZEROS, O_ONES, O_EYE, O_RSUM, O_ASSET, O_ASADD, O_ASSUB, O_ASMUL, O_POKE, O_COUNT };
static const char* const OP_NAME[O_COUNT] = {
    "x+=3", "x-=2(int literal)", "x*=-2", "x/=2", "x=B", "x+=B", "x-=B", "x*=B", "x/=B", "x=B+C", "x+=B*C", "x=x-B", "x*=B+1", "x(first)=7", "x(last)=-7",
    "x(mid)=11", "x(seq..)=5", "x(seq..)+=Sub", "x(seq..)=Sub", "x(fseq..)=4", "x(fseq..)-=Sub", "x(fseq..)*=2", "x(mask)=9", "x.fill(3)", "x.iota(2)",
    "x.zeros()", "x.ones()", "x.eye()", "x.sum()", "x=map(x.data())", "x+=map(x.data())", "x-=map(x.data())", "x*=map(x.data())", "raw buffer write"};

// the slice every view letter selects: per axis (lo,hi,step); the last axis is strided, the others drop their first index
static constexpr int v_lo(size_t e, bool last) { return last ? 0 : (e > 1 ? 1 : 0); }
static constexpr int v_hi(size_t e, bool) { return (int)e; }
static constexpr int v_st(size_t, bool last) { return last ? 2 : 1; }
static constexpr size_t v_cnt(size_t e, bool last) { return (size_t)((v_hi(e, last) - v_lo(e, last) + v_st(e, last) - 1) / v_st(e, last)); }

template <class T, class D, class Seq> struct Views;
template <class T, size_t... d, size_t... k> struct Views<T, Index<d...>, std::index_sequence<k...>> {
    static constexpr size_t R = sizeof...(d);
    using Sub = Tensor<T, v_cnt(d, k == R - 1)...>;
    template <class X> static FASTOR_INLINE auto dyn(X& x) { return x(seq(v_lo(d, k == R - 1), v_hi(d, k == R - 1), v_st(d, k == R - 1))...); }
    template <class X> static FASTOR_INLINE auto fix(X& x) { return x(fseq<v_lo(d, k == R - 1), v_hi(d, k == R - 1), v_st(d, k == R - 1)>{}...); }
};

// operand tensors of the letters (same shape as the object the letter is applied to)
template <class T, class D> struct AuxData;
template <class T, size_t... d> struct AuxData<T, Index<d...>> {
    using VW = Views<T, Index<d...>, std::make_index_sequence<sizeof...(d)>>;
    Tensor<T, d...> B, C;
    typename VW::Sub sub;
    Tensor<bool, d...> mask;
    void init() {
        const size_t n = B.size();
        for (size_t i = 0; i < n; ++i) { B.data()[i] = T(1 + (i * 3) % 5); C.data()[i] = T((long long)(i % 4) - 1); mask.data()[i] = (i % 3 == 0); }
        for (size_t i = 0; i < sub.size(); ++i) sub.data()[i] = T(2 + i % 3);
    }
};

template <class T> struct SideInfo {
    int rank; size_t ext[MAXR], n;
    const T *B, *C, *sub; const bool* mask;
    int lo[MAXR], hi[MAXR], st[MAXR];
};
template <class T, size_t... d> static inline SideInfo<T> make_info(const AuxData<T, Index<d...>>& a) {
    SideInfo<T> s; s.rank = (int)sizeof...(d); fill_idx(s.ext, Index<d...>()); s.n = prod(s.ext, s.rank);
    s.B = a.B.data(); s.C = a.C.data(); s.sub = a.sub.data(); s.mask = a.mask.data();
    for (int i = 0; i < s.rank; ++i) { bool last = i == s.rank - 1; s.lo[i] = v_lo(s.ext[i], last); s.hi[i] = v_hi(s.ext[i], last); s.st[i] = v_st(s.ext[i], last); }
    return s;
}

// ---- the letters: one library statement each ---------------------------------------------------------------------------
template <class T, class D> struct Ops;
template <class T, size_t... d> struct Ops<T, Index<d...>> {
    using DI = Index<d...>;
    using AX = AuxData<T, DI>;
    using VW = typename AX::VW;
    static constexpr int R = (int)sizeof...(d);
    template <class X> static FASTOR_INLINE void go(Tag<O_SADD>, X& x, const AX&, T*) { x += T(3); }
    template <class X> static FASTOR_INLINE void go(Tag<O_SSUB>, X& x, const AX&, T*) { x -= 2; }
    template <class X> static FASTOR_INLINE void go(Tag<O_SMUL>, X& x, const AX&, T*) { x *= T(-2); }
    template <class X> static FASTOR_INLINE void go(Tag<O_SDIV>, X& x, const AX&, T*) { x /= T(2); }
    template <class X> static FASTOR_INLINE void go(Tag<O_TSET>, X& x, const AX& a, T*) { x = a.B; }
    template <class X> static FASTOR_INLINE void go(Tag<O_TADD>, X& x, const AX& a, T*) { x += a.B; }
    template <class X> static FASTOR_INLINE void go(Tag<O_TSUB>, X& x, const AX& a, T*) { x -= a.B; }
    template <class X> static FASTOR_INLINE void go(Tag<O_TMUL>, X& x, const AX& a, T*) { x *= a.B; }
    template <class X> static FASTOR_INLINE void go(Tag<O_TDIV>, X& x, const AX& a, T*) { x /= a.B; }
    template <class X> static FASTOR_INLINE void go(Tag<O_ESET>, X& x, const AX& a, T*) { x = a.B + a.C; }
    template <class X> static FASTOR_INLINE void go(Tag<O_EADD>, X& x, const AX& a, T*) { x += a.B * a.C; }
    template <class X> static FASTOR_INLINE void go(Tag<O_ESELF>, X& x, const AX& a, T*) { x = x - a.B; }
    template <class X> static FASTOR_INLINE void go(Tag<O_EMUL>, X& x, const AX& a, T*) { x *= a.B + T(1); }
    template <class X> static FASTOR_INLINE void go(Tag<O_EL0>, X& x, const AX&, T*) { size_t i[MAXR] = {0, 0, 0, 0}; at<T>(x, i, Rank<R>()) = T(7); }
    template <class X> static FASTOR_INLINE void go(Tag<O_EL1>, X& x, const AX&, T*) { size_t i[MAXR] = {0}; const size_t e[] = {d...}; for (int k = 0; k < R; ++k) i[k] = e[k] - 1; fx::escape(i); at<T>(x, i, Rank<R>()) = T(-7); }
    template <class X> static FASTOR_INLINE void go(Tag<O_EL2>, X& x, const AX&, T*) { size_t i[MAXR] = {0}; const size_t e[] = {d...}; for (int k = 0; k < R; ++k) i[k] = e[k] / 2; fx::escape(i); at<T>(x, i, Rank<R>()) = T(11); }
    template <class X> static FASTOR_INLINE void go(Tag<O_VSET>, X& x, const AX&, T*) { VW::dyn(x) = T(5); }
    template <class X> static FASTOR_INLINE void go(Tag<O_VADD>, X& x, const AX& a, T*) { VW::dyn(x) += a.sub; }
    template <class X> static FASTOR_INLINE void go(Tag<O_VTENS>, X& x, const AX& a, T*) { VW::dyn(x) = a.sub; }
    template <class X> static FASTOR_INLINE void go(Tag<O_FSET>, X& x, const AX&, T*) { VW::fix(x) = T(4); }
    template <class X> static FASTOR_INLINE void go(Tag<O_FSUB>, X& x, const AX& a, T*) { VW::fix(x) -= a.sub; }
    template <class X> static FASTOR_INLINE void go(Tag<O_FMUL>, X& x, const AX&, T*) { VW::fix(x) *= T(2); }
    template <class X> static FASTOR_INLINE void go(Tag<O_MSET>, X& x, const AX& a, T*) { x(a.mask) = T(9); }
    template <class X> static FASTOR_INLINE void go(Tag<O_FILL>, X& x, const AX&, T*) { x.fill(T(3)); }
    template <class X> static FASTOR_INLINE void go(Tag<O_IOTA>, X& x, const AX&, T*) { x.iota(T(2)); }
    template <class X> static FASTOR_INLINE void go(Tag<O_ZEROS>, X& x, const AX&, T*) { x.zeros(); }
    template <class X> static FASTOR_INLINE void go(Tag<O_ONES>, X& x, const AX&, T*) { x.ones(); }
    template <class X> static FASTOR_INLINE void go(Tag<O_EYE>, X& x, const AX&, T*) { x.eye(); }
    template <class X> static FASTOR_INLINE void go(Tag<O_RSUM>, X& x, const AX&, T* res) { *res = x.sum(); }
    // the right-hand side is a second map over the very storage the left-hand side names
    template <class X> static FASTOR_INLINE void go(Tag<O_ASSET>, X& x, const AX&, T*) { TensorMap<T, d...> y(x.data()); x = y; }
    template <class X> static FASTOR_INLINE void go(Tag<O_ASADD>, X& x, const AX&, T*) { TensorMap<T, d...> y(x.data()); x += y; }
    template <class X> static FASTOR_INLINE void go(Tag<O_ASSUB>, X& x, const AX&, T*) { TensorMap<T, d...> y(x.data()); x -= y; }
    template <class X> static FASTOR_INLINE void go(Tag<O_ASMUL>, X& x, const AX&, T*) { TensorMap<T, d...> y(x.data()); x *= y; }
};

// reference semantics of the letters on an owning row-major array
template <class T> static inline void for_view(const SideInfo<T>& s, T* data, const std::function<void(T&, size_t)>& f) {
    size_t st[MAXR]; strides(s.ext, s.rank, st);
    int idx[MAXR]; for (int i = 0; i < s.rank; ++i) idx[i] = s.lo[i];
    size_t cnt = 0;
    for (;;) {
        size_t o = 0; for (int i = 0; i < s.rank; ++i) o += (size_t)idx[i] * st[i];
        f(data[o], cnt++);
        int dd = s.rank - 1;
        for (; dd >= 0; --dd) { idx[dd] += s.st[dd]; if (idx[dd] < s.hi[dd]) break; idx[dd] = s.lo[dd]; }
        if (dd < 0) break;
    }
}
template <class T> static inline void ref_apply(int op, T* x, const SideInfo<T>& s, T* res) {
    const size_t n = s.n; size_t st[MAXR]; strides(s.ext, s.rank, st);
    switch (op) {
        case O_SADD: for (size_t i = 0; i < n; ++i) x[i] = x[i] + T(3); break;
        case O_SSUB: for (size_t i = 0; i < n; ++i) x[i] = x[i] - T(2); break;
        case O_SMUL: for (size_t i = 0; i < n; ++i) x[i] = x[i] * T(-2); break;
        case O_SDIV: for (size_t i = 0; i < n; ++i) x[i] = x[i] / T(2); break;
        case O_TSET: for (size_t i = 0; i < n; ++i) x[i] = s.B[i]; break;
        case O_TADD: for (size_t i = 0; i < n; ++i) x[i] = x[i] + s.B[i]; break;
        case O_TSUB: for (size_t i = 0; i < n; ++i) x[i] = x[i] - s.B[i]; break;
        case O_TMUL: for (size_t i = 0; i < n; ++i) x[i] = x[i] * s.B[i]; break;
        case O_TDIV: for (size_t i = 0; i < n; ++i) x[i] = x[i] / s.B[i]; break;
        case O_ESET: for (size_t i = 0; i < n; ++i) x[i] = s.B[i] + s.C[i]; break;
        case O_EADD: for (size_t i = 0; i < n; ++i) x[i] = x[i] + s.B[i] * s.C[i]; break;
        case O_ESELF: for (size_t i = 0; i < n; ++i) x[i] = x[i] - s.B[i]; break;
        case O_EMUL: for (size_t i = 0; i < n; ++i) x[i] = x[i] * (s.B[i] + T(1)); break;
        case O_EL0: x[0] = T(7); break;
        case O_EL1: x[n - 1] = T(-7); break;
        case O_EL2: { size_t o = 0; for (int i = 0; i < s.rank; ++i) o += (s.ext[i] / 2) * st[i]; x[o] = T(11); } break;
        case O_VSET: for_view<T>(s, x, [&](T& v, size_t) { v = T(5); }); break;
        case O_VADD: for_view<T>(s, x, [&](T& v, size_t c) { v = v + s.sub[c]; }); break;
        case O_VTENS: for_view<T>(s, x, [&](T& v, size_t c) { v = s.sub[c]; }); break;
        case O_FSET: for_view<T>(s, x, [&](T& v, size_t) { v = T(4); }); break;
        case O_FSUB: for_view<T>(s, x, [&](T& v, size_t c) { v = v - s.sub[c]; }); break;
        case O_FMUL: for_view<T>(s, x, [&](T& v, size_t) { v = v * T(2); }); break;
        case O_MSET: for (size_t i = 0; i < n; ++i) if (s.mask[i]) x[i] = T(9); break;
        case O_FILL: for (size_t i = 0; i < n; ++i) x[i] = T(3); break;
        case O_IOTA: for (size_t i = 0; i < n; ++i) x[i] = T(2) + T((long long)i); break;
        case O_ZEROS: for (size_t i = 0; i < n; ++i) x[i] = T(0); break;
        case O_ONES: for (size_t i = 0; i < n; ++i) x[i] = T(1); break;
        case O_EYE: { for (size_t i = 0; i < n; ++i) x[i] = T(0); for (size_t q = 0; q < s.ext[0]; ++q) { size_t o = 0; for (int i = 0; i < s.rank; ++i) o += q * st[i]; x[o] = T(1); } } break;
        case O_RSUM: { T a = T(0); for (size_t i = 0; i < n; ++i) a = a + x[i]; *res = a; } break;
        case O_ASSET: break;
        case O_ASADD: for (size_t i = 0; i < n; ++i) x[i] = x[i] + x[i]; break;
        case O_ASSUB: for (size_t i = 0; i < n; ++i) x[i] = x[i] - x[i]; break;
        case O_ASMUL: for (size_t i = 0; i < n; ++i) x[i] = x[i] * x[i]; break;
        case O_POKE: x[n / 3] = T(13); break;
    }
}

template <class T> struct Letter { int op, side; void (*fn)(void* base, const void* aux, T* res); const void* aux; };

template <class T, class Get, class OPS, int OP> struct Th {
    static FX_NOINLINE void fn(void* base, const void* aux, T* res) {
        fx::escape(base); fx::escape(aux);
        auto&& x = Get::get(base);
        OPS::go(Tag<OP>(), x, *static_cast<const typename OPS::AX*>(aux), res);
        fx::clobber();
    }
};
template <class T> struct PokeTh { static FX_NOINLINE void fn(void*, const void*, T*) {} };   // the write is done by the reference code on the raw buffer

template <bool C> struct RegIf {
    template <class T, class Get, class OPS, int OP> static void add(std::vector<Letter<T>>& tab, int side, const void* aux) { tab.push_back(Letter<T>{OP, side, &Th<T, Get, OPS, OP>::fn, aux}); }
};
template <> struct RegIf<false> { template <class T, class Get, class OPS, int OP> static void add(std::vector<Letter<T>>&, int, const void*) {} };
template <size_t... d> struct Uniform { static constexpr bool value = no_of_unique<d...>::value == 1 && sizeof...(d) >= 2; };

// SEL: 0 = all letters the object accepts, 1 = a reduced set (whole-object letters and one view) for the second side
template <class T, class Get, class DI, bool MASK_OK, int SEL> struct Reg;
template <class T, class Get, size_t... d, bool MASK_OK, int SEL> struct Reg<T, Get, Index<d...>, MASK_OK, SEL> {
    using OPS = Ops<T, Index<d...>>;
    static void all(std::vector<Letter<T>>& tab, int side, const void* aux) {
#define C20_REG(OP, COND) RegIf<(COND)>::template add<T, Get, OPS, OP>(tab, side, aux)
        C20_REG(O_SADD, true); C20_REG(O_SSUB, SEL == 0); C20_REG(O_SMUL, true); C20_REG(O_SDIV, true);
        C20_REG(O_TSET, true); C20_REG(O_TADD, true); C20_REG(O_TSUB, SEL == 0); C20_REG(O_TMUL, true); C20_REG(O_TDIV, std::is_integral<T>::value);
        C20_REG(O_ESET, true); C20_REG(O_EADD, true); C20_REG(O_ESELF, true); C20_REG(O_EMUL, SEL == 0);
        C20_REG(O_EL0, SEL == 0); C20_REG(O_EL1, true); C20_REG(O_EL2, SEL == 0);
        // a tensor assigned (or compound-assigned) to a dynamic view of a 2-D TensorMap does not compile (the generic n-D view builds the 2-D Tensor
        // view specialisation from an array of seq; the 1-D case was repaired in /repo cbcda0a): recorded by reject_view_tensor, kept out of the
        // alphabet of rank-2 maps
        C20_REG(O_VSET, true); C20_REG(O_VADD, SEL == 0 && (MASK_OK || sizeof...(d) != 2)); C20_REG(O_VTENS, SEL == 0 && (MASK_OK || sizeof...(d) != 2));
        C20_REG(O_FSET, true); C20_REG(O_FSUB, SEL == 0); C20_REG(O_FMUL, SEL == 0);
        C20_REG(O_MSET, MASK_OK);
        C20_REG(O_FILL, true); C20_REG(O_IOTA, true); C20_REG(O_ZEROS, true); C20_REG(O_ONES, SEL == 0);
        C20_REG(O_EYE, (Uniform<d...>::value));
        C20_REG(O_RSUM, true);
        // squares along a depth-3 history overflow int32 (undefined in the scalar reference) and leave the exact range of float: the product letter is double only
        C20_REG(O_ASSET, SEL == 0); C20_REG(O_ASADD, true); C20_REG(O_ASSUB, SEL == 0); C20_REG(O_ASMUL, (SEL == 0 && std::is_same<T, double>::value));
#undef C20_REG
    }
};

// how the alias is obtained from the source object (or from the raw pointer)
template <int K, class T, class S, class V> struct Alias;
template <class T, size_t... s, size_t... v> struct Alias<K_RAW, T, Index<s...>, Index<v...>> {
    using Src = Tensor<T, s...>; using Map = TensorMap<T, v...>;
    static FASTOR_INLINE Map get(void* base) { return Map(static_cast<T*>(base)); }
    static T* data(void* base) { return static_cast<T*>(base); }
    static constexpr size_t bytes = sizeof(T) * Src::size();
    static constexpr bool type_ok = true;
};
template <class T, size_t... s, size_t... v> struct Alias<K_MAPT, T, Index<s...>, Index<v...>> {
    using Src = Tensor<T, s...>; using Map = TensorMap<T, v...>;
    static FASTOR_INLINE Map get(void* base) { return Map(*static_cast<Src*>(base)); }
    static T* data(void* base) { return static_cast<Src*>(base)->data(); }
    static constexpr size_t bytes = sizeof(Src);
    static constexpr bool type_ok = true;
};
template <class T, size_t... s, size_t... v> struct Alias<K_RESHAPE, T, Index<s...>, Index<v...>> {
    using Src = Tensor<T, s...>; using Map = TensorMap<T, v...>;
    static FASTOR_INLINE auto get(void* base) -> decltype(reshape<v...>(*static_cast<Src*>(base))) { return reshape<v...>(*static_cast<Src*>(base)); }
    static T* data(void* base) { return static_cast<Src*>(base)->data(); }
    static constexpr size_t bytes = sizeof(Src);
    static constexpr bool type_ok = std::is_same<decltype(reshape<v...>(std::declval<Src&>())), Map>::value;
};
template <class T, size_t... s, size_t... v> struct Alias<K_FLATTEN, T, Index<s...>, Index<v...>> {
    using Src = Tensor<T, s...>; using Map = TensorMap<T, v...>;
    static FASTOR_INLINE auto get(void* base) -> decltype(flatten(*static_cast<Src*>(base))) { return flatten(*static_cast<Src*>(base)); }
    static T* data(void* base) { return static_cast<Src*>(base)->data(); }
    static constexpr size_t bytes = sizeof(Src);
    static constexpr bool type_ok = std::is_same<decltype(flatten(std::declval<Src&>())), Map>::value;
};
template <class T, size_t... s, size_t... v> struct Alias<K_SQUEEZE, T, Index<s...>, Index<v...>> {
    using Src = Tensor<T, s...>; using Map = TensorMap<T, v...>;
    static FASTOR_INLINE auto get(void* base) -> decltype(squeeze(*static_cast<Src*>(base))) { return squeeze(*static_cast<Src*>(base)); }
    static T* data(void* base) { return static_cast<Src*>(base)->data(); }
    static constexpr size_t bytes = sizeof(Src);
    static constexpr bool type_ok = std::is_same<decltype(squeeze(std::declval<Src&>())), Map>::value;
};
template <class Src> struct SrcGet { static FASTOR_INLINE Src& get(void* base) { return *static_cast<Src*>(base); } };
template <class T, size_t N> struct FlatGet { static FASTOR_INLINE TensorMap<T, N> get(void* base) { return TensorMap<T, N>(static_cast<T*>(base)); } };

template <class T> struct HJob {
    int kind; size_t n, bytes; bool alias_type_ok;
    std::vector<Letter<T>> letters;
    void (*read_alias)(void* base, T* out);      // evaluates the alias into an owning tensor and copies it out
    void (*read_alias2)(void* base, T* out);     // K_RAW: a second (flat) map over the same buffer
    T* (*data_of)(void* base);
    SideInfo<T> side[2];
    int depth_first, depth_rest, mis_stride;     // K_RAW: BFS depth at misalignment 0 / at the others; stride between misalignments in units of alignof(T)
};
template <class T, class Get, class Owning> struct ReadTh {
    static FX_NOINLINE void fn(void* base, T* out) {
        fx::escape(base); auto&& x = Get::get(base);
        Owning c(x); fx::escape(c.data());
        for (size_t i = 0; i < Owning::size(); ++i) out[i] = c.data()[i];
    }
};

template <class T> struct HDriver {
    fx::Ctx& fx; const HJob<T>& j;
    std::vector<T> ref, tmp, before;
    uint64_t states = 0, transitions = 0;
    signed char last_path[3] = {-1, -1, -1}; bool last_path_valid = false, sample_done = false;
    HDriver(fx::Ctx& f, const HJob<T>& jj) : fx(f), j(jj), ref(jj.n), tmp(jj.n), before(jj.n) {}
    struct St { std::vector<T> v; signed char path[3]; };

    void bfs(void* base, int depth, long long mis) {
        T* buf = j.data_of(base);
        const size_t n = j.n, nb = n * sizeof(T);
        std::unordered_set<uint64_t> seen;
        std::vector<St> frontier(1), next;
        frontier[0].v.resize(n); for (size_t i = 0; i < n; ++i) frontier[0].v[i] = T((long long)i + 1);
        frontier[0].path[0] = frontier[0].path[1] = frontier[0].path[2] = -1;
        seen.insert(fx::hash_bytes(frontier[0].v.data(), nb));
        for (int dpt = 1; dpt <= depth; ++dpt) {
            next.clear();
            for (const St& s : frontier) {
                for (size_t li = 0; li < j.letters.size(); ++li) {
                    const Letter<T>& L = j.letters[li];
                    const SideInfo<T>& si = j.side[L.side];
                    signed char path[3] = {s.path[0], s.path[1], s.path[2]}; path[dpt - 1] = (signed char)li;
                    memcpy(buf, s.v.data(), nb); memcpy(ref.data(), s.v.data(), nb);
                    fx.pt("mis=%lld,depth=%lld,letters=%lld>%lld>%lld,op=%lld,side=%lld", mis, (long long)dpt, (long long)path[0], (long long)path[1], (long long)path[2],
                          (long long)L.op, (long long)L.side);
                    T res = T(0), rres = T(0);
                    ++transitions;
                    if (L.op == O_POKE) { ref_apply<T>(L.op, buf, si, &res); }
                    else if (!fx.run([&] { L.fn(base, L.aux, &res); })) continue;
                    ref_apply<T>(L.op, ref.data(), si, &rres);
                    bool ok = fx.eq(buf, ref.data(), n, L.op == O_RSUM ? nullptr : s.v.data(), OP_NAME[L.op]);
                    if (L.op == O_RSUM) ok = fx.verdict(fx::Ctx::same(res, rres), fx::hash_bytes(&rres, sizeof(T)), true,
                                                        std::string("x.sum() returned ") + fx::vstr(res) + " expected " + fx::vstr(rres)) && ok;
                    // every alias reads the same values
                    j.read_alias(base, tmp.data());
                    if (memcmp(tmp.data(), ref.data(), nb) != 0) { ok = false; fx.verdict(false, 11, true, std::string("alias reads different values after ") + OP_NAME[L.op]); }
                    if (j.read_alias2) { j.read_alias2(base, tmp.data()); if (memcmp(tmp.data(), ref.data(), nb) != 0) { ok = false; fx.verdict(false, 12, true, std::string("second alias reads different values after ") + OP_NAME[L.op]); } }
                    ok = fx.frame(0, base, j.bytes, "write outside the buffer") && ok;
                    if (!ok) { fx.arena[0].paint(); continue; }     // do not search below a wrong state
                    if (dpt == depth) { memcpy(last_path, path, 3); last_path_valid = true; }
                    uint64_t h = fx::hash_bytes(buf, nb);
                    if (seen.insert(h).second && dpt < depth) { St ns; ns.v.assign(buf, buf + n); memcpy(ns.path, path, 3); next.push_back(std::move(ns)); }
                }
            }
            frontier.swap(next);
        }
        states += seen.size();
        if (!sample_done && last_path_valid) {
            std::string h = "sample history (mis=" + std::to_string(mis) + "): start 1..n";
            for (int q = 0; q < 3 && last_path[q] >= 0; ++q) { const Letter<T>& L = j.letters[(size_t)last_path[q]]; h += std::string(" -> ") + (L.side ? "source: " : "alias: ") + OP_NAME[L.op]; }
            fx.note(h); sample_done = true;
        }
    }
    void run() {
        fx.verdict(j.alias_type_ok, 5, true, "the alias is not the TensorMap type the statement names");
        if (j.kind == K_RAW) {
            const size_t al = alignof(T);
            for (size_t mis = 0; mis < 64; mis += al * (size_t)j.mis_stride) {
                fx.arena[0].paint();
                void* base = fx.arena[0].place_mid(j.bytes, 64, mis);
                bfs(base, mis == 0 ? j.depth_first : j.depth_rest, (long long)mis);
            }
        } else {
            fx.arena[0].paint();
            void* base = fx.arena[0].place_mid(j.bytes, 64, 0);
            bfs(base, j.depth_first, 0);
        }
        fx.route("mc.states", states); fx.route("mc.transitions", transitions); fx.route("mc.depth.max", (uint64_t)j.depth_first);
    }
};
template <class T> static FX_NOINLINE void run_history(fx::Ctx& fx, const HJob<T>& j) { HDriver<T> d(fx, j); d.run(); }

template <class T, class S, class V, int K> static inline void history(fx::Ctx& fx, int depth_first = 3, int depth_rest = 3, int mis_stride = 1) {
    using AL = Alias<K, T, S, V>;
    using Src = typename AL::Src; using Map = typename AL::Map;
    static_assert(std::is_trivially_destructible<Src>::value, "tensor objects are placed in raw arenas");
    static AuxData<T, V> auxA; static AuxData<T, S> auxS;
    auxA.init(); auxS.init();
    HJob<T> j;
    j.kind = K; j.n = Src::size(); j.bytes = AL::bytes; j.alias_type_ok = AL::type_ok;
    j.side[0] = make_info<T>(auxA); j.side[1] = make_info<T>(auxS);
    j.depth_first = depth_first; j.depth_rest = depth_rest; j.mis_stride = mis_stride;
    j.data_of = &AL::data;
    Reg<T, AL, V, false, 0>::all(j.letters, 0, &auxA);
    if (K == K_RAW) j.letters.push_back(Letter<T>{O_POKE, 1, &PokeTh<T>::fn, nullptr});
    else Reg<T, SrcGet<Src>, S, true, 1>::all(j.letters, 1, &auxS);
    j.read_alias = &ReadTh<T, AL, typename ToTensor<T, V>::type>::fn;
    j.read_alias2 = K == K_RAW ? &ReadTh<T, FlatGet<T, Src::size()>, Tensor<T, Src::size()>>::fn : nullptr;
    run_history<T>(fx, j);
}

// ---- spellings the library declares on maps but cannot instantiate (recorded, not judged) -----------------------------
template <class T> static inline void reject_matmul(fx::Ctx& fx) {
    T buf[9] = {0}; Tensor<T, 3, 3> A, B; A.iota(1); B.iota(2);
    TensorMap<T, 3, 3> m(buf); m = A % B;
    Tensor<T, 3, 3> e = matmul(A, B);
    fx.eq(buf, e.data(), 9, (const T*)nullptr, "TensorMap = A % B");
}
template <class T> static inline void reject_mask(fx::Ctx& fx) {
    T buf[6] = {1, 2, 3, 4, 5, 6}, e[6] = {9, 2, 3, 9, 5, 6}; Tensor<bool, 2, 3> mk; for (int i = 0; i < 6; ++i) mk.data()[i] = i % 3 == 0;
    TensorMap<T, 2, 3> m(buf); m(mk) = T(9);
    fx.eq(buf, e, 6, (const T*)nullptr, "TensorMap(mask) = 9");
}
template <class T, int RANK> struct RejectView;
template <class T> struct RejectView<T, 1> { static void go(T* buf) { TensorMap<T, 6> m(buf); Tensor<T, 3> s; s.fill(T(9)); m(seq(0, 6, 2)) = s; } };
template <class T> struct RejectView<T, 2> { static void go(T* buf) { TensorMap<T, 2, 3> m(buf); Tensor<T, 1, 3> s; s.fill(T(9)); m(seq(0, 1), seq(0, 3)) = s; } };
template <class T, int RANK> static inline void reject_view_tensor(fx::Ctx& fx) {
    T buf[6] = {1, 2, 3, 4, 5, 6}, e1[6] = {9, 2, 9, 4, 9, 6}, e2[6] = {9, 9, 9, 4, 5, 6};
    RejectView<T, RANK>::go(buf);
    fx.eq(buf, RANK == 1 ? e1 : e2, 6, (const T*)nullptr, "TensorMap(seq..) = Tensor");
}
// assignment between two maps of the same type: an owning tensor copies the values
template <class T, size_t... d> static FX_NOINLINE void map_assign_same(T* b1, T* b2) { TensorMap<T, d...> m1(b1), m2(b2); fx::escape(b1); fx::escape(b2); m1 = m2; fx::clobber(); }
template <class T, size_t M, size_t N> static FX_NOINLINE void map_assign_other(T* b1, T* b2) { TensorMap<T, M, N> m1(b1); TensorMap<T, N, M> m2(b2); fx::escape(b1); fx::escape(b2); m1 = m2; fx::clobber(); }
template <class T, size_t M, size_t N, int SAME> static inline void map_assign(fx::Ctx& fx) {
    const size_t n = M * N;
    fx.arena[0].paint(); fx.arena[1].paint();
    T* b1 = (T*)fx.arena[0].place_mid(n * sizeof(T), 64, alignof(T)); T* b2 = (T*)fx.arena[1].place_mid(n * sizeof(T), 64, 0);
    std::vector<T> init(n), exp(n);
    for (size_t i = 0; i < n; ++i) { init[i] = b1[i] = T((long long)i + 1); exp[i] = b2[i] = T(100 + (long long)i); }
    fx.pt(SAME ? "map=map (same type)" : "map=map (other shape, same size)");
    if (!fx.run([&] { if (SAME) map_assign_same<T, M, N>(b1, b2); else map_assign_other<T, M, N>(b1, b2); })) return;
    fx.eq(b1, exp.data(), n, init.data(), "destination buffer after map = map");
    fx.eq(b2, exp.data(), n, (const T*)nullptr, "source buffer after map = map");
    fx.frame(0, b1, n * sizeof(T), "write outside the destination buffer");
}

// =====================================================================================================================
// enumeration part
// =====================================================================================================================
// reshape / flatten / squeeze: the returned map has the target type, addresses every element of the source's storage at the
// row-major offset of the target shape, and a write through it lands in the source
template <class T> struct AJob {
    int kind; int srank, vrank; size_t sext[MAXR], vext[MAXR]; size_t sizeofSrc; bool type_ok;
    T* (*elem)(void* src, const size_t* idx);
    void (*dims)(void* src, size_t* out);
    void (*iota)(void* src);
    T* (*data_of)(void* src);
};
template <class T, class S, class V, int K> struct ATh {
    using AL = Alias<K, T, S, V>;
    static constexpr int VR = (int)V::Size;
    static FX_NOINLINE T* elem(void* src, const size_t* idx) { fx::escape(src); auto&& m = AL::get(src); return &at<T>(m, idx, Rank<VR>()); }
    static FX_NOINLINE void dims(void* src, size_t* out) { auto&& m = AL::get(src); for (int i = 0; i < VR; ++i) out[i] = m.dimension(i); }
    static FX_NOINLINE void iota(void* src) { fx::escape(src); auto&& m = AL::get(src); m.iota(T(5)); fx::clobber(); }
};
template <class T> static FX_NOINLINE void run_alias(fx::Ctx& fx, const AJob<T>& j) {
    const size_t n = prod(j.sext, j.srank);
    fx.arena[0].paint();
    void* src = fx.arena[0].place_mid(j.sizeofSrc, 64, 0);
    T* d = j.data_of(src);
    std::vector<T> init(n), exp(n);
    for (size_t i = 0; i < n; ++i) init[i] = d[i] = T((long long)i + 1);
    fx.pt("check=type+extents");
    size_t got[MAXR] = {0};
    if (!fx.run([&] { j.dims(src, got); })) return;
    bool eok = j.type_ok && prod(j.vext, j.vrank) == n; for (int i = 0; i < j.vrank; ++i) eok = eok && got[i] == j.vext[i];
    fx.verdict(eok, fx::hash_bytes(j.vext, sizeof(size_t) * j.vrank), true, "map type/extents are " + vec_str(got, j.vrank) + ", expected " + vec_str(j.vext, j.vrank));
    // every multi-index of the target shape addresses the source's storage at the row-major offset
    fx.pt("check=addresses");
    size_t st[MAXR], idx[MAXR] = {0}; strides(j.vext, j.vrank, st);
    long long bad = -1; size_t visited = 0;
    bool ran = fx.run([&] {
        for (size_t flat = 0; flat < n; ++flat) {
            T* p = j.elem(src, idx);
            size_t o = 0; for (int i = 0; i < j.vrank; ++i) o += idx[i] * st[i];
            if (p != d + o && bad < 0) bad = (long long)flat;
            ++visited;
            for (int dd = j.vrank - 1; dd >= 0; --dd) { if (++idx[dd] < j.vext[dd]) break; idx[dd] = 0; }
        }
    });
    if (!ran) return;
    fx.verdict(bad < 0 && visited == n, fx::hash_bytes(&n, sizeof n) ^ 77, true, "element " + std::to_string(bad) + " of the map is not at its row-major offset in the source");
    fx.pt("check=write-through");
    if (!fx.run([&] { j.iota(src); })) return;
    for (size_t i = 0; i < n; ++i) exp[i] = T(5) + T((long long)i);
    fx.eq(d, exp.data(), n, init.data(), "iota through the map lands in the source");
    fx.frame(0, src, j.sizeofSrc, "write outside the source tensor");
}
template <class T, class S, class V, int K> static inline void alias(fx::Ctx& fx) {
    using X = ATh<T, S, V, K>; using AL = typename X::AL;
    AJob<T> j; memset(&j, 0, sizeof j);
    j.kind = K; j.srank = (int)S::Size; j.vrank = (int)V::Size; fill_idx(j.sext, S()); fill_idx(j.vext, V());
    j.sizeofSrc = sizeof(typename AL::Src); j.type_ok = AL::type_ok;
    j.elem = &X::elem; j.dims = &X::dims; j.iota = &X::iota; j.data_of = &AL::data;
    run_alias<T>(fx, j);
}

// layout conversions and the raw-pointer / std::array / std::vector constructors
template <class T> struct LJob {
    int rank; size_t ext[MAXR]; size_t sizeofA; int mode;   // mode 0: orientation-agnostic pair + round trip + constructors, 1: by-name orientation
    void (*tocm)(const void* a, void* out);
    void (*torm)(const void* a, void* out);
    void (*tocm_map)(const T* buf, void* out);
    void (*ctor_ptr)(const T* buf, int layout, void* out);      // layout: -1 = default argument
    void (*ctor_arr)(const T* buf, int layout, void* out);
    void (*ctor_vec)(const T* buf, int layout, void* out);
};
template <class T, size_t... d> struct LTh {
    using A = Tensor<T, d...>;
    static constexpr size_t N = A::size();
    static FX_NOINLINE void tocm(const void* a, void* out) { fx::escape(a); new (out) A(tocolumnmajor(*static_cast<const A*>(a))); fx::clobber(); }
    static FX_NOINLINE void torm(const void* a, void* out) { fx::escape(a); new (out) A(torowmajor(*static_cast<const A*>(a))); fx::clobber(); }
    static FX_NOINLINE void tocm_map(const T* buf, void* out) { fx::escape(buf); TensorMap<T, d...> m(const_cast<T*>(buf)); new (out) A(tocolumnmajor(m)); fx::clobber(); }
    static FX_NOINLINE void ctor_ptr(const T* buf, int layout, void* out) { fx::escape(buf); if (layout < 0) new (out) A(buf); else new (out) A(buf, layout); fx::clobber(); }
    static FX_NOINLINE void ctor_arr(const T* buf, int layout, void* out) {
        std::array<T, N> arr; for (size_t i = 0; i < N; ++i) arr[i] = buf[i]; fx::escape(arr.data());
        if (layout < 0) new (out) A(arr); else new (out) A(arr, layout); fx::clobber(); }
    static FX_NOINLINE void ctor_vec(const T* buf, int layout, void* out) {
        std::vector<T> v(buf, buf + N); fx::escape(v.data());
        if (layout < 0) new (out) A(v); else new (out) A(v, layout); fx::clobber(); }
};
template <class T> static FX_NOINLINE void run_layout(fx::Ctx& fx, const LJob<T>& j) {
    const size_t n = prod(j.ext, j.rank);
    fx.arena[0].paint(); fx.arena[1].paint(); fx.arena[2].paint();
    unsigned char* a = fx.arena[1].place_mid(j.sizeofA, 64);
    unsigned char* o1 = fx.arena[0].place_mid(j.sizeofA, 64);
    unsigned char* o2 = fx.arena[2].place_mid(j.sizeofA, 64);
    T* ad = (T*)a;
    std::vector<T> val(n), r2c(n), c2r(n), sent(n, fxv::sentinel<T>::v());
    for (size_t i = 0; i < n; ++i) val[i] = ad[i] = T((long long)i + 1);
    // r2c[col(i)] = val[row(i)] ; c2r[row(i)] = val[col(i)]
    {
        size_t rs[MAXR], cs[MAXR], idx[MAXR] = {0}; strides(j.ext, j.rank, rs);
        size_t s = 1; for (int i = 0; i < j.rank; ++i) { cs[i] = s; s *= j.ext[i]; }
        for (size_t flat = 0; flat < n; ++flat) {
            size_t ro = 0, co = 0; for (int i = 0; i < j.rank; ++i) { ro += idx[i] * rs[i]; co += idx[i] * cs[i]; }
            r2c[co] = val[ro]; c2r[ro] = val[co];
            for (int dd = j.rank - 1; dd >= 0; --dd) { if (++idx[dd] < j.ext[dd]) break; idx[dd] = 0; }
        }
    }
    const bool distinguishable = memcmp(r2c.data(), c2r.data(), n * sizeof(T)) != 0;
    auto clear = [&](unsigned char* o) { memset(o, fx::Arena::CAN, j.sizeofA); };
    auto is = [&](const unsigned char* o, const std::vector<T>& e) { return memcmp(o, e.data(), n * sizeof(T)) == 0; };
    if (j.mode == 1) {
        // by name: tocolumnmajor places element (i0..ik) at the column-major offset; torowmajor is its inverse
        fx.pt("fn=tocolumnmajor"); clear(o1);
        if (fx.run([&] { j.tocm(a, o1); })) { fx.eq((T*)o1, r2c.data(), n, sent.data(), "tocolumnmajor(A).data()[colmajor(i)] = A(i)"); fx.frame(0, o1, j.sizeofA, "write outside the result"); }
        fx.pt("fn=torowmajor"); clear(o1);
        if (fx.run([&] { j.torm(a, o1); })) { fx.eq((T*)o1, c2r.data(), n, sent.data(), "torowmajor(A)(i) = A.data()[colmajor(i)]"); fx.frame(0, o1, j.sizeofA, "write outside the result"); }
        return;
    }
    // orientation-agnostic: one of the two functions is the row->column conversion, the other the column->row conversion
    fx.pt("fn=tocolumnmajor"); clear(o1);
    if (!fx.run([&] { j.tocm(a, o1); })) return;
    const bool cm_r2c = is(o1, r2c), cm_c2r = is(o1, c2r);
    fx.frame(0, o1, j.sizeofA, "write outside the result");
    fx.pt("fn=torowmajor(tocolumnmajor)"); clear(o2);
    if (!fx.run([&] { j.torm(o1, o2); })) return;
    fx.eq((T*)o2, val.data(), n, sent.data(), "torowmajor(tocolumnmajor(A)) = A");
    fx.frame(2, o2, j.sizeofA, "write outside the result");
    fx.pt("fn=torowmajor"); clear(o1);
    if (!fx.run([&] { j.torm(a, o1); })) return;
    const bool rm_r2c = is(o1, r2c), rm_c2r = is(o1, c2r);
    fx.frame(0, o1, j.sizeofA, "write outside the result");
    fx.pt("fn=tocolumnmajor(torowmajor)"); clear(o2);
    if (!fx.run([&] { j.tocm(o1, o2); })) return;
    fx.eq((T*)o2, val.data(), n, sent.data(), "tocolumnmajor(torowmajor(A)) = A");
    fx.pt("check=conversion pair");
    {
        const bool pair_ok = (cm_r2c && rm_c2r) || (cm_c2r && rm_r2c);
        char b[200]; snprintf(b, sizeof b, "tocolumnmajor is row->col:%d col->row:%d ; torowmajor is row->col:%d col->row:%d", (int)cm_r2c, (int)cm_c2r, (int)rm_r2c, (int)rm_c2r);
        fx.verdict(pair_ok, fx::hash_bytes(r2c.data(), n * sizeof(T)), true, b);
        if (pair_ok) fx.route(!distinguishable ? "layout.orientation.indistinguishable" : (cm_r2c ? "layout.tocolumnmajor=row2col" : "layout.tocolumnmajor=col2row"));
    }
    // the same conversion from a map over a misaligned raw buffer
    {
        fx.arena[3].paint();
        T* mb = (T*)fx.arena[3].place_mid(n * sizeof(T), 64, alignof(T)); memcpy(mb, val.data(), n * sizeof(T));
        fx.pt("fn=tocolumnmajor(TensorMap)"); clear(o2);
        if (fx.run([&] { j.tocm_map(mb, o2); })) fx.eq((T*)o2, cm_r2c ? r2c.data() : c2r.data(), n, sent.data(), "tocolumnmajor(map) = tocolumnmajor(tensor)");
    }
    // constructors: the given values in row-major order; ColumnMajor: element (i0..ik) is the value at the column-major offset of the buffer
    std::vector<T> bufv(val);
    struct { const char* name; void (*fn)(const T*, int, void*); } ct[3] = {{"pointer", j.ctor_ptr}, {"std::array", j.ctor_arr}, {"std::vector", j.ctor_vec}};
    for (int c = 0; c < 3; ++c)
        for (int layout = -1; layout <= 1; ++layout) {
            fx.pt("ctor=%lld,layout=%lld", (long long)c, (long long)layout); clear(o1);
            if (!fx.run([&] { ct[c].fn(bufv.data(), layout, o1); })) continue;
            fx.eq((T*)o1, layout == 1 ? c2r.data() : val.data(), n, sent.data(), ct[c].name);
            fx.frame(0, o1, j.sizeofA, "write outside the constructed tensor");
        }
}
template <class T, int MODE, size_t... d> static inline void layout(fx::Ctx& fx) {
    using X = LTh<T, d...>;
    LJob<T> j; memset(&j, 0, sizeof j);
    j.rank = (int)sizeof...(d); fill_idx(j.ext, Index<d...>()); j.sizeofA = sizeof(typename X::A); j.mode = MODE;
    j.tocm = &X::tocm; j.torm = &X::torm; j.tocm_map = &X::tocm_map; j.ctor_ptr = &X::ctor_ptr; j.ctor_arr = &X::ctor_arr; j.ctor_vec = &X::ctor_vec;
    run_layout<T>(fx, j);
}

// nested initializer lists: the case body supplies the literal; values are 1,2,3,... in reading order
template <class T> static FX_NOINLINE void run_ilist(fx::Ctx& fx, size_t n, size_t bytes, void (*make)(void*)) {
    fx.arena[0].paint();
    unsigned char* o = fx.arena[0].place_mid(bytes, 64);
    std::vector<T> exp(n), sent(n, fxv::sentinel<T>::v());
    for (size_t i = 0; i < n; ++i) exp[i] = T((long long)i + 1);
    fx.pt("ctor=initializer_list");
    if (!fx.run([&] { fx::escape(o); make(o); fx::clobber(); })) return;
    fx.eq((T*)o, exp.data(), n, sent.data(), "nested initializer list stored in row-major order");
    fx.frame(0, o, bytes, "write outside the constructed tensor");
}
template <class T, size_t... d> static inline void ilist(fx::Ctx& fx, void (*make)(void*)) { run_ilist<T>(fx, Tensor<T, d...>::size(), sizeof(Tensor<T, d...>), make); }

} // namespace c20
