// c11.h - LU factors are triangular and reproduce the (row-permuted) matrix  (property C11)
#pragma once
#include "linalg_common.h"
#include <Fastor/Fastor.h>

namespace c11 {
using namespace Fastor;
using la::ld; using la::Mat;

enum PEnc { P_NONE = 0, P_VEC = 1, P_MAT = 2 };
template <int S> struct Strat;
template <> struct Strat<0> { static constexpr LUCompType v = LUCompType::BlockLU; };
template <> struct Strat<1> { static constexpr LUCompType v = LUCompType::BlockLUPiv; };
template <> struct Strat<2> { static constexpr LUCompType v = LUCompType::SimpleLU; };
template <> struct Strat<3> { static constexpr LUCompType v = LUCompType::SimpleLUPiv; };

template <int PENC, int EXPR> struct Tag {};
template <class T, size_t N, int S> static inline void do_lu(Tag<P_NONE, 0>, const Tensor<T, N, N>& a, Tensor<T, N, N>& l, Tensor<T, N, N>& u, void*) { lu<Strat<S>::v>(a, l, u); }
template <class T, size_t N, int S> static inline void do_lu(Tag<P_NONE, 1>, const Tensor<T, N, N>& a, Tensor<T, N, N>& l, Tensor<T, N, N>& u, void*) { lu<Strat<S>::v>(a + 0, l, u); }
template <class T, size_t N, int S> static inline void do_lu(Tag<P_VEC, 0>, const Tensor<T, N, N>& a, Tensor<T, N, N>& l, Tensor<T, N, N>& u, void* p) { lu<Strat<S>::v>(a, l, u, *static_cast<Tensor<size_t, N>*>(p)); }
template <class T, size_t N, int S> static inline void do_lu(Tag<P_VEC, 1>, const Tensor<T, N, N>& a, Tensor<T, N, N>& l, Tensor<T, N, N>& u, void* p) { lu<Strat<S>::v>(a + 0, l, u, *static_cast<Tensor<size_t, N>*>(p)); }
template <class T, size_t N, int S> static inline void do_lu(Tag<P_MAT, 0>, const Tensor<T, N, N>& a, Tensor<T, N, N>& l, Tensor<T, N, N>& u, void* p) { lu<Strat<S>::v>(a, l, u, *static_cast<Tensor<T, N, N>*>(p)); }
template <class T, size_t N, int S> static inline void do_lu(Tag<P_MAT, 1>, const Tensor<T, N, N>& a, Tensor<T, N, N>& l, Tensor<T, N, N>& u, void* p) { lu<Strat<S>::v>(a + 0, l, u, *static_cast<Tensor<T, N, N>*>(p)); }

template <class T, size_t N, int S, int PENC, int EXPR> static FX_NOINLINE void thunk(const void* ap, void* lp, void* up, void* pp) {
    const Tensor<T, N, N>& a = *static_cast<const Tensor<T, N, N>*>(ap);
    fx::escape(ap); fx::escape(lp); fx::escape(up); fx::escape(pp);
    do_lu<T, N, S>(Tag<PENC, EXPR>(), a, *static_cast<Tensor<T, N, N>*>(lp), *static_cast<Tensor<T, N, N>*>(up), pp);
    fx::clobber();
}
template <class T, size_t N> static inline void do_rec(Tag<P_NONE, 0>, const Tensor<T, N, N>& l, Tensor<T, N, N>& u, const void*, void* o) { new (o) Tensor<T, N, N>(reconstruct(l, u)); }
template <class T, size_t N> static inline void do_rec(Tag<P_VEC, 0>, const Tensor<T, N, N>& l, Tensor<T, N, N>& u, const void* p, void* o) { new (o) Tensor<T, N, N>(reconstruct(l, u, *static_cast<const Tensor<size_t, N>*>(p))); }
template <class T, size_t N> static inline void do_rec(Tag<P_MAT, 0>, const Tensor<T, N, N>& l, Tensor<T, N, N>& u, const void* p, void* o) { new (o) Tensor<T, N, N>(reconstruct(l, u, *static_cast<const Tensor<T, N, N>*>(p))); }
template <class T, size_t N, int PENC> static FX_NOINLINE void rec_thunk(const void* lp, void* up, const void* pp, void* op) {
    fx::escape(lp); fx::escape(up); fx::escape(pp); fx::escape(op);
    do_rec<T, N>(Tag<PENC, 0>(), *static_cast<const Tensor<T, N, N>*>(lp), *static_cast<Tensor<T, N, N>*>(up), pp, op);   // the library's U parameter is a non-const reference
    fx::clobber();
}

template <class T> struct Job {
    size_t n, sizeofM, sizeofP;
    int strat, penc, expr, group;
    void (*call)(const void*, void*, void*, void*);
    void (*rec)(const void*, void*, const void*, void*);
};

template <class T> struct Driver {
    fx::Ctx& fx; const Job<T>& j;
    const size_t n, nn; const ld u;
    T *a, *l, *um; unsigned char *lp, *up, *pp, *op; T* o;
    Driver(fx::Ctx& f, const Job<T>& jj) : fx(f), j(jj), n(jj.n), nn(jj.n * jj.n), u(la::U<T>()) {
        for (int i = 0; i < 4; ++i) fx.arena[i].paint();
        lp = fx.arena[0].place_mid(j.sizeofM, 64); l = (T*)lp;
        up = fx.arena[2].place_mid(j.sizeofM, 64); um = (T*)up;
        pp = fx.arena[3].place_mid(j.sizeofP ? j.sizeofP : 64, 64);
        a = (T*)(fx.arena[1].lo + 256);
        op = fx.arena[1].place_end(j.sizeofM, 4096 + 64 - (j.sizeofM % 64 ? j.sizeofM % 64 : 64));   // 64-byte aligned, a page before the guard
        o = (T*)op;
        if ((size_t)(op - (unsigned char*)a) < j.sizeofM + 1024) { fprintf(stderr, "c11: operands too large for the arena\n"); abort(); }
    }
    void frames() {
        fx.frame(0, lp, j.sizeofM, "write outside L"); fx.frame(2, up, j.sizeofM, "write outside U");
        if (j.penc != P_NONE) fx.frame(3, pp, j.sizeofP, "write outside P");
    }
    void reset() { memset(lp, fx::Arena::CAN, j.sizeofM); memset(up, fx::Arena::CAN, j.sizeofM); if (j.sizeofP) memset(pp, fx::Arena::CAN, j.sizeofP); memset(op, fx::Arena::CAN, j.sizeofM); }

    void one_matrix(const la::Member& mem) {
        Mat A; la::make_member<T>(mem, n, a, A);
        const ld normA = la::fro(A.data(), nn);
        fx.pt(la::FAM_PT[mem.fam], (long long)mem.perm, -1LL, 0LL);
        fxv::fill_const(l, nn, fxv::sentinel<T>::v()); fxv::fill_const(um, nn, fxv::sentinel<T>::v());
        if (j.penc == P_VEC) fxv::fill_const((size_t*)pp, n, (size_t)0x5A5A5A5A5A5A5A5Aull);
        if (j.penc == P_MAT) fxv::fill_const((T*)pp, nn, fxv::sentinel<T>::v());
        if (!fx.run([&] { j.call(a, lp, up, pp); })) { reset(); return; }
        const std::string fam = la::FAM_NAME[mem.fam];
        const uint64_t h = fx::hash_bytes(a, nn * sizeof(T));
        Mat L, Um; la::to_ld(l, nn, L); la::to_ld(um, nn, Um);
        // the permutation
        std::vector<size_t> p(n); std::iota(p.begin(), p.end(), (size_t)0);
        std::string why;
        if (j.penc == P_VEC) {
            const size_t* pv = (const size_t*)pp;
            if (!la::is_bijection(pv, n)) why = "returned permutation vector is not a bijection of 0..n-1";
            else for (size_t i = 0; i < n; ++i) p[i] = pv[i];
        } else if (j.penc == P_MAT) {
            const T* pm = (const T*)pp;
            std::vector<int> colcnt(n, 0);
            for (size_t i = 0; i < n && why.empty(); ++i) {
                int ones = 0;
                for (size_t c = 0; c < n; ++c) {
                    if (pm[i * n + c] == T(1)) { ++ones; ++colcnt[c]; p[i] = c; }
                    else if (!(pm[i * n + c] == T(0))) why = "P(" + std::to_string(i) + "," + std::to_string(c) + ") = " + fx::vstr(pm[i * n + c]) + " is neither 0 nor 1 (unwritten entries show the sentinel)";
                }
                if (why.empty() && ones != 1) why = "row " + std::to_string(i) + " of P holds " + std::to_string(ones) + " ones";
            }
            for (size_t c = 0; c < n && why.empty(); ++c) if (colcnt[c] != 1) why = "column " + std::to_string(c) + " of P holds " + std::to_string(colcnt[c]) + " ones";
        }
        long long pivid = j.penc == P_NONE ? -1 : (why.empty() && la::is_identity(p) ? 1 : 0);
        fx.pt(la::FAM_PT[mem.fam], (long long)mem.perm, pivid, 0LL);
        // breakdown: a (numerically) singular leading block of P*A has no LU factorisation; non-finite factors are then expected
        const bool finite = la::finite_all(L.data(), nn) && la::finite_all(Um.data(), nn);
        Mat PA; la::permute_rows(A, p.data(), n, n, PA);
        if (why.empty() && !finite) {
            const ld lead = la::lead_cond(PA.data(), n);
            if (lead * u * (ld)n >= 0.01L) { fx.route("lu.breakdown.not_judged." + fam); frames(); reset(); return; }
            why = "non-finite entries in the factors although every leading block of P*A is non-singular (max kappa_2 = " + la::sci(lead) + ")";
        }
        // structure: exact
        for (size_t r = 0; r < n && why.empty(); ++r) {
            if (!(L[r * n + r] == 1)) why = "L(" + std::to_string(r) + "," + std::to_string(r) + ") = " + fx::vstr(L[r * n + r]) + " != 1";
            for (size_t c = r + 1; c < n && why.empty(); ++c) if (!(L[r * n + c] == 0)) why = "L(" + std::to_string(r) + "," + std::to_string(c) + ") = " + fx::vstr(L[r * n + c]) + " != 0 above the diagonal";
            for (size_t c = 0; c < r && why.empty(); ++c) if (!(Um[r * n + c] == 0)) why = "U(" + std::to_string(r) + "," + std::to_string(c) + ") = " + fx::vstr(Um[r * n + c]) + " != 0 below the diagonal";
        }
        // numbers: ||PA - LU||_F <= c n u || |L||U| ||_F ; growth above the threshold is counted, not judged
        Mat W(nn); la::mul(L.data(), Um.data(), W.data(), n, n, n, true);
        const ld nlu = la::fro(W.data(), nn), growth = normA > 0 ? nlu / normA : 1;
        bool numerics_judged = true;
        if (why.empty()) {
            if (growth > la::growth_threshold<T>()) { numerics_judged = false; fx.route("growth.over_threshold." + fam); }
            else {
                la::mul(L.data(), Um.data(), W.data(), n, n, n);
                const ld res = la::fro_diff(W.data(), PA.data(), nn), bound = la::CONST_C * (ld)n * u * nlu;
                if (!(res <= bound)) why = "||P A - L U||_F = " + la::sci(res) + " > " + la::sci(bound) + " = c n u || |L||U| ||_F (growth " + la::sci(growth) + ")";
                else if (res > bound / 4) fx.route("margin.above_quarter_of_bound");
                fx.route("growth.judged." + fam);
                if (growth > 10) fx.route("growth.above_10.judged");
            }
        }
        if (pivid == 0) fx.route("piv.nonidentity");
        fx.verdict(why.empty(), h, true, why);
        frames();
        // reconstruct(L, U[, P]) from the returned factors
        if (why.empty() && j.rec && numerics_judged) {
            fxv::fill_const(o, nn, fxv::sentinel<T>::v());
            fx.pt(la::FAM_PT[mem.fam], (long long)mem.perm, pivid, 1LL);
            if (fx.run([&] { j.rec(lp, up, pp, op); })) {
                Mat O; la::to_ld(o, nn, O);
                const ld res = la::fro_diff(O.data(), A.data(), nn), bound = la::CONST_C * (ld)n * u * nlu;
                std::string w2;
                if (!la::finite_all(O.data(), nn)) w2 = "reconstruct returned a non-finite value";
                else if (!(res <= bound)) w2 = "||reconstruct(L,U,P) - A||_F = " + la::sci(res) + " > " + la::sci(bound) + " = c n u || |L||U| ||_F";
                fx.verdict(w2.empty(), h ^ 0x5ec0ull, true, w2);
                fx.frame(1, op, j.sizeofM, "write outside the reconstructed matrix");
            }
        }
        reset();
    }
    void run_all() { for (const la::Member& mem : la::members<T>(j.group, n)) one_matrix(mem); }
};
template <class T> static FX_NOINLINE void run_job(fx::Ctx& fx, const Job<T>& j) { Driver<T> d(fx, j); d.run_all(); }

template <class T, size_t N, int PENC, int REC> struct RecSel { static void (*get())(const void*, void*, const void*, void*) { return &rec_thunk<T, N, PENC>; } };
template <class T, size_t N, int PENC> struct RecSel<T, N, PENC, 0> { static void (*get())(const void*, void*, const void*, void*) { return nullptr; } };
template <class T, size_t N, int S, int PENC, int EXPR, int GROUP, int REC> static inline void lu_case(fx::Ctx& fx) {
    static_assert((PENC == P_NONE) == (S == 0 || S == 2), "pivoted strategies return a permutation");
    Job<T> j{N, sizeof(Tensor<T, N, N>), PENC == P_VEC ? sizeof(Tensor<size_t, N>) : PENC == P_MAT ? sizeof(Tensor<T, N, N>) : 0, S, PENC, EXPR, GROUP,
             &thunk<T, N, S, PENC, EXPR>, RecSel<T, N, PENC, REC>::get()};
    run_job<T>(fx, j);
}

} // namespace c11
