// noalias() on a boolean-mask (filter) view is accepted but ignored: TensorFilterViewExpr stores _does_alias and never
// reads it, so a right-hand side that reads other positions of the same tensor sees already-updated elements.
// g++ -std=c++14 -O2 -DNDEBUG -msse2 -I/repo mask-noalias-noop.cpp -o mask-noalias-noop && ./mask-noalias-noop
#include <Fastor/Fastor.h>
#include <iostream>
using namespace Fastor;
template <class T> void row(const char* s, const T& t) { std::cout << s; for (size_t i = 0; i < t.size(); ++i) std::cout << ' ' << t.data()[i]; std::cout << '\n'; }
int main() {
    Tensor<int,6> a, b, e; a.iota(1); b = a;
    Tensor<bool,6> mask; mask.fill(true);
    Tensor<int,6> rev = {5,4,3,2,1,0};                        // index tensor: reversal
    for (int i = 0; i < 6; ++i) e(i) = 6 - i;                 // a[i] = old a[5-i] wherever mask[i]
    a(mask).noalias() = a(rev);                               // mask view as destination
    Tensor<int,6> all = {0,1,2,3,4,5};
    b(all).noalias()  = b(rev);                               // the same statement through an index-tensor view
    bool ok1 = true, ok2 = true;
    for (int i = 0; i < 6; ++i) { ok1 = ok1 && a(i) == e(i); ok2 = ok2 && b(i) == e(i); }
    row("expected  :", e); row("mask view :", a); row("index view:", b);
    std::cout << "mask view " << (ok1 ? "ok" : "WRONG") << ", index view " << (ok2 ? "ok" : "WRONG") << "\n";
    return (ok1 && ok2) ? 0 : 1;
}
