// tocolumnmajor() ("Turns a row-major tensor to column-major") does the opposite conversion: it READS its argument's storage as
// column-major and writes row-major; torowmajor() is the one that places element (i0,..,ik) at the column-major offset.  The pair are exact
// inverses and Tensor(ptr,ColumnMajor) (which calls tocolumnmajor) is right, so only the two names/comments are exchanged.
// g++ -std=c++14 -O2 -I/repo layout-conversion-names-swapped.cpp && ./a.out
#include <Fastor/Fastor.h>
#include <iostream>
using namespace Fastor;
int main() {
    Tensor<double,2,3> a = {{0,1,2},{3,4,5}};                 // a(i,j) = 3*i+j
    Tensor<double,2,3> c = tocolumnmajor(a), r = torowmajor(a);
    std::cout << "column-major storage of a (offset i+2*j):  expected 0 3 1 4 2 5\n";
    std::cout << "tocolumnmajor(a).data():                   observed"; for (int k = 0; k < 6; ++k) std::cout << " " << c.data()[k]; std::cout << "\n";
    std::cout << "torowmajor(a).data():                      observed"; for (int k = 0; k < 6; ++k) std::cout << " " << r.data()[k]; std::cout << "\n";
    bool ok = true; for (int i = 0; i < 2; ++i) for (int j = 0; j < 3; ++j) ok = ok && c.data()[i + 2 * j] == a(i,j);
    std::cout << "tocolumnmajor places a(i,j) at the column-major offset: " << ok << "  (expected 1)\n";
    return ok ? 0 : 1;
}
