// C04 finding: the constant `flast` (Ranges.h) selects nothing.  It is defined as fseq<-1,-1,1>; under the library's own
// encoding a negative first together with a negative last are both end-relative, so it normalises to [N,N): extent 0.
// The compile-time spelling of "the last element" is fseq<-1,0,1> (what fix<last> produces).
//   g++ -std=c++14 -O2 -msse2 -I/repo flast-empty.cpp -o t && ./t
#include <Fastor/Fastor.h>
#include <iostream>
using namespace Fastor;
int main() {
    Tensor<double,5> a; a.iota(1);
    Tensor<double,3,5> b; b.iota(1);
    std::cout << "a(flast).size()        observed " << a(flast).size()        << " expected 1\n";
    std::cout << "a(ffirst).size()       observed " << a(ffirst).size()       << " expected 1\n";
    std::cout << "b(fall,flast) extents  observed " << b(fall,flast).dimension(0) << "x" << b(fall,flast).dimension(1) << " expected 3x1\n";
    Tensor<double,1> r = a(fix<last>);
    std::cout << "a(fix<last>)           observed " << r(0) << " expected 5\n";
    return 0;
}
