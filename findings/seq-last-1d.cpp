// C04 finding (known): a(seq(last)) / a(seq(-1)) on a 1-D tensor.  seq(-1) is (first,last) = (-1,0), which the 2-D and n-D view
// constructors map to the last element [N-1,N).  The two 1-D view constructors (tensor_views_1d.h:34-37 and :118-121) lack that
// rule: first becomes N, last stays 0, size() = -N.  Consumers that loop over the view's size() run away (hang or fault),
// consumers that loop over the destination read a[N].
//   g++ -std=c++14 -O2 -msse2 -I/repo seq-last-1d.cpp -o t && timeout 5 ./t ; echo "exit status $?"
//   expected: size 1, value 5;   observed: size -5 (as int), then the constructor never returns (exit status 124) or faults
#include <Fastor/Fastor.h>
#include <iostream>
using namespace Fastor;
int main() {
    Tensor<double,5> a; a.iota(1);
    Tensor<double,3,5> b; b.iota(1);
    Tensor<double,1,1> ok = b(seq(last), seq(last));
    std::cout << "2-D b(seq(last),seq(last)) = " << ok(0,0) << " expected 15" << std::endl;
    std::cout << "1-D a(seq(last)).size()    = " << (long long)a(seq(last)).size() << " expected 1" << std::endl;
    Tensor<double,1> r = a(seq(last));
    std::cout << "1-D a(seq(last))           = " << r(0) << " expected 5" << std::endl;
    return 0;
}
