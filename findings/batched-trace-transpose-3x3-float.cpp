#include <Fastor/Fastor.h>
#include <cstdio>
#include <sys/mman.h>
#include <cstring>
using namespace Fastor;
template<size_t B> void go() {
    // place the operand and the result so that each ends exactly at an inaccessible page
    char* m = (char*)mmap(0, 4*4096, PROT_READ|PROT_WRITE, MAP_PRIVATE|MAP_ANONYMOUS, -1, 0);
    mprotect(m+4096, 4096, PROT_NONE); mprotect(m+3*4096, 4096, PROT_NONE);
    using TT = Tensor<float,B,3,3>;
    TT* a = new (m+4096-sizeof(TT)) TT; TT* r = new (m+3*4096-sizeof(TT)) TT;
    a->iota(1);
#ifdef TRACE
    Tensor<float,B> t = trace(*a); printf("trace B=%zu ok %g\n", B, (double)t(B-1));
#else
    *r = transpose(*a); printf("transpose B=%zu ok %g sizeof=%zu\n", B, (double)(*r)(B-1,0,1), sizeof(TT));
#endif
}
int main(){ go<4>(); go<8>(); go<16>(); }
