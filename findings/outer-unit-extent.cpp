// outer(a,b) with a Tensor<T,1> operand drops the unit dimension from the result type; outer of two Tensor<T,1> is ambiguous
// g++ -std=c++14 -O2 -I/repo /verif/findings/outer-unit-extent.cpp && ./a.out        (add -DBOTH to see the ambiguity: does not compile)
#include <Fastor/Fastor.h>
#include <iostream>
#include <type_traits>
using namespace Fastor;
int main() {
    Tensor<double,2,3> a; a.iota(1);
    Tensor<double,1> b; b(0) = 2;
    auto ab = outer(a,b);      // expected Tensor<double,2,3,1>
    auto ba = outer(b,a);      // expected Tensor<double,1,2,3>
    auto e  = einsum<Index<0,1>,Index<2>>(a,b);   // the same product through einsum: Tensor<double,2,3,1>
    bool ok1 = std::is_same<decltype(ab),Tensor<double,2,3,1>>::value;
    bool ok2 = std::is_same<decltype(ba),Tensor<double,1,2,3>>::value;
    bool ok3 = std::is_same<decltype(e),Tensor<double,2,3,1>>::value;
    std::cout << "outer(Tensor<2,3>,Tensor<1>)  rank: expected 3 observed " << decltype(ab)::Dimension << (ok1 ? "  ok" : "  WRONG TYPE") << "\n";
    std::cout << "outer(Tensor<1>,Tensor<2,3>)  rank: expected 3 observed " << decltype(ba)::Dimension << (ok2 ? "  ok" : "  WRONG TYPE") << "\n";
    std::cout << "einsum<Index<0,1>,Index<2>>   rank: expected 3 observed " << decltype(e)::Dimension << (ok3 ? "  ok" : "  WRONG TYPE") << "\n";
#ifdef BOTH
    Tensor<double,1> c; c(0) = 3;
    auto cc = outer(b,c);      // error: call of overloaded 'outer' is ambiguous
    std::cout << cc.size() << "\n";
#endif
    return !(ok1 && ok2 && ok3);
}
