// C04 finding: on a *const* rank-2 tensor a slice that mixes a dynamic and a compile-time range does not compile.
// The non-const overloads operator()(fseq,seq) and operator()(seq,fseq) (BlockIndexing.h:112-123) have no const counterparts, so the
// call falls into the generic const overload operator()(Seq...) const, which builds TensorConstViewExpr<...,2>(*this,{_seqs...})
// although the 2-D const view is constructed from (seq,seq) (BlockIndexing.h:363).
//   g++ -std=c++14 -O2 -msse2 -I/repo const-mixed-seq-fseq.cpp -o t && ./t
//   expected: "4 expected 4" twice (as for the non-const tensor);   observed: error: no matching function for call to
//   'TensorConstViewExpr<Tensor<double,3,5>,2>::TensorConstViewExpr(const Tensor<double,3,5>&, <brace-enclosed initializer list>)'
#include <Fastor/Fastor.h>
#include <iostream>
using namespace Fastor;
int main() {
    Tensor<double,3,5> b; b.iota(1);
    const Tensor<double,3,5>& cb = b;
    Tensor<double,2,2> r0 = b(seq(0,2), fseq<1,5,2>());        // non-const: compiles
    Tensor<double,2,2> r1 = cb(seq(0,2), fseq<1,5,2>());       // const: rejected
    Tensor<double,2,2> r2 = cb(fseq<0,2>(), seq(1,5,2));       // const: rejected
    std::cout << r1(0,1) << " expected " << r0(0,1) << "\n" << r2(0,1) << " expected " << r0(0,1) << "\n";
    return 0;
}
