// FASTOR_TRANS_OUTER_BLOCK_SIZE / FASTOR_TRANS_INNER_BLOCK_SIZE (tunables listed in config/macros.h) give wrong transposes for any value
// other than 1 on AVX builds: the blocked kernel packs/unpacks ONE SIMD vector per row of a block that is numSIMDRows / numSIMDCols
// vectors wide, so half of every block is never copied (uninitialised stack memory is transposed instead).
// g++ -std=c++14 -O2 -mavx2 -mfma -I/repo -DFASTOR_TRANS_OUTER_BLOCK_SIZE=2 transpose-block-size-macros.cpp && ./a.out
// (same with -DFASTOR_TRANS_INNER_BLOCK_SIZE=2; correct with =1 or without the macro)
#include <Fastor/Fastor.h>
#include <iostream>
using namespace Fastor;
int main() {
    Tensor<double,9,9> a; a.iota(1);
    Tensor<double,9,9> t = transpose(a);
    int bad = 0;
    for (int i = 0; i < 9; ++i) for (int j = 0; j < 9; ++j) bad += t(j,i) != a(i,j);
    std::cout << "elements of transpose(a) that differ from a(i,j): expected 0, observed " << bad << "\n";
    std::cout << "t(4,0) = " << t(4,0) << "  expected a(0,4) = " << a(0,4) << "\n";
    return bad != 0;
}
