// <Fastor/Fastor.h> does not compile with -DFASTOR_DONT_PERFORM_OP_MIN (the macro named in config/macros.h):
// tensor_algebra/abstract_contraction.h:192 names einsum_helper, which meta/opmin_meta.h defines only with op-min on.
// g++ -std=c++14 -O2 -DFASTOR_DONT_PERFORM_OP_MIN -I/repo /verif/findings/opmin-off-header-does-not-compile.cpp && ./a.out
//   expected: compiles and prints "27 59"    observed: error: 'einsum_helper' was not declared in this scope
#include <Fastor/Fastor.h>
#include <iostream>
using namespace Fastor;
int main() {
    Tensor<double,2,2> a, b; Tensor<double,2> c; a.iota(1); b.iota(1); c.iota(1);
    auto o = einsum<Index<0,1>,Index<1,2>,Index<2>>(a,b,c);   // a_ij b_jk c_k
    std::cout << o(0) << " " << o(1) << "\n";
    return 0;
}
