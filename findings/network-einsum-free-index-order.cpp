// 3-operand einsum returns its free indices in pairing order, not in order of first appearance
// g++ -std=c++14 -O2 -I/repo /verif/findings/network-einsum-free-index-order.cpp && ./a.out
#include <Fastor/Fastor.h>
#include <iostream>
using namespace Fastor;
int main() {
    enum {I, J, K, L};
    Tensor<double,3,3> a, c; Tensor<double,3,3> b;
    a.iota(1); b.iota(2); c.iota(3);
    // a_ij b_kl c_jk -> out_il ; the cost model contracts (a,c) first (which_variant==1), then b with the result
    auto out = einsum<Index<I,J>,Index<K,L>,Index<J,K>>(a,b,c);
    using cm = triplet_flop_cost<Index<I,J>,Index<K,L>,Index<J,K>,Tensor<double,3,3>,Tensor<double,3,3>,Tensor<double,3,3>>;
    int bad = 0;
    for (int i=0;i<3;++i) for (int l=0;l<3;++l) {
        double e = 0; for (int j=0;j<3;++j) for (int k=0;k<3;++k) e += a(i,j)*b(k,l)*c(j,k);
        if (out(i,l) != e) { ++bad; std::cout << "out("<<i<<","<<l<<") expected " << e << " observed " << out(i,l) << "\n"; }
    }
    std::cout << "which_variant=" << cm::which_variant << " mismatches=" << bad << (bad ? "  (observed == transpose of expected)" : "") << "\n";
    return bad != 0;
}
