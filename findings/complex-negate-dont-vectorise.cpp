// g++ -std=c++14 -O2 -DFASTOR_DONT_VECTORISE -I/repo complex-negate-dont-vectorise.cpp
// Before the fix this does not compile: operator-(SIMDVector<std::complex<T>,simd_abi::scalar>) builds its zero with SIMDVector(0,0),
// which is ambiguous between (value_type,value_type) and (const scalar_value_type*,bool).
#include <Fastor/Fastor.h>
#include <complex>
#include <cstdio>
int main() {
    using Z = std::complex<double>;
    Fastor::Tensor<Z,3> a = {Z(1,2),Z(-3,4),Z(0,-1)}, r;
    r = -a;
    for (int i = 0; i < 3; ++i) if (r(i) != -a(i)) { std::printf("FAIL\n"); return 1; }
    std::printf("PASS\n"); return 0;
}
