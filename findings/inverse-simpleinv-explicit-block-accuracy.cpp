// Observation (not judged as a violation, see C10 ASSUMPTIONS): inverse<InvCompType::SimpleInv> - the default of
// inverse()/inv() - and SimpleInvPiv lose 2-3 digits more than the LU-based strategies as soon as a leading block
// of A is ill conditioned, also for symmetric positive definite A (where elimination without pivoting is stable).
//
//   g++ -std=c++14 -O2 -DNDEBUG -msse2 -I/repo inverse-simpleinv-explicit-block-accuracy.cpp -o repro && ./repro
//
// Cause: Fastor/expressions/linalg_ops/unary_inv_op.h:379-405 (and the larger size classes below it) eliminate through
// the EXPLICIT inverse of the leading block (c_inva = c*inv(a), Schur complement d - c_inva*b, inva_b = inv(a)*b);
// such block elimination is only conditionally stable: its error carries kappa(leading block) on top of kappa(A)
// (Demmel/Higham/Schreiber 1995; Higham, ASNA, Thm 13.6).  No small fix: it is the algorithm, not a slip.
#include <Fastor/Fastor.h>
#include <iostream>
using namespace Fastor;

template <size_t N> double resid(const Tensor<double,N,N>& A, const Tensor<double,N,N>& X) {
    Tensor<double,N,N> R = matmul(A, X); double s = 0;
    for (size_t i = 0; i < N; ++i) for (size_t j = 0; j < N; ++j) { double d = R(i,j) - (i == j); s += d * d; }
    return std::sqrt(s);
}
int main() {
    constexpr size_t N = 5;
    // A = H D H, H = I - 2 v v^T / v^T v (orthogonal, symmetric), D = diag(1 .. 1e-5): SPD, kappa_2(A) = 1e5
    Tensor<double,N,N> H, D(0.0); double v[N] = {1, 2, 3, 4, 5}, vv = 55;
    for (size_t i = 0; i < N; ++i) { D(i,i) = std::pow(10.0, -1.25 * double(i)); for (size_t j = 0; j < N; ++j) H(i,j) = (i == j) - 2 * v[i] * v[j] / vv; }
    Tensor<double,N,N> A = matmul(matmul(H, D), H);
    const double u = 1.1102230246251565e-16, bound = 8 * N * u * 1e5;
    std::cout << "textbook bound 8 n u kappa(A)                 : " << bound << "\n";
    std::cout << "||A X - I||_F  inverse<BlockLU>   (expected)  : " << resid(A, inverse<InvCompType::BlockLU>(A)) << "\n";
    std::cout << "||A X - I||_F  inverse<SimpleLU>  (expected)  : " << resid(A, inverse<InvCompType::SimpleLU>(A)) << "\n";
    std::cout << "||A X - I||_F  inverse<SimpleInv> (observed)  : " << resid(A, inverse<InvCompType::SimpleInv>(A)) << "\n";
    std::cout << "||A X - I||_F  inverse<SimpleInvPiv>(observed): " << resid(A, inverse<InvCompType::SimpleInvPiv>(A)) << "\n";
    return resid(A, inverse<InvCompType::SimpleInv>(A)) <= bound ? 0 : 1;
}
