// determinant<DetCompType::QR>(A) returns product(diag(R)) of the Gram-Schmidt QR, i.e. |det(A)|:
// the sign is lost whenever det(A) < 0.
// g++ -std=c++14 -O2 -I/repo det_qr_sign.cpp && ./a.out
#include <Fastor/Fastor.h>
#include <iostream>
using namespace Fastor;
int main() {
    Tensor<double,2,2> A = {{7., 1.}, {2., -8.}};              // det = -58
    double d_simple = determinant(A);
    double d_lu     = determinant<DetCompType::LU>(A);
    double d_qr     = determinant<DetCompType::QR>(A);
    std::cout << "Simple " << d_simple << "  LU " << d_lu << "  QR " << d_qr << "  (expected -58 for all)\n";
    return (d_qr < 0) ? 0 : 1;
}
