// C04 finding: a const n-D (rank >= 3) dynamic view read in a vectorised context does not LINK under -std=c++14:
// TensorConstViewExpr<TensorType<T,Rest...>,DIMS>::products_ is a static constexpr data member that is odr-used by teval()
// but, unlike its three sibling view classes, has no out-of-class definition (tensor_views_nd.h).  C++17 makes it implicitly inline.
//   g++ -std=c++14 -O2 -DNDEBUG -msse2 -I/repo constview-nd-products-odr.cpp -o t && ./t
//   expected: prints "54 expected 54";  observed: undefined reference to `Fastor::TensorConstViewExpr<...>::products_'
//   (the same file builds and prints 54 with -std=c++17)
#include <Fastor/Fastor.h>
#include <iostream>
using namespace Fastor;
int main(int argc, char**) {
    Tensor<float,2,3,8> a; a.iota(1);
    Tensor<float,2,3,8> r; r.zeros();
    const Tensor<float,2,3,8>& c = a;
    r(seq(0,2),seq(0,2),seq(0,argc+3)) = c(seq(0,2),seq(1,3),seq(1,argc+4));     // destination extent 4 = one SSE vector
    std::cout << r(1,1,2) + r(0,0,0) << " expected " << (a(1,2,3) + a(0,1,1)) << "\n";
    return 0;
}
