// with -DFASTOR_DONT_PERFORM_OP_MIN a 3-operand einsum that reduces to a scalar (e.g. the bilinear form a_i c_ij b_j)
// indexes idx_out[-1] of an empty array and writes through a wild output index (SIGSEGV / garbage)
// g++ -std=c++14 -O2 -DFASTOR_DONT_PERFORM_OP_MIN -I/repo /verif/findings/opmin-off-network-full-reduction.cpp && ./a.out
// (the next line only works around opmin-off-header-does-not-compile: Fastor.h itself needs the name with op-min off)
namespace Fastor { template<typename ... Ts> struct einsum_helper; }
#include <Fastor/Fastor.h>
#include <iostream>
using namespace Fastor;
int main() {
    Tensor<double,3> a, b; Tensor<double,3,3> c;
    a.iota(1); b.iota(2); c.iota(1);
    double e = 0; for (int i=0;i<3;++i) for (int j=0;j<3;++j) e += a(i)*b(j)*c(i,j);
    std::cout << "expected " << e << std::endl;
    auto r = einsum<Index<0>,Index<1>,Index<0,1>>(a,b,c);       // usually dies here
    std::cout << "observed " << r.toscalar() << std::endl;
    return r.toscalar() != e;
}
