// Legacy permutation<Index<p...>>(A): the RESULT TYPE has extents shape[p[n]] but the ELEMENTS are moved by p^-1
// (laid out for extents shape[p^-1[n]]), so for any non-involutive p on distinct extents the result is scrambled.
// g++ -std=c++14 -O2 -I/repo legacy-permutation-extents.cpp && ./a.out      (same under -std=c++17 and every ISA flag)
#include <Fastor/Fastor.h>
#include <iostream>
using namespace Fastor;
int main() {
    Tensor<double,2,3,4> a; a.iota(0);
    auto q = permutation<Index<2,0,1>>(a);          // p = (2,0,1), p^-1 = (1,2,0)
    auto byp    = permute<Index<2,0,1>>(a);          // Tensor<double,4,2,3>: out(i2,i0,i1) = a(i0,i1,i2)
    auto bypinv = permute<Index<1,2,0>>(a);          // Tensor<double,3,4,2>: out(i1,i2,i0) = a(i0,i1,i2)
    std::cout << "extents of permutation<2,0,1>: " << q.dimension(0) << "x" << q.dimension(1) << "x" << q.dimension(2)
              << "   (p gives 4x2x3, p^-1 gives 3x4x2)\n";
    bool el_p = true, el_pinv = true;
    for (int i = 0; i < 24; ++i) { el_p = el_p && q.data()[i] == byp.data()[i]; el_pinv = el_pinv && q.data()[i] == bypinv.data()[i]; }
    std::cout << "elements follow p: " << el_p << "   elements follow p^-1: " << el_pinv << "\n";
    std::cout << "expected: extents and elements follow the same one;  observed: extents p, elements p^-1\n";
    std::cout << "q(1,0,0) = " << q(1,0,0) << "   expected a(0,0,1) = " << a(0,0,1) << " if by p (extents 4x2x3)\n";
    return (el_p && q.dimension(0) == 4) || (el_pinv && q.dimension(0) == 3) ? 0 : 1;
}
