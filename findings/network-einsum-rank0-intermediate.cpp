// a 3-operand einsum in which one pairing contracts to a scalar does not compile (op-min on, the default)
// g++ -std=c++14 -O2 -I/repo /verif/findings/network-einsum-rank0-intermediate.cpp && ./a.out
#include <Fastor/Fastor.h>
#include <iostream>
using namespace Fastor;
int main() {
    Tensor<double,3> a, b; Tensor<double,2> c;
    a.iota(1); b.iota(2); c.iota(5);
    // out_j = (sum_i a_i b_i) c_j  : expected [100, 120]
    auto out = einsum<Index<0>,Index<0>,Index<1>>(a,b,c);
    double s = 0; for (int i=0;i<3;++i) s += a(i)*b(i);
    std::cout << "expected " << s*c(0) << " " << s*c(1) << "  observed " << out(0) << " " << out(1) << "\n";
    return !(out(0)==s*c(0) && out(1)==s*c(1));
}
