// none_of(x) returns any_of(x).
// g++ -std=c++14 -O2 -I/repo none_of_is_any_of.cpp && ./a.out
#include <Fastor/Fastor.h>
#include <iostream>
using namespace Fastor;
int main() {
    Tensor<bool,4> allfalse = {false,false,false,false}, onetrue = {false,true,false,false};
    bool a = none_of(allfalse), b = none_of(onetrue);
    std::cout << "none_of(all false) = " << a << " (expected 1), none_of(one true) = " << b << " (expected 0)\n";
    return (a && !b) ? 0 : 1;
}
