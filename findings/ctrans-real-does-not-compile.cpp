// ctrans(A) / ctranspose(A) are rejected at compile time for real element types: _ctranspose calls an unqualified conj()
// on the scalar, which only resolves (by ADL) for std::complex.  Expected: for real T the conjugate transpose is the transpose.
// g++ -std=c++14 -O2 -I/repo ctrans-real-does-not-compile.cpp            -> error: no matching function for call to 'conj(const double&)'
// g++ -std=c++14 -O2 -I/repo -DONLY_COMPLEX ctrans-real-does-not-compile.cpp && ./a.out   -> complex works
#include <Fastor/Fastor.h>
#include <iostream>
using namespace Fastor;
int main() {
    Tensor<std::complex<double>,2,3> c; for (int i = 0; i < 6; ++i) c.data()[i] = std::complex<double>(i, i + 1);
    Tensor<std::complex<double>,3,2> ch = ctrans(c);
    std::cout << "complex: ctrans(c)(2,1) = " << ch(2,1) << "  expected " << std::conj(c(1,2)) << "\n";
#ifndef ONLY_COMPLEX
    Tensor<double,2,3> a; a.iota(1);
    Tensor<double,3,2> ah = ctrans(a);               // does not compile
    Tensor<double,3,2> at = trans(a);
    std::cout << "real: ctrans(a)(2,1) = " << ah(2,1) << "  expected " << at(2,1) << "\n";
#endif
}
