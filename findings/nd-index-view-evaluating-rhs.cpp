// g++ -std=c++14 -O2 -I/repo nd-index-view-evaluating-rhs.cpp
// A(it0,it1) op= <expression that must be evaluated first> (here B % C) did not compile: the n-D index-tensor view had no
// requires_evaluation overloads (the 1-D index view, the mask view and the range views have them), so eval_s was called on the product node.
#include <Fastor/Fastor.h>
#include <cstdio>
using namespace Fastor;
int main() {
    Tensor<double,3,4> A; A.iota(1);
    Tensor<int,2> r = {0,2}, c = {1,3};
    Tensor<double,2,2> B = {{1,2},{3,4}}, C = {{2,0},{0,2}};
    A(r,c) = B % C;
    A(r,c) += B % C;
    bool ok = A(0,1) == 4 && A(0,3) == 8 && A(2,1) == 12 && A(2,3) == 16 && A(1,1) == 6;
    std::printf(ok ? "PASS\n" : "FAIL\n"); return ok ? 0 : 1;
}
