// m1 = m2 for two TensorMaps of the SAME type does not copy the values into m1's buffer (what the same statement does for owning
// tensors, and for maps of a different shape): TensorMap only declares a templated operator=(const AbstractTensor&), so the implicitly
// generated copy assignment wins overload resolution and silently re-seats m1's pointer onto m2's buffer.
// g++ -std=c++14 -O2 -I/repo tensormap-copy-assign-rebinds.cpp && ./a.out
#include <Fastor/Fastor.h>
#include <iostream>
using namespace Fastor;
int main() {
    double b1[6] = {1,2,3,4,5,6}, b2[6] = {10,20,30,40,50,60}, b3[6] = {1,2,3,4,5,6};
    TensorMap<double,2,3> m1(b1), m2(b2);
    TensorMap<double,2,3> m3(b3); TensorMap<double,3,2> m4(b2);
    m1 = m2;      // same type
    m3 = m4;      // other shape, same size: goes through the AbstractTensor template and copies
    std::cout << "after m1 = m2 (same type):  b1[0] = " << b1[0] << "  expected 10;  m1.data()==b2: " << (m1.data() == b2) << "  expected 0\n";
    std::cout << "after m3 = m4 (other shape): b3[0] = " << b3[0] << "  expected 10\n";
    m1 += 1.0;    // lands in b2, not in b1
    std::cout << "after m1 += 1:  b1[0] = " << b1[0] << " (expected 11)   b2[0] = " << b2[0] << " (expected 10)\n";
    return b1[0] == 11 ? 0 : 1;
}
