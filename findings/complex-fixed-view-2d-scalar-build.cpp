// With -DFASTOR_DONT_VECTORISE under C++14, evaluating a 2-D fseq view of a std::complex tensor does not compile: the vectorised branch of
// TensorFixedViewExpr2D::eval (expressions/views/tensor_fixed_views_2d.h:1098) calls vector_setter(), which has no overload for
// SIMDVector<std::complex<T>, simd_abi::scalar>.  Under C++17 the branch is discarded by `if constexpr`, with any SIMD flag it resolves.
// Surfaces in C14 as permute<Index<1,0>>(A(fseq<..>,fseq<..>)) being rejected for complex<double> on the scalar build only.
// g++ -std=c++14 -O2 -DFASTOR_DONT_VECTORISE -I/repo complex-fixed-view-2d-scalar-build.cpp        -> error: no matching function for call to 'vector_setter(...)'
// g++ -std=c++17 -O2 -DFASTOR_DONT_VECTORISE -I/repo complex-fixed-view-2d-scalar-build.cpp && ./a.out   (or -std=c++14 -msse2)  -> works
#include <Fastor/Fastor.h>
#include <iostream>
using namespace Fastor;
int main() {
    Tensor<std::complex<double>,3,5> b; for (int i = 0; i < 15; ++i) b.data()[i] = std::complex<double>(i, -i);
    Tensor<std::complex<double>,2,3> c = b(fseq<1,3>{}, fseq<1,4>{});
    auto p = permute<Index<1,0>>(b(fseq<1,3>{}, fseq<1,4>{}));
    std::cout << "c(1,2) = " << c(1,2) << "  p(2,1) = " << p(2,1) << "  expected " << b(2,3) << "\n";
}
