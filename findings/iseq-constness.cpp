// C04 finding: immediate ranges (iseq) are usable only on tensors of one particular const-ness per rank.
// The 1-D, 2-D and 4-D iseq overloads of Tensor::operator() are non-const, the 3-D one is const, and the generic
// variadic view overload (Seq...) accepts iseq arguments and then fails inside its body.
//   g++ -std=c++14 -O2 -msse2 -I/repo iseq-constness.cpp -o iseq-constness            (expected: compiles and prints OK lines)
//   observed on the unpatched tree: compile errors in BlockIndexing.h:138 (WHICH=3) / :363 (WHICH=1,2,4), e.g.
//   g++ -std=c++14 -I/repo -DWHICH=3 -fsyntax-only iseq-constness.cpp
#include <Fastor/Fastor.h>
#include <iostream>
using namespace Fastor;
#ifndef WHICH
#define WHICH 0          // 0 = all four
#endif
int main() {
    Tensor<double,7> a; a.iota(1); const Tensor<double,7>& ca = a;
    Tensor<double,3,5> b; b.iota(1); const Tensor<double,3,5>& cb = b;
    Tensor<double,2,3,4> c; c.iota(1);
    Tensor<double,2,2,3,2> d; d.iota(1); const Tensor<double,2,2,3,2>& cd = d;
#if WHICH == 0 || WHICH == 1
    { Tensor<double,3> r = ca(iseq<1,7,2>());               std::cout << "1-D const    : " << r(0) << "," << r(1) << "," << r(2) << " expected 2,4,6\n"; }
#endif
#if WHICH == 0 || WHICH == 2
    { Tensor<double,2,2> r = cb(iseq<1,3>(), iseq<1,5,2>());  std::cout << "2-D const    : " << r(0,0) << "," << r(1,1) << " expected 7,14\n"; }
#endif
#if WHICH == 0 || WHICH == 3
    { Tensor<double,1,2,2> r = c(iseq<1,2>(), iseq<0,3,2>(), iseq<1,4,2>()); std::cout << "3-D non-const: " << r(0,0,0) << "," << r(0,1,1) << " expected 14,24\n"; }
#endif
#if WHICH == 0 || WHICH == 4
    { Tensor<double,1,1,2,2> r = cd(iseq<1,2>(), iseq<0,2,2>(), iseq<1,3>(), iseq<0,2>()); std::cout << "4-D const    : " << r(0,0,0,0) << "," << r(0,0,1,1) << " expected 15,18\n"; }
#endif
    return 0;
}
