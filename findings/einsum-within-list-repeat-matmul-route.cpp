// pairwise einsum: an index repeated inside ONE list (a partial trace) is ignored by the generalised matrix-vector /
// vector-matrix / matrix-matrix classifiers, which then call _matmul with the trace dimensions as ordinary rows:
// wrong values and a write past the (smaller) result tensor; for some patterns the classifier itself indexes out of bounds.
// g++ -std=c++14 -O2 -I/repo /verif/findings/einsum-within-list-repeat-matmul-route.cpp && ./a.out     (-DOOB: does not compile)
#include <Fastor/Fastor.h>
#include <iostream>
using namespace Fastor;
int main() {
    Tensor<double,3,3,4> a; a.iota(1);
    Tensor<double,4> b; b.iota(1);
    Tensor<double,4,2> c; c.iota(1);
    auto r = einsum<Index<0,0,1>,Index<1>>(a,b);      // sum_ik a_iik b_k  -> scalar; classified as generalised matrix-vector
    auto g = einsum<Index<0,0,1>,Index<1,2>>(a,c);    // sum_ik a_iik c_kj -> not classified: general loop nest, right
    double e = 0, e0 = 0, e1 = 0;
    for (int i=0;i<3;++i) for (int k=0;k<4;++k) { e += a(i,i,k)*b(k); e0 += a(i,i,k)*c(k,0); e1 += a(i,i,k)*c(k,1); }
    std::cout << "einsum<Index<0,0,1>,Index<1>>   expected " << e << " observed " << r.toscalar() << "\n";
    std::cout << "einsum<Index<0,0,1>,Index<1,2>> expected " << e0 << " " << e1 << " observed " << g(0) << " " << g(1) << "\n";
    std::cout << "is_generalised_matrix_vector<Index<0,0,1>,Index<1>>::value = "
              << internal::is_generalised_matrix_vector<Index<0,0,1>,Index<1>>::value << " (should be 0)\n";
#ifdef OOB
    Tensor<double,2,3,2> a2; a2.iota(1); Tensor<double,3> b2; b2.iota(1);
    auto o = einsum<Index<0,1,0>,Index<1>>(a2,b2);    // error: array subscript value '1' is outside the bounds (einsum_meta.h:602)
    std::cout << o.toscalar() << "\n";
#endif
    return r.toscalar() != e;
}
