// A std::complex scalar operand of an expression was bound by reference to a dead parameter (wrong values at -O2).
// g++ -std=c++14 -O2 -I/repo complex-scalar-operand-dangling.cpp && ./a.out
#include <Fastor/Fastor.h>
#include <iostream>
using namespace Fastor;
int main() {
    using Z = std::complex<double>;
    Tensor<Z,3> a; a(0) = Z(1,2); a(1) = Z(3,-1); a(2) = Z(0,5);
    Tensor<Z,3> b = Z(2,0) * a;
    bool ok = b(0) == Z(2,4) && b(1) == Z(6,-2) && b(2) == Z(0,10);
    std::cout << (ok ? "PASS" : "FAIL") << " " << b(0) << b(1) << b(2) << "\n";
    return ok ? 0 : 1;
}
