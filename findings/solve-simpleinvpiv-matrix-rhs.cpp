// solve<SolveCompType::SimpleInvPiv>(A, B) with a MATRIX right-hand side returns a wrong solution whenever the
// row pre-pivot of A is not the identity.  The vector overload is correct.
//
//   g++ -std=c++14 -O2 -DNDEBUG -msse2 -I/repo solve-simpleinvpiv-matrix-rhs.cpp -o repro && ./repro
//
// Cause: Fastor/expressions/linalg_ops/binary_solve_op.h:61 undoes the pivot with reconstruct(invA,p), which permutes
// the ROWS of inv(P*A); inv(A) = inv(P*A)*P needs the COLUMNS permuted (reconstruct_colwise, as the vector overload
// at line 36 and inverse<InvCompType::SimpleInvPiv> do).  Fix: solve-simpleinvpiv-matrix-rhs.patch (one call).
#include <Fastor/Fastor.h>
#include <iostream>
using namespace Fastor;

int main() {
    // rows 0 and 2 of a column-dominant matrix swapped: pivot = {2,1,0}
    Tensor<double,3,3> A = {{3,-2,12},{1,10,4},{20,5,7}};
    Tensor<double,3>   b = {1,3,5};
    Tensor<double,3,2> B = {{1,2},{3,4},{5,6}};          // first column == b

    Tensor<double,3>   x  = solve<SolveCompType::SimpleInvPiv>(A, b);   // vector rhs: correct
    Tensor<double,3,2> X  = solve<SolveCompType::SimpleInvPiv>(A, B);   // matrix rhs: wrong
    Tensor<double,3,2> Xr = solve<SolveCompType::SimpleLUPiv>(A, B);    // another strategy, for reference

    std::cout << "pivot(A)                         : " << pivot<PivType::V>(A)(0) << " " << pivot<PivType::V>(A)(1) << " " << pivot<PivType::V>(A)(2) << "\n";
    std::cout << "expected  X(:,0) (= x, vector rhs): " << x(0) << " " << x(1) << " " << x(2) << "\n";
    std::cout << "reference X(:,0) (SimpleLUPiv)    : " << Xr(0,0) << " " << Xr(1,0) << " " << Xr(2,0) << "\n";
    std::cout << "observed  X(:,0) (SimpleInvPiv)   : " << X(0,0) << " " << X(1,0) << " " << X(2,0) << "\n";
    Tensor<double,3,2> R = matmul(A, X) - B;
    double r = 0; for (int i = 0; i < 3; ++i) for (int j = 0; j < 2; ++j) r += R(i,j) * R(i,j);
    std::cout << "||A X - B||_F expected ~1e-15, observed " << std::sqrt(r) << "\n";
    return std::sqrt(r) < 1e-12 ? 0 : 1;
}
