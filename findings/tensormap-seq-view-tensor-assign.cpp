// Assigning (or +=, -=, ...) a TENSOR to a dynamic seq view of a 2-D TensorMap does not compile (scalar right-hand sides, fseq views and maps of
// rank >= 3 do; the 1-D case had the same defect until /repo commit cbcda0a).  Cause: a view of a TensorMap is always the generic n-D TensorViewExpr (expressions/views/tensor_views_nd.h); its
// operator=/+=/... (lines 381, 495, ...) build, for the noalias() branch, a `TensorViewExpr<Tensor<T,Rest...>,DIMS>(tmp, get_sequences())`
// from a std::array<seq,DIMS>, but for DIMS = 2 that type is the specialised 2-D Tensor view whose constructor takes (Tensor&, seq, seq).
// Also rejected on maps: m(Tensor<bool,...> mask) (TensorFilterViewExpr is only defined for Tensor), diag(map), lazy `map = A % B`.
// g++ -std=c++14 -O2 -I/repo tensormap-seq-view-tensor-assign.cpp    -> error: no matching function for call to
//     'TensorViewExpr<Tensor<double,2,3>,2>::TensorViewExpr(Tensor<double,2,3>&, std::array<seq,2>)'
// g++ -std=c++14 -O2 -I/repo -DRANK3 tensormap-seq-view-tensor-assign.cpp && ./a.out   -> the same statement on a rank-3 map works
#include <Fastor/Fastor.h>
#include <iostream>
using namespace Fastor;
int main() {
    double buf[6] = {1,2,3,4,5,6};
#ifdef RANK3
    TensorMap<double,1,2,3> m(buf); Tensor<double,1,1,3> s; s.fill(9);
    m(seq(0,1), seq(0,1), seq(0,3)) = s;
#else
    TensorMap<double,2,3> m(buf); Tensor<double,1,3> s; s.fill(9);
    m(seq(0,1), seq(0,3)) = s;        // expected: buf = 9 9 9 4 5 6 ; observed: does not compile
#endif
    for (double v : buf) std::cout << v << " "; std::cout << " (expected 9 9 9 4 5 6)\n";
}
