// pairwise einsum/contraction: the last index of the second tensor repeated INSIDE the second tensor (a trace) is treated as a
// free, vectorisable index when its extent is a multiple of the 128-bit vector width -> wrong values / reads past the operand
// g++ -std=c++14 -O2 -msse2 -I/repo /verif/findings/einsum-last-index-repeated-vectorised.cpp && ./a.out
#include <Fastor/Fastor.h>
#include <iostream>
using namespace Fastor;
int main() {
    Tensor<double,3> a; a.iota(1);
    Tensor<double,4,4> b4; b4.iota(1);      // extent 4 = multiple of the vector width: wrong
    Tensor<double,3,3> b3; b3.iota(1);      // extent 3: scalar loop, right
    auto r4 = einsum<Index<0>,Index<1,1>>(a,b4);   // out_i = a_i * trace(b)
    auto r3 = einsum<Index<0>,Index<1,1>>(a,b3);
    double t4 = 0, t3 = 0; for (int k=0;k<4;++k) t4 += b4(k,k); for (int k=0;k<3;++k) t3 += b3(k,k);
    int bad = 0;
    for (int i=0;i<3;++i) {
        std::cout << "extent 4: out("<<i<<") expected " << a(i)*t4 << " observed " << r4(i)
                  << "   extent 3: expected " << a(i)*t3 << " observed " << r3(i) << "\n";
        bad += (r4(i) != a(i)*t4) + (r3(i) != a(i)*t3);
    }
    std::cout << "is_vectorisable<Index<0>,Index<1,1>,Tensor<double,4,4>>::stride = "
              << is_vectorisable<Index<0>,Index<1,1>,Tensor<double,4,4>>::stride << " (should be 1: index 1 is summed over)\n";
    return bad != 0;
}
