// noalias() is a no-op on compile-time (fseq) views of 1-D and 2-D tensors: the assignment reads elements it has already
// overwritten, while the same statement through run-time seq views (and 3-D fseq views) works on a snapshot.
// g++ -std=c++14 -O2 -DNDEBUG -msse2 -I/repo fseq-noalias-noop.cpp -o fseq-noalias-noop && ./fseq-noalias-noop
#include <Fastor/Fastor.h>
#include <iostream>
using namespace Fastor;
template <class T> void row(const char* s, const T& t) { std::cout << s; for (size_t i = 0; i < t.size(); ++i) std::cout << ' ' << t.data()[i]; std::cout << '\n'; }
int main() {
    Tensor<int,12> a, b, e; a.iota(1); b = a; e = a;
    for (int i = 2; i < 11; ++i) e(i) = i;                    // a[2..10] = old a[1..9]   (old a[k] = k+1)
    a(fseq<2,11>()).noalias() = a(fseq<1,10>());              // compile-time ranges
    b(seq(2,11)).noalias()    = b(seq(1,10));                 // the same ranges at run time
    Tensor<int,3,6> m, me; m.iota(1); me = m;
    for (int i = 0; i < 3; ++i) for (int j = 1; j < 6; ++j) me(i,j) = 6*i + j;          // columns 1..5 = old columns 0..4
    m(fseq<0,3>(), fseq<1,6>()).noalias() = m(fseq<0,3>(), fseq<0,5>());
    bool ok1 = true, ok2 = true, ok3 = true;
    for (int i = 0; i < 12; ++i) { ok1 = ok1 && a(i) == e(i); ok2 = ok2 && b(i) == e(i); }
    for (int i = 0; i < 18; ++i) ok3 = ok3 && m.data()[i] == me.data()[i];
    row("expected 1-D:", e); row("fseq     1-D:", a); row("seq      1-D:", b);
    row("expected 2-D:", me); row("fseq     2-D:", m);
    std::cout << "fseq 1-D " << (ok1 ? "ok" : "WRONG") << ", seq 1-D " << (ok2 ? "ok" : "WRONG") << ", fseq 2-D " << (ok3 ? "ok" : "WRONG") << "\n";
    return (ok1 && ok2 && ok3) ? 0 : 1;
}
